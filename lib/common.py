"""Shared orchestration helpers for /verif/check: TLC runner, Go harness builder, evidence, findings."""
import json, os, re, shutil, subprocess, sys, tempfile, time, hashlib, glob

VERIF = os.path.dirname(os.path.dirname(os.path.abspath(__file__)))
REPO = os.environ.get("VERIF_REPO", "/repo")
SPEC = os.path.join(VERIF, "spec")
HARNESS = os.path.join(VERIF, "harness")
STAGE = os.path.join(VERIF, ".stage")
BUILD = os.path.join(VERIF, ".build")
NCPU = os.cpu_count() or 4

GOENV = dict(os.environ, GOFLAGS="-mod=mod", GOPROXY="off", GOSUMDB="off", GOTOOLCHAIN="local",
             GONOSUMDB="*", GONOSUMCHECK="1", GOFLAGS_EXTRA="")
GO = shutil.which("go1.26") or "/usr/local/bin/go1.26"


class Infra(Exception):
    """Infrastructure problem (timeout, OOM, build failure, model error): exit 2, never a violation."""


def log(*a):
    print(*a, flush=True)


# --------------------------------------------------------------------------------------------- scratch
class Scratch:
    def __enter__(self):
        self.d = tempfile.mkdtemp(prefix="verif_")
        return self.d

    def __exit__(self, *a):
        shutil.rmtree(self.d, ignore_errors=True)


# --------------------------------------------------------------------------------------------- TLC
class TLCResult:
    def __init__(self):
        self.rc = None
        self.out = ""
        self.generated = 0
        self.distinct = 0
        self.depth = 0
        self.violated = None       # name of the violated invariant / property, if any
        self.prints = []           # values printed with PrintT, raw strings
        self.wall = 0.0
        self.error = None          # other TLC error text
        self.coverage0 = []        # actions never taken (with -coverage)

    def json_prints(self, tag=None):
        """PrintT(ToJson(x)) shows as a quoted string with escaped quotes; decode those that parse."""
        res = []
        for p in self.prints:
            s = p.strip()
            if s.startswith('"') and s.endswith('"'):
                try:
                    s2 = json.loads(s)
                except Exception:
                    s2 = s[1:-1].replace('\\"', '"')
                try:
                    v = json.loads(s2)
                except Exception:
                    continue
                if tag is None or (isinstance(v, dict) and v.get("t") == tag):
                    res.append(v)
        return res


_STATES = re.compile(r"(\d+) states generated, (\d+) distinct states found")
_DEPTH = re.compile(r"The depth of the complete state graph search is (\d+)")
_INV = re.compile(r"Invariant (\S+) is violated")
_PROP = re.compile(r"Temporal properties were violated|Action property (\S+) is violated")


def run_tlc(module, cfg_text, files=(), extra_dir=None, workers=None, timeout=600, env=None, args=(),
            simulate=None, deadlock=False, heap=None, quiet=True, keep=None):
    """Run TLC on spec module `module` (file name without .tla found in SPEC or among `files`).
    Everything is copied into a scratch directory; cfg_text becomes <module>.cfg.
    Returns TLCResult.  Raises Infra on timeout / JVM failure."""
    res = TLCResult()
    with Scratch() as d:
        for root, _, fs in os.walk(SPEC):
            for f in fs:
                if f.endswith(".tla"):
                    shutil.copy(os.path.join(root, f), os.path.join(d, f))
        for f in files:
            if isinstance(f, tuple):
                with open(os.path.join(d, f[0]), "w") as fh:
                    fh.write(f[1])
            else:
                shutil.copy(f, os.path.join(d, os.path.basename(f)))
        with open(os.path.join(d, module + ".cfg"), "w") as fh:
            fh.write(cfg_text)
        cmd = ["tlc", "-metadir", os.path.join(d, "meta"), "-workers", str(workers or "auto"),
               "-config", module + ".cfg"]
        if not deadlock:
            cmd.append("-deadlock")
        if simulate:
            cmd += ["-simulate", simulate]
        cmd += list(args)
        cmd.append(module + ".tla")
        e = dict(os.environ)
        jopts = "-Xss256m"
        if heap:
            jopts += " -Xmx" + heap
        e["JAVA_TOOL_OPTIONS"] = (e.get("JAVA_TOOL_OPTIONS", "") + " " + jopts).strip()
        if env:
            e.update({k: str(v) for k, v in env.items()})
        t0 = time.time()
        try:
            p = subprocess.run(cmd, cwd=d, env=e, stdout=subprocess.PIPE, stderr=subprocess.STDOUT,
                               timeout=timeout, text=True, errors="replace")
        except subprocess.TimeoutExpired:
            subprocess.run(["pkill", "-f", d], check=False)
            raise Infra("TLC timeout after %ss on %s" % (timeout, module))
        res.wall = time.time() - t0
        res.rc = p.returncode
        res.out = p.stdout
        if keep:
            with open(keep, "w") as fh:
                fh.write(p.stdout)
    _parse_tlc(res)
    if res.rc not in (0, 12, 13) and res.violated is None:
        # 12 = safety violation, 13 = liveness violation; anything else is an infrastructure / spec error
        tail = "\n".join(res.out.splitlines()[-40:])
        raise Infra("TLC failed (rc=%s) on %s:\n%s" % (res.rc, module, tail))
    return res


def _parse_tlc(res):
    gen = dist = 0
    for m in _STATES.finditer(res.out):
        gen, dist = int(m.group(1)), int(m.group(2))
    res.generated, res.distinct = gen, dist
    m = _DEPTH.search(res.out)
    if m:
        res.depth = int(m.group(1))
    m = _INV.search(res.out)
    if m:
        res.violated = m.group(1)
    else:
        m = _PROP.search(res.out)
        if m:
            res.violated = m.group(1) or "TemporalProperty"
    # PrintT output: lines that are not TLC's own messages.  TLC prints values on their own lines.
    for line in res.out.splitlines():
        s = line.strip()
        if s.startswith('"{') or s.startswith('"[') or s.startswith("<<"):
            res.prints.append(s)
    if "-coverage" in res.out or "coverage" in res.out:
        for m in re.finditer(r"<(\w+) line \d+, col \d+ to line \d+, col \d+ of module (\w+)>: (\d+):(\d+)", res.out):
            if m.group(3) == "0" and m.group(4) == "0":
                res.coverage0.append(m.group(2) + "!" + m.group(1))


def sany(module_path):
    p = subprocess.run(["tla-sany", module_path], stdout=subprocess.PIPE, stderr=subprocess.STDOUT, text=True)
    return p.returncode == 0 and "Semantic errors" not in p.stdout and "Parse Error" not in p.stdout, p.stdout


# --------------------------------------------------------------------------------------------- Go harness
def stage_internal():
    """Copy /repo/internal/{maplike,seq,pipe} under the module path they declare (github.com/fogfish/golem)
    so they compile; internal/pipe becomes `purepipe` (its package name stays `pipe`)."""
    root = os.path.join(STAGE, "golem")
    shutil.rmtree(root, ignore_errors=True)
    os.makedirs(root)
    with open(os.path.join(root, "go.mod"), "w") as f:
        f.write("module github.com/fogfish/golem\n\ngo 1.22\n")
    for src, dst in (("maplike", "maplike"), ("seq", "seq"), ("pipe", "purepipe")):
        s = os.path.join(REPO, "internal", src)
        if os.path.isdir(s):
            shutil.copytree(s, os.path.join(root, dst),
                            ignore=shutil.ignore_patterns("*_test.go"))
    return root


def prepare_harness():
    """go.sum is rebuilt from the repository's own go.sum files (offline)."""
    stage_internal()
    sums = set()
    for p in glob.glob(os.path.join(REPO, "*", "go.sum")) + glob.glob(os.path.join(VERIF, "harness", "go.sum.extra")):
        with open(p) as f:
            sums.update(l for l in f.read().splitlines() if l.strip())
    with open(os.path.join(HARNESS, "go.sum"), "w") as f:
        f.write("\n".join(sorted(sums)) + "\n")


def go_build_test(pkg, out_name, tags="verif", race=False, timeout=600, extra_env=None):
    """go test -c for ./<pkg> of the harness module; returns path of the test binary (under .build)."""
    os.makedirs(BUILD, exist_ok=True)
    out = os.path.join(BUILD, out_name)
    cmd = [GO, "test", "-c", "-vet=off", "-tags", tags, "-o", out]
    if race:
        cmd.append("-race")
    cmd.append("./" + pkg)
    e = dict(GOENV)
    if extra_env:
        e.update(extra_env)
    p = subprocess.run(cmd, cwd=HARNESS, env=e, stdout=subprocess.PIPE, stderr=subprocess.STDOUT, text=True,
                       timeout=timeout)
    if p.returncode != 0:
        raise Infra("go build of harness package %s failed:\n%s" % (pkg, p.stdout[-4000:]))
    return out


def run_bin(binpath, args=(), env=None, timeout=600, cwd=None):
    e = dict(GOENV)
    if env:
        e.update({k: str(v) for k, v in env.items()})
    try:
        p = subprocess.run([binpath] + list(args), cwd=cwd or HARNESS, env=e, stdout=subprocess.PIPE,
                           stderr=subprocess.PIPE, text=True, errors="replace", timeout=timeout)
    except subprocess.TimeoutExpired:
        raise Infra("harness binary timeout: %s" % binpath)
    return p


# --------------------------------------------------------------------------------------------- findings
def load_findings():
    path = os.path.join(VERIF, "known_findings.jsonl")
    known, fixed = [], []
    if os.path.exists(path):
        for line in open(path):
            line = line.strip()
            if not line or line.startswith("#"):
                continue
            if line.startswith("fixed:"):
                fixed.append(line)
                continue
            rec = json.loads(line)
            if rec.get("status") == "fixed":
                fixed.append(rec)
            else:
                known.append(rec)
    return known, fixed


def match_finding(pid, sig, known):
    """sig: dict describing a violation structurally.  A known entry matches when every key of its
    `sig` equals the violation's value for that key."""
    for k in known:
        if k.get("property") != pid:
            continue
        ks = k.get("sig", {})
        if all(sig.get(a) == b for a, b in ks.items()):
            return k
    return None


# --------------------------------------------------------------------------------------------- evidence / verdict
class Run:
    """Collects what one check run covered and produces the evidence file and the exit code."""

    def __init__(self, pid, tier, seed):
        self.pid, self.tier, self.seed = pid, tier, seed
        self.t0 = time.time()
        self.states = 0
        self.transitions = 0
        self.traces = 0
        self.samples = []
        self.violations = []     # (sig, description, replay payload)
        self.known_hits = []
        self.drift = []
        self.notes = {}
        self.exhaustive = False
        self.assumptions = []
        self.mc_runs = []

    def add_mc(self, name, res, constants=None):
        self.states += res.distinct
        self.transitions += res.generated
        self.mc_runs.append({"model": name, "distinct": res.distinct, "generated": res.generated,
                             "depth": res.depth, "wall_s": round(res.wall, 2), "constants": constants or {}})

    def sample(self, s, limit=6):
        if len(self.samples) < limit:
            self.samples.append(s)

    def violation(self, sig, what, payload):
        known, _ = load_findings()
        k = match_finding(self.pid, sig, known)
        if k is not None:
            if not any(h is k for h in self.known_hits):
                self.known_hits.append(k)
            return False
        self.violations.append((sig, what, payload))
        return True

    def finish(self):
        known, _ = load_findings()
        for k in self.known_hits:
            log("KNOWN-FINDING: property=%s %s" % (self.pid, k.get("what", json.dumps(k.get("sig")))))
        rc = 0
        rdir = os.path.join(VERIF, "replays", self.pid)
        for i, (sig, what, payload) in enumerate(self.violations[:20]):
            os.makedirs(rdir, exist_ok=True)
            h = hashlib.sha1(json.dumps(payload, sort_keys=True, default=str).encode()).hexdigest()[:10]
            path = os.path.join(rdir, "viol_%s.json" % h)
            with open(path, "w") as f:
                json.dump({"property": self.pid, "sig": sig, "what": what, "payload": payload}, f, indent=1, default=str)
            log("VIOLATION property=%s replay=%s" % (self.pid, path))
            log("  " + what)
            rc = 1
        for dmsg in self.drift[:10]:
            log("SPEC-DRIFT property=%s %s" % (self.pid, dmsg))
        cov = {"states": max(self.states, 0), "transitions": max(self.transitions, 0),
               "traces_validated_against_impl": self.traces,
               "samples": self.samples or ["(no sample recorded)"],
               "exhaustive": self.exhaustive, "mc_runs": self.mc_runs,
               "spec_drift": len(self.drift), "known_finding_hits": len(self.known_hits)}
        cov.update(self.notes)
        ev = {"property_id": self.pid, "tier": self.tier, "seed": self.seed, "level": "model_checking",
              "coverage": cov, "assumptions": self.assumptions, "wall_s": round(time.time() - self.t0, 2),
              "violations": len(self.violations)}
        os.makedirs(os.path.join(VERIF, "evidence"), exist_ok=True)
        with open(os.path.join(VERIF, "evidence", self.pid + ".json"), "w") as f:
            json.dump(ev, f, indent=1, default=str)
        log("RESULT property=%s tier=%s seed=%s states=%d transitions=%d impl_traces=%d violations=%d known=%d drift=%d wall=%.1fs"
            % (self.pid, self.tier, self.seed, self.states, self.transitions, self.traces, len(self.violations),
               len(self.known_hits), len(self.drift), time.time() - self.t0))
        return rc
