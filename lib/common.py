"""Shared orchestration helpers for /verif/check: TLC runner, Go harness builder, evidence, findings."""
import json, os, re, shutil, subprocess, sys, tempfile, time, hashlib, glob

VERIF = os.path.dirname(os.path.dirname(os.path.abspath(__file__)))
REPO = os.environ.get("VERIF_REPO", "/repo")
SPEC = os.path.join(VERIF, "spec")
HARNESS = os.path.join(VERIF, "harness")
STAGE = os.path.join(VERIF, ".stage")
BUILD = os.path.join(VERIF, ".build")
NCPU = os.cpu_count() or 4

GOCACHE = os.path.join(BUILD, "gocache")      # the checks' own build cache (pruned when it grows: generated packages fill it quickly)
GOENV = dict(os.environ, GOFLAGS="-mod=mod", GOPROXY="off", GOSUMDB="off", GOTOOLCHAIN="local",
             GONOSUMDB="*", GONOSUMCHECK="1", GOFLAGS_EXTRA="", GOCACHE=GOCACHE)


def _on_term(signum, frame):
    raise SystemExit(143)        # lets the Scratch() context managers remove their directories


try:
    import signal
    signal.signal(signal.SIGTERM, _on_term)
except Exception:
    pass


def prune_gocache(limit_gb=6):
    try:
        out = subprocess.run(["du", "-s", "-BM", GOCACHE], stdout=subprocess.PIPE, text=True).stdout.split()
        if out and int(out[0].rstrip("M")) > limit_gb * 1024:
            shutil.rmtree(GOCACHE, ignore_errors=True)
    except Exception:
        pass
GO = shutil.which("go1.26") or "/usr/local/bin/go1.26"


class Infra(Exception):
    """Infrastructure problem (timeout, OOM, build failure, model error): exit 2, never a violation."""


def log(*a):
    print(*a, flush=True)


# --------------------------------------------------------------------------------------------- scratch
class Scratch:
    def __enter__(self):
        self.d = tempfile.mkdtemp(prefix="verif_")
        return self.d

    def __exit__(self, *a):
        shutil.rmtree(self.d, ignore_errors=True)


# --------------------------------------------------------------------------------------------- TLC
class TLCResult:
    def __init__(self):
        self.rc = None
        self.out = ""
        self.generated = 0
        self.distinct = 0
        self.depth = 0
        self.violated = None       # name of the violated invariant / property, if any
        self.prints = []           # values printed with PrintT, raw strings
        self.wall = 0.0
        self.error = None          # other TLC error text
        self.coverage0 = []        # actions never taken (with -coverage)

    def json_prints(self, tag=None):
        """PrintT(ToJson(x)) shows as a quoted string with escaped quotes; decode those that parse."""
        res = []
        for p in self.prints:
            s = p.strip()
            if s.startswith('"') and s.endswith('"'):
                try:
                    s2 = json.loads(s)
                except Exception:
                    s2 = s[1:-1].replace('\\"', '"')
                try:
                    v = json.loads(s2)
                except Exception:
                    continue
                if tag is None or (isinstance(v, dict) and v.get("t") == tag):
                    res.append(v)
        return res


_STATES = re.compile(r"(\d+) states generated, (\d+) distinct states found")
_DEPTH = re.compile(r"The depth of the complete state graph search is (\d+)")
_INV = re.compile(r"Invariant (\S+) is violated")
_PROP = re.compile(r"Temporal properties were violated|Action property (\S+) is violated|Temporal property (\S+) was violated")


def run_tlc(module, cfg_text, files=(), extra_dir=None, workers=None, timeout=600, env=None, args=(),
            simulate=None, deadlock=False, heap=None, quiet=True, keep=None):
    """Run TLC on spec module `module` (file name without .tla found in SPEC or among `files`).
    Everything is copied into a scratch directory; cfg_text becomes <module>.cfg.
    Returns TLCResult.  Raises Infra on timeout / JVM failure."""
    res = TLCResult()
    with Scratch() as d:
        for root, _, fs in os.walk(SPEC):
            for f in fs:
                if f.endswith(".tla"):
                    shutil.copy(os.path.join(root, f), os.path.join(d, f))
        for f in files:
            if isinstance(f, tuple):
                with open(os.path.join(d, f[0]), "w") as fh:
                    fh.write(f[1])
            else:
                shutil.copy(f, os.path.join(d, os.path.basename(f)))
        with open(os.path.join(d, module + ".cfg"), "w") as fh:
            fh.write(cfg_text)
        cmd = ["tlc", "-metadir", os.path.join(d, "meta"), "-workers", str(workers or "auto"),
               "-config", module + ".cfg"]
        if not deadlock:
            cmd.append("-deadlock")
        if simulate:
            cmd += ["-simulate", simulate]
        cmd += list(args)
        cmd.append(module + ".tla")
        e = dict(os.environ)
        jopts = "-Xss256m -Xmx" + (heap or "8g")
        e["JAVA_TOOL_OPTIONS"] = (e.get("JAVA_TOOL_OPTIONS", "") + " " + jopts).strip()
        if env:
            e.update({k: str(v) for k, v in env.items()})
        t0 = time.time()
        try:
            p = subprocess.run(cmd, cwd=d, env=e, stdout=subprocess.PIPE, stderr=subprocess.STDOUT,
                               timeout=timeout, text=True, errors="replace")
        except subprocess.TimeoutExpired:
            subprocess.run(["pkill", "-f", d], check=False)
            raise Infra("TLC timeout after %ss on %s" % (timeout, module))
        res.wall = time.time() - t0
        res.rc = p.returncode
        res.out = p.stdout
        if keep:
            with open(keep, "w") as fh:
                fh.write(p.stdout)
    _parse_tlc(res)
    if res.rc not in (0, 12, 13) and res.violated is None:
        # 12 = safety violation, 13 = liveness violation; anything else is an infrastructure / spec error
        i = res.out.find("Error:")
        tail = res.out[i:i + 3000] if i >= 0 else "\n".join(res.out.splitlines()[-40:])
        raise Infra("TLC failed (rc=%s) on %s:\n%s" % (res.rc, module, tail))
    return res


def _parse_tlc(res):
    gen = dist = 0
    for m in _STATES.finditer(res.out):
        gen, dist = int(m.group(1)), int(m.group(2))
    res.generated, res.distinct = gen, dist
    m = _DEPTH.search(res.out)
    if m:
        res.depth = int(m.group(1))
    m = _INV.search(res.out)
    if m:
        res.violated = m.group(1)
    else:
        m = _PROP.search(res.out)
        if m:
            res.violated = m.group(1) or m.group(2) or "TemporalProperty"
    # PrintT output: lines that are not TLC's own messages.  TLC prints values on their own lines.
    for line in res.out.splitlines():
        s = line.strip()
        if s.startswith('"{') or s.startswith('"[') or s.startswith("<<"):
            res.prints.append(s)
    if "-coverage" in res.out or "coverage" in res.out:
        for m in re.finditer(r"<(\w+) line \d+, col \d+ to line \d+, col \d+ of module (\w+)>: (\d+):(\d+)", res.out):
            if m.group(3) == "0" and m.group(4) == "0":
                res.coverage0.append(m.group(2) + "!" + m.group(1))


def sany(module_path):
    p = subprocess.run(["tla-sany", module_path], stdout=subprocess.PIPE, stderr=subprocess.STDOUT, text=True)
    return p.returncode == 0 and "Semantic errors" not in p.stdout and "Parse Error" not in p.stdout, p.stdout


# --------------------------------------------------------------------------------------------- Go harness
import fcntl, contextlib

GOMOD = """module verifharness

go 1.26

require (
	github.com/fogfish/golem v0.0.0
	github.com/fogfish/golem/duct v0.0.0
	github.com/fogfish/golem/hseq v1.3.0
	github.com/fogfish/golem/optics v0.0.0
	github.com/fogfish/golem/pipe/v2 v2.0.0
	github.com/fogfish/golem/pure v0.10.1
	github.com/fogfish/golem/trait v0.0.0
	pgregory.net/rapid v1.3.0
)

replace (
	github.com/fogfish/golem => ./.stage/golem
	github.com/fogfish/golem/duct => %(repo)s/duct
	github.com/fogfish/golem/hseq => %(repo)s/hseq
	github.com/fogfish/golem/optics => %(repo)s/optics
	github.com/fogfish/golem/pipe/v2 => %(repo)s/pipe
	github.com/fogfish/golem/pure => %(repo)s/pure
	github.com/fogfish/golem/trait => %(repo)s/trait
)
"""


def workdir():
    """The harness is built in a work copy under .build/ (one per repository path), so /verif/harness holds
    sources only and a scratch copy of the repository (VERIF_REPO=...) can be checked side by side."""
    key = "default" if REPO == "/repo" else "r" + hashlib.sha1(REPO.encode()).hexdigest()[:8]
    return os.path.join(BUILD, "h_" + key)


@contextlib.contextmanager
def build_lock():
    os.makedirs(BUILD, exist_ok=True)
    # one lock for every work copy: the Go build cache under .build/gocache is shared and is pruned under this lock
    with open(os.path.join(BUILD, ".lock"), "w") as lf:
        fcntl.flock(lf, fcntl.LOCK_EX)
        try:
            yield
        finally:
            fcntl.flock(lf, fcntl.LOCK_UN)


def _sync_tree(src, dst, ignore=None):
    """Make dst an exact copy of src (files rewritten only when their content differs: keeps go's cache warm)."""
    os.makedirs(dst, exist_ok=True)
    names = set(os.listdir(src))
    if ignore:
        names -= set(ignore(src, list(names)))
    for n in os.listdir(dst):
        if n not in names and n not in (".stage", "go.mod", "go.sum", "bin", "gen"):
            q = os.path.join(dst, n)
            shutil.rmtree(q) if os.path.isdir(q) else os.remove(q)
    for n in names:
        a, b = os.path.join(src, n), os.path.join(dst, n)
        if os.path.isdir(a):
            _sync_tree(a, b, ignore)
        else:
            data = open(a, "rb").read()
            if not os.path.exists(b) or open(b, "rb").read() != data:
                with open(b, "wb") as f:
                    f.write(data)


def _write_if_changed(path, text):
    if not os.path.exists(path) or open(path).read() != text:
        os.makedirs(os.path.dirname(path), exist_ok=True)
        with open(path, "w") as f:
            f.write(text)


def prepare_harness():
    """(Re)creates the work copy: harness sources, go.mod pointing at REPO, go.sum from the repository's own
    go.sum files, and /repo/internal/{maplike,seq,pipe} staged under the module path they declare
    (github.com/fogfish/golem; internal/pipe becomes `purepipe`, its package name stays `pipe`).
    Callers hold build_lock()."""
    w = workdir()
    _sync_tree(HARNESS, w, ignore=shutil.ignore_patterns("go.mod", "go.sum", "gen"))
    _write_if_changed(os.path.join(w, "go.mod"), GOMOD % {"repo": REPO})
    sums = set()
    for p in glob.glob(os.path.join(REPO, "*", "go.sum")) + glob.glob(os.path.join(HARNESS, "go.sum.extra")):
        with open(p) as f:
            sums.update(l for l in f.read().splitlines() if l.strip())
    _write_if_changed(os.path.join(w, "go.sum"), "\n".join(sorted(sums)) + "\n")
    root = os.path.join(w, ".stage", "golem")
    _write_if_changed(os.path.join(root, "go.mod"), "module github.com/fogfish/golem\n\ngo 1.22\n")
    for src, dst in (("maplike", "maplike"), ("seq", "seq"), ("pipe", "purepipe")):
        sdir = os.path.join(REPO, "internal", src)
        if os.path.isdir(sdir):
            _sync_tree(sdir, os.path.join(root, dst), ignore=shutil.ignore_patterns("*_test.go"))
    return w


def gen_dir(pkg):
    """Directory (inside the work copy) for Go sources generated by a check: package ./gen/<pkg>."""
    d = os.path.join(workdir(), "gen", pkg)
    os.makedirs(d, exist_ok=True)
    return d


def go_build_test(pkg, out_name=None, tags="verif", race=False, timeout=900, extra_env=None):
    """Rebuilds the work copy from /repo's current tree and compiles the test binary of ./<pkg>.
    Returns the path of the binary (under .build/h_*/bin)."""
    with build_lock():
        prune_gocache()
        w = prepare_harness()
        os.makedirs(os.path.join(w, "bin"), exist_ok=True)
        out = os.path.join(w, "bin", (out_name or pkg.replace("/", "_") + ".test") + ("-race" if race else ""))
        cmd = [GO, "test", "-c", "-vet=off", "-tags", tags, "-o", out]
        if race:
            cmd.append("-race")
        cmd.append("./" + pkg)
        e = dict(GOENV)
        if extra_env:
            e.update(extra_env)
        p = subprocess.run(cmd, cwd=w, env=e, stdout=subprocess.PIPE, stderr=subprocess.STDOUT, text=True,
                           timeout=timeout)
        if p.returncode != 0:
            raise Infra("go build of harness package %s failed:\n%s" % (pkg, p.stdout[-4000:]))
        return out


def run_bin(binpath, args=(), env=None, timeout=600, cwd=None):
    e = dict(GOENV)
    if env:
        e.update({k: str(v) for k, v in env.items()})
    try:
        p = subprocess.run([binpath] + list(args), cwd=cwd or workdir(), env=e, stdout=subprocess.PIPE,
                           stderr=subprocess.PIPE, text=True, errors="replace", timeout=timeout)
    except subprocess.TimeoutExpired:
        raise Infra("harness binary timeout: %s" % binpath)
    return p


# --------------------------------------------------------------------------------------------- findings
def load_findings():
    path = os.path.join(VERIF, "known_findings.jsonl")
    known, fixed = [], []
    if os.path.exists(path):
        for line in open(path):
            line = line.strip()
            if not line or line.startswith("#"):
                continue
            if line.startswith("fixed:"):
                fixed.append(line)
                continue
            rec = json.loads(line)
            if rec.get("status") == "fixed":
                fixed.append(rec)
            else:
                known.append(rec)
    return known, fixed


def match_finding(pid, sig, known):
    """sig: dict describing a violation structurally.  A known entry matches when every key of its
    `sig` equals the violation's value for that key."""
    for k in known:
        if k.get("property") != pid:
            continue
        ks = k.get("sig", {})
        if all(sig.get(a) == b for a, b in ks.items()):
            return k
    return None


# --------------------------------------------------------------------------------------------- evidence / verdict
class Run:
    """Collects what one check run covered and produces the evidence file and the exit code."""

    def __init__(self, pid, tier, seed):
        self.pid, self.tier, self.seed = pid, tier, seed
        self.t0 = time.time()
        self.states = 0
        self.transitions = 0
        self.traces = 0
        self.samples = []
        self.violations = []     # (sig, description, replay payload)
        self.known_hits = []
        self.drift = []
        self.notes = {}
        self.exhaustive = False
        self.assumptions = []
        self.mc_runs = []

    def add_mc(self, name, res, constants=None):
        self.states += res.distinct
        self.transitions += res.generated
        self.mc_runs.append({"model": name, "distinct": res.distinct, "generated": res.generated,
                             "depth": res.depth, "wall_s": round(res.wall, 2), "constants": constants or {}})

    def sample(self, s, limit=6):
        if len(self.samples) < limit:
            self.samples.append(s)

    def violation(self, sig, what, payload):
        known, _ = load_findings()
        k = match_finding(self.pid, sig, known)
        if k is not None:
            if not any(h is k for h in self.known_hits):
                self.known_hits.append(k)
            return False
        self.violations.append((sig, what, payload))
        return True

    def finish(self):
        known, _ = load_findings()
        for k in self.known_hits:
            log("KNOWN-FINDING: property=%s %s" % (self.pid, k.get("what", json.dumps(k.get("sig")))))
        rc = 0
        rdir = os.path.join(VERIF, "replays", self.pid)
        for i, (sig, what, payload) in enumerate(self.violations[:20]):
            os.makedirs(rdir, exist_ok=True)
            h = hashlib.sha1(json.dumps(payload, sort_keys=True, default=str).encode()).hexdigest()[:10]
            path = os.path.join(rdir, "viol_%s.json" % h)
            with open(path, "w") as f:
                json.dump({"property": self.pid, "sig": sig, "what": what, "payload": payload}, f, indent=1, default=str)
            log("VIOLATION property=%s replay=%s" % (self.pid, path))
            log("  " + what)
            rc = 1
        for dmsg in self.drift[:10]:
            log("SPEC-DRIFT property=%s %s" % (self.pid, dmsg))
        cov = {"states": max(self.states, 0), "transitions": max(self.transitions, 0),
               "traces_validated_against_impl": self.traces,
               "samples": self.samples or ["(no sample recorded)"],
               "exhaustive": self.exhaustive, "mc_runs": self.mc_runs,
               "spec_drift": len(self.drift), "known_finding_hits": len(self.known_hits)}
        cov.update(self.notes)
        ev = {"property_id": self.pid, "tier": self.tier, "seed": self.seed, "level": "model_checking",
              "coverage": cov, "assumptions": self.assumptions, "wall_s": round(time.time() - self.t0, 2),
              "violations": len(self.violations)}
        # (seeded-change evaluations point VERIF_EVIDENCE_DIR at a scratch directory: the committed evidence is always
        #  from a run against /repo itself)
        evdir = os.environ.get("VERIF_EVIDENCE_DIR") or os.path.join(VERIF, "evidence")
        os.makedirs(evdir, exist_ok=True)
        with open(os.path.join(evdir, self.pid + ".json"), "w") as f:
            json.dump(ev, f, indent=1, default=str)
        log("RESULT property=%s tier=%s seed=%s states=%d transitions=%d impl_traces=%d violations=%d known=%d drift=%d wall=%.1fs"
            % (self.pid, self.tier, self.seed, self.states, self.transitions, self.traces, len(self.violations),
               len(self.known_hits), len(self.drift), time.time() - self.t0))
        return rc
