#!/usr/bin/env python3
"""Confirms a seeded change written by an independent sub-agent and runs the checks against it.

  seeded_tool.py eval <dir with patch.diff, demo_test.go, meta.json> <seeded id> <dir the demo goes in, e.g. pipe> <property> [more properties...]

Works on a scratch copy of /repo (outside /repo and /verif, removed afterwards): (1) the clean tree passes the module's
tests and the demonstration; (2) with the patch: it builds, the module's existing tests pass, the demonstration fails;
(3) every named check is run with VERIF_REPO pointing at the patched copy.  The result is stored as
/verif/seeded/<id>/{patch.diff, demo_test.go, meta.json} (meta.json gains `confirmed` and `checks`)."""
import json, os, shutil, subprocess, sys, tempfile, time

VERIF = os.path.dirname(os.path.dirname(os.path.abspath(__file__)))


GOBIN = os.environ.get("SEEDED_GO", "go")      # demonstrations that use testing/synctest need SEEDED_GO=go1.26


def sh(cmd, cwd=None, env=None, timeout=1800):
    if GOBIN != "go":
        cmd = cmd.replace("go test ", "GOTOOLCHAIN=local GOFLAGS=-mod=mod %s test " % GOBIN).replace("go build ", "GOTOOLCHAIN=local %s build " % GOBIN)
    p = subprocess.run(cmd, shell=True, cwd=cwd, env=env, stdout=subprocess.PIPE, stderr=subprocess.STDOUT, text=True, timeout=timeout)
    return p.returncode, p.stdout


def module_of(path):
    return path.split("/")[0]


def main():
    src, sid, demo_dir, props = sys.argv[2], sys.argv[3], sys.argv[4].strip("/"), sys.argv[5:]
    meta = json.load(open(os.path.join(src, "meta.json")))
    patch = os.path.abspath(os.path.join(src, "patch.diff"))
    demo = os.path.join(src, "demo_test.go")
    work = tempfile.mkdtemp(prefix="seeded_")
    repo = os.path.join(work, "repo")
    try:
        sh("git -C /repo worktree add -q --detach %s HEAD" % repo)
        internal = demo_dir.startswith("internal/")
        if internal:
            return eval_internal(work, repo, patch, demo, demo_dir, meta, sid, props)
        mod = module_of(demo_dir)
        skip = "-skip 'TestThrottling|TestFMap/Cancel'" if mod == "pipe" else ""     # wall-clock / scheduling-dependent tests of the repository, flaky on the clean tree     # wall-clock test of the repository, flaky under load
        testcmd = "go test -mod=mod -count=1 %s ./..." % skip
        res = {}
        # clean tree
        shutil.copy(demo, os.path.join(repo, demo_dir, "zz_seeded_demo_test.go"))
        import re
        names = re.findall(r"^func (Test\w+)\(", open(demo).read(), re.M)
        runpat = "'^(" + "|".join(names) + ")$'"
        rc_all, out_all = sh("go test -mod=mod -count=1 -run %s . 2>&1 | tail -15" % runpat, cwd=os.path.join(repo, demo_dir))
        res["clean_demo_pass"] = "ok " in out_all and "FAIL" not in out_all
        res["demo_tests"] = names
        os.remove(os.path.join(repo, demo_dir, "zz_seeded_demo_test.go"))
        # patched tree
        rc, out = sh("git apply %s" % patch, cwd=repo)
        res["applies"] = rc == 0
        rc, out = sh("go build ./... 2>&1 | tail -5", cwd=os.path.join(repo, mod))
        res["builds"] = "rror" not in out and rc == 0
        rc, out = sh(testcmd + " 2>&1 | tail -15", cwd=os.path.join(repo, mod))
        res["existing_tests_pass"] = "FAIL" not in out and "panic" not in out
        res["existing_tests_tail"] = out[-600:]
        shutil.copy(demo, os.path.join(repo, demo_dir, "zz_seeded_demo_test.go"))
        race = "-race" if meta.get("race") is True else ""
        for attempt in range(5):       # a demonstration that depends on a coin toss of `select` may pass now and then
            rc, out = sh("go test -mod=mod -count=1 %s -run %s . 2>&1 | tail -25" % (race, runpat), cwd=os.path.join(repo, demo_dir), timeout=1800)
            res["patched_demo_fails"] = "FAIL" in out or "panic" in out
            res["patched_demo_runs"] = attempt + 1
            if res["patched_demo_fails"]:
                break
        res["patched_demo_tail"] = out[-800:]
        os.remove(os.path.join(repo, demo_dir, "zz_seeded_demo_test.go"))
        res["confirmed"] = bool(res["clean_demo_pass"] and res["applies"] and res["builds"] and res["existing_tests_pass"] and res["patched_demo_fails"])
        print("confirm:", {k: v for k, v in res.items() if not k.endswith("_tail")})
        checks = {}
        for pid in props:
            env = dict(os.environ, VERIF_REPO=repo, VERIF_EVIDENCE_DIR=os.path.join(work, "evidence"))
            t0 = time.time()
            rc, out = sh("./check %s --tier quick" % pid, cwd=VERIF, env=env, timeout=3600)
            lines = [l for l in out.splitlines() if l.startswith(("VIOLATION", "RESULT", "INFRA", "SPEC-DRIFT", "KNOWN"))]
            first = next((out.splitlines()[i + 1].strip() for i, l in enumerate(out.splitlines()) if l.startswith("VIOLATION") and i + 1 < len(out.splitlines())), "")
            checks[pid] = {"exit": rc, "caught": rc == 1, "wall_s": round(time.time() - t0, 1), "result": next((l for l in lines if l.startswith("RESULT")), "") or next((l for l in out.splitlines() if "INFRA" in l or "rror" in l), "")[:300],
                           "first_violation": first[:400], "drift_lines": sum(1 for l in lines if l.startswith("SPEC-DRIFT"))}
            print("check", pid, "exit", rc, checks[pid]["result"], "|", first[:200])
        dst = os.path.join(VERIF, "seeded", sid)
        os.makedirs(dst, exist_ok=True)
        shutil.copy(patch, os.path.join(dst, "patch.diff"))
        shutil.copy(demo, os.path.join(dst, "demo_test.go"))
        meta.update({"id": sid, "demo_dir": demo_dir, "confirmation": res, "checks": checks,
                     "ran": "lib/seeded_tool.py eval (scratch worktree of /repo; clean: tests+demo pass; patched: build, existing tests, demo fails; ./check <id> --tier quick with VERIF_REPO=<patched copy>)"})
        json.dump(meta, open(os.path.join(dst, "meta.json"), "w"), indent=1)
    finally:
        sh("git -C /repo worktree remove --force %s" % repo)
        shutil.rmtree(work, ignore_errors=True)
        shutil.rmtree(os.path.join(VERIF, ".build", "h_r" + __import__("hashlib").sha1(repo.encode()).hexdigest()[:8]), ignore_errors=True)


def eval_internal(work, repo, patch, demo, demo_dir, meta, sid, props):
    """/repo/internal is in no module: tests run in a scratch module `github.com/fogfish/golem` holding a copy of internal/*."""
    import re
    names = re.findall(r"^func (Test\w+)\(", open(demo).read(), re.M)
    runpat = "'^(" + "|".join(names) + ")$'"
    sub = demo_dir[len("internal/"):]
    res = {"demo_tests": names}

    def stage(tag):
        m = os.path.join(work, "mod_" + tag)
        os.makedirs(m)
        if sub == "pipe":
            # internal/pipe declares `package pure` and its test imports github.com/fogfish/golem/pure: a module of its own
            shutil.copytree(os.path.join(repo, "internal", "pipe"), os.path.join(m, "pipe"))
            open(os.path.join(m, "pipe", "go.mod"), "w").write("module github.com/fogfish/golem/pure\n\ngo 1.22\n\nrequire github.com/fogfish/it v1.0.0\n")
            shutil.copy(os.path.join(repo, "pure", "go.sum"), os.path.join(m, "pipe", "go.sum"))
            return m
        open(os.path.join(m, "go.mod"), "w").write("module github.com/fogfish/golem\n\ngo 1.22\n\nrequire github.com/fogfish/golem/pure v0.10.1\n\nreplace github.com/fogfish/golem/pure => %s/pure\n" % repo)
        shutil.copy(os.path.join(repo, "pure", "go.sum"), os.path.join(m, "go.sum"))
        for d in os.listdir(os.path.join(repo, "internal")):
            shutil.copytree(os.path.join(repo, "internal", d), os.path.join(m, d))
        return m
    env = dict(os.environ, GOFLAGS="-mod=mod", GOPROXY="off", GOSUMDB="off")
    m = stage("clean")
    shutil.copy(demo, os.path.join(m, sub, "zz_seeded_demo_test.go"))
    rc, out = sh("go test -count=1 -run %s . 2>&1 | tail -15" % runpat, cwd=os.path.join(m, sub), env=env)
    res["clean_demo_pass"] = "ok " in out and "FAIL" not in out
    res["clean_tail"] = out[-400:]
    rc, out = sh("git apply %s" % patch, cwd=repo)
    res["applies"] = rc == 0
    m = stage("patched")
    tcwd = os.path.join(m, "pipe") if sub == "pipe" else m
    tpat = "./..." if sub == "pipe" else "./%s/..." % sub.split("/")[0]
    rc, out = sh("go build %s 2>&1 | tail -5" % tpat, cwd=tcwd, env=env)
    res["builds"] = rc == 0 and "rror" not in out
    rc, out = sh("go test -count=1 %s 2>&1 | tail -15" % tpat, cwd=tcwd, env=env)
    res["existing_tests_pass"] = "FAIL" not in out
    shutil.copy(demo, os.path.join(m, sub, "zz_seeded_demo_test.go"))
    rc, out = sh("go test -count=1 -run %s . 2>&1 | tail -25" % runpat, cwd=os.path.join(m, sub), env=env)
    res["patched_demo_fails"] = "FAIL" in out or "panic" in out
    res["patched_demo_tail"] = out[-800:]
    res["confirmed"] = bool(res["clean_demo_pass"] and res["applies"] and res["builds"] and res["existing_tests_pass"] and res["patched_demo_fails"])
    print("confirm:", {k: v for k, v in res.items() if not k.endswith("_tail")})
    checks = {}
    for pid in props:
        env2 = dict(os.environ, VERIF_REPO=repo, VERIF_EVIDENCE_DIR=os.path.join(work, "evidence"))
        t0 = time.time()
        rc, out = sh("./check %s --tier quick" % pid, cwd=VERIF, env=env2, timeout=3600)
        lines = out.splitlines()
        first = next((lines[i + 1].strip() for i, l in enumerate(lines) if l.startswith("VIOLATION") and i + 1 < len(lines)), "")
        checks[pid] = {"exit": rc, "caught": rc == 1, "wall_s": round(time.time() - t0, 1), "result": next((l for l in lines if l.startswith("RESULT")), ""),
                       "first_violation": first[:400], "drift_lines": sum(1 for l in lines if l.startswith("SPEC-DRIFT"))}
        print("check", pid, "exit", rc, checks[pid]["result"], "|", first[:200])
    dst = os.path.join(VERIF, "seeded", sid)
    os.makedirs(dst, exist_ok=True)
    shutil.copy(patch, os.path.join(dst, "patch.diff"))
    shutil.copy(demo, os.path.join(dst, "demo_test.go"))
    meta.update({"id": sid, "demo_dir": demo_dir, "confirmation": res, "checks": checks,
                 "ran": "lib/seeded_tool.py eval (scratch worktree of /repo + scratch module for internal/; clean: demo passes; patched: build, existing tests, demo fails; ./check <id> --tier quick with VERIF_REPO=<patched copy>)"})
    json.dump(meta, open(os.path.join(dst, "meta.json"), "w"), indent=1)


if __name__ == "__main__":
    main()
