"""C17 - eq.Int/String, ord.Int/String, ContraMap, From wrappers, semigroup.From, monoid.From/FromOp.

  1. AlgebraMC    (TLC, one state per experiment = instance x (given empty) x pair of the domain): the laws of Eq
                  (equivalence) and Ord (total, antisymmetric, transitive, agrees with Eq) hold on the model for the
                  pair with every third element; the wrapped functions are non-symmetric (a swap is visible);
                  prints the promised result of every experiment                                      (spec -> impl)
  2. algebradrv   (Go): every experiment on the REAL instance; results compared with TLC's table (P: Result)
  3. AlgebraTrace (TLC): every record - result, Empty(), inner call log - judged: P = Result / Empty / Delegated;
                  the exact inner call sequence is the I layer (SPEC-DRIFT)                           (impl -> spec)
  4. the same on a seeded random int table / random byte strings / random operands.
Close to "one pure function per instance": TLC contributes the exhaustive enumeration of the domain, the laws on the
model and the line-by-line judgement of the call logs."""
import json, os
import common
from common import run_tlc, Scratch, Infra

MC_CFG = """CONSTANTS
  StrN = %(strn)d
  NumTop = %(numtop)d
  EmptyN = %(emptyn)d
SPECIFICATION Spec
INVARIANT EqIsEquivalence
INVARIANT OrdIsTotalOrder
INVARIANT ConcatIsMonoid
INVARIANT SwapVisible
INVARIANT TableDistinct
INVARIANT InnerDiffers
INVARIANT ProjectionsDoNotCommute
INVARIANT RotIsPermutation
INVARIANT Emit
CHECK_DEADLOCK FALSE
"""
TRACE_CFG = """INIT Init
NEXT Next
INVARIANT Judge
CHECK_DEADLOCK FALSE
"""
INT_NAMES = ["MinInt64", "MinInt64+1", "-1", "0", "1", "MaxInt32+1", "MaxInt64-1", "MaxInt64"]
WHAT = {"Result": "result differs from the promised one",
        "Empty": "Empty() is not the element given to the constructor",
        "Delegated": "the result is not what the wrapped function returned on the arguments in order"}
CHUNK = 6000


def check(run, replay=None):
    thorough = run.tier == "thorough"
    binp = common.go_build_test("algebradrv")
    with Scratch() as d:
        c = dict(strn=30, numtop=6, emptyn=6) if thorough else dict(strn=17, numtop=3, emptyn=3)
        if replay:
            c = dict(strn=1, numtop=0, emptyn=1)     # only the domain record is needed
        r = run_tlc("AlgebraMC", MC_CFG % c, timeout=1500)
        if r.violated:
            raise Infra("model error: AlgebraMC violates %s with %s" % (r.violated, c))
        cases, doms = r.json_prints("case"), r.json_prints("dom")
        if not cases or not doms:
            raise Infra("AlgebraMC printed no cases / no domain")
        domf = os.path.join(d, "dom.json")
        with open(domf, "w") as f:
            json.dump(doms[0], f)
        if replay:
            return do_replay(run, binp, replay, d, domf)
        run.add_mc("AlgebraMC", r, c)
        run.notes["level_note"] = ("close to one pure function per instance: TLC contributes the exhaustive enumeration of the domain, "
                                   "the laws checked on the model and the line-by-line judgement of inner call logs")
        run.assumptions.append("64-bit integers are represented by their rank in an ascending table of boundary values "
                               "(Eq / Ord observe nothing but equality and order); random tables are used in the random tier")
        run.exhaustive = True
        run.notes["experiments_enumerated"] = len(cases)
        run.notes["instances"] = sorted({cs["inst"] for cs in cases})
        # ---- every experiment on the real instances
        recs = execute(binp, d, domf, "gen", cases=cases)
        judge(run, recs, d, "gen")
        run.sample({"experiment": cases[len(cases) // 3], "recorded": brief(recs[len(recs) // 3])})
        # ---- random values
        recs = execute(binp, d, domf, "rnd", seed=run.seed, n=400 if thorough else 60)
        judge(run, recs, d, "rnd", int_names=None)
        run.sample({"random": brief(recs[-1])})


def brief(t):
    return {k: t[k] for k in ("inst", "a", "b", "res", "calls")}


def execute(binp, d, domf, tag, cases=None, seed=None, n=None):
    outp = os.path.join(d, "recs_%s.jsonl" % tag)
    env = dict(VERIF_DOM=domf, VERIF_OUT=outp)
    if cases is not None:
        inp = os.path.join(d, "cases_%s.jsonl" % tag)
        with open(inp, "w") as f:
            for cs in cases:
                f.write(json.dumps(cs) + "\n")
        p = common.run_bin(binp, ["-test.run", "TestReplay"], env=dict(env, VERIF_MODE="replay", VERIF_IN=inp))
    else:
        p = common.run_bin(binp, ["-test.run", "TestRandom"], env=dict(env, VERIF_MODE="random", VERIF_SEED=seed, VERIF_N=n))
    if p.returncode != 0:
        raise Infra("algebradrv failed:\n" + (p.stdout + p.stderr)[-3000:])
    recs = [json.loads(l) for l in open(outp) if l.strip()]
    stats = [x for x in recs if x.get("t") == "stats"]
    recs = [x for x in recs if x.get("t") != "stats"]
    if not stats or stats[0]["records"] != len(recs) or not recs:
        raise Infra("algebradrv wrote an incomplete result file")
    return recs


def show(v, inst, int_names):
    """human form of a model value: table index -> boundary name, byte codes -> Go string literal"""
    if isinstance(v, list):
        return '"' + "".join(chr(c) if 32 <= c < 127 and c not in (34, 92) else "\\x%02x" % c for c in v) + '"'
    return str(v)


def describe(t, int_names=INT_NAMES):
    # instances over the boundary-integer table: their arguments are table indices
    ints = int_names and isinstance(t["a"], int) and not t["inst"].endswith("/sub")
    sh = (lambda v: int_names[v - 1]) if ints else (lambda v: show(v, t["inst"], int_names))
    s = "%s on (%s, %s)" % (t["inst"], sh(t["a"]), sh(t["b"]))
    if t["inst"].startswith("monoid."):
        s += " with empty %s" % show(t["e"], t["inst"], int_names)
        if t.get("inner") not in (None, 0) or "/monoid." in t["inst"]:
            s += " (the argument belongs to an inner monoid with empty %s)" % show(t.get("inner"), t["inst"], int_names)
    return s


def judge(run, recs, d, tag, int_names=INT_NAMES):
    ok, flagged = [], set()
    for i, t in enumerate(recs):
        if t.get("panic"):
            run.violation({"kind": "panic", "inst": t["inst"]}, "%s panicked: %s" % (describe(t, int_names), t["panic"]),
                          {"mode": "record", "record": t})
            continue
        if t.get("want") is not None and t["res"] != t["want"]:
            flagged.add(len(ok))
            run.violation({"kind": "Result", "inst": t["inst"]},
                          "%s returned %s, TLC's table says %s" % (describe(t, int_names), show(t["res"], "", None), show(t["want"], "", None)),
                          {"mode": "record", "record": t})
        ok.append(t)
    drift_seen = set()
    for lo in range(0, len(ok), CHUNK):
        part = ok[lo:lo + CHUNK]
        tf = os.path.join(d, "batch_%s_%d.json" % (tag, lo))
        with open(tf, "w") as f:
            json.dump({"traces": part}, f)
        r = run_tlc("AlgebraTrace", TRACE_CFG, env={"TRACE_FILE": tf}, timeout=1500)
        if r.violated:
            raise Infra("AlgebraTrace stopped: " + r.out[-2000:])
        done = 0
        for v in r.json_prints("JUDGED"):
            done += 1
            t = part[v["ti"] - 1]
            preds = sorted(v["preds"])
            if "HARNESS" in preds:
                raise Infra("harness built a nested monoid whose inner empty equals the given one: %s" % json.dumps(t))
            if preds and not (preds == ["Result"] and (lo + v["ti"] - 1) in flagged):     # (else: already reported from the table)
                extra = "Empty() returned %s; " % show(t.get("empty"), "", None) if "Empty" in preds else ""
                run.violation({"kind": preds[0], "inst": t["inst"]},
                              "%s: %s (%sreturned %s, promised %s, inner calls %s)"
                              % (describe(t, int_names), "; ".join(WHAT[p] for p in preds), extra, show(t["res"], "", None),
                                 show(v["want"], "", None), json.dumps(t["calls"])),
                              {"mode": "record", "record": t, "preds": preds})
            if v["drift"] and t["inst"] not in drift_seen:
                drift_seen.add(t["inst"])
                run.drift.append("%s: inner call log differs from the code-shaped model at line %d: %s"
                                 % (describe(t, int_names), v["drift"], json.dumps(t["calls"])))
        if done != len(part):
            raise Infra("AlgebraTrace judged %d of %d records" % (done, len(part)))
        run.add_mc("AlgebraTrace", r, {"records": len(part), "inner_calls": sum(len(t["calls"]) for t in part)})
    run.traces += len(recs)


def do_replay(run, binp, path, d, domf):
    """Re-executes the stored experiment (instance, empty, a, b) on the current tree; TLC judges the new record."""
    t = json.load(open(path))["payload"]["record"]
    # (records of the random tier carry table indices too: Eq / Ord see only the order of the table, so the
    #  re-execution on the boundary table is the same experiment)
    case = {"inst": t["inst"], "e": t["e"], "inner": t.get("inner", 0), "a": t["a"], "b": t["b"]}
    recs = execute(binp, d, domf, "replay", cases=[case])
    judge(run, recs, d, "replay")
