"""C14 - trait/seq iterator combinators have list semantics at any nesting.
C15 - trait/pair key-value combinators keep list semantics and key/value pairing (ToSeq / FromSeq mix the kinds).

spec/seq/Iter.tla (+ PairIter.tla)   I layer: cursor states as coded;  P layer: list semantics
  1. MC     IterMC / PairIterMC      every expression tree of the bound: drain(I) = Sem(P), ForEach, sources untouched
  2. GEN    IterGen / PairIterGen    TLC prints every tree with the expected list / ForEach runs / step trace;
                                     harness/iterdrv replays them on the real iterators (P -> violation, I -> drift)
  3. TRACE  IterTrace / PairIterTrace seeded random deep trees run on the real iterators, judged by TLC

The combinators are generic and the model's items are integers: the replay (2.) executes every case once per
element-type variant - int, and `any` / `*box` with one integer of the model coded as the nil interface / nil pointer
(harness/iterdrv/expr_test.go, "element types") - and compares the same expectations after decoding.  Source slices are
laid out with len = cap or as a window of a longer array that is the source slice of a second iterator (the whole array
is compared), alternating from run to run.
"""
import json, os, re, shutil
import common
from common import run_tlc, Scratch, Infra, log

EXT = {"C14": "  ExtP <- NoExt\n  ExtM <- NoExt\n  ExtJ <- NoExt\n",
       "C15": "  ExtP <- PairP\n  ExtM <- PairM\n  ExtJ <- PairJ\n"}
UNIV = {"C14": "  BaseSet <- SeqBaseT\n  WrapsOf <- SeqWrapsT\n",
        "C15": "  BaseSet <- PairBaseT\n  WrapsOf <- PairWrapsT\n"}
MOD = {"C14": "Iter", "C15": "PairIter"}

MC_CFG = """CONSTANTS
%(ext)s%(univ)s  Shape = "%(shape)s"
  Width = "%(width)s"
INIT Init
NEXT Next1
INVARIANT ListSemantics
INVARIANT PrefixAlways
INVARIANT NilIffEmpty
INVARIANT SourcesUntouched
INVARIANT ForEachStops
%(extra)sCHECK_DEADLOCK FALSE
"""
GEN_CFG = """CONSTANTS
%(ext)s%(univ)s  Shape = "%(shape)s"
  Width = "%(width)s"
  PerBase = %(perbase)d
INIT Init
NEXT Wrap
INVARIANT Emit
CHECK_DEADLOCK FALSE
"""
TRACE_CFG = """CONSTANTS
%(ext)sINIT Init
NEXT Next1
INVARIANT Judge
CHECK_DEADLOCK FALSE
"""

# The recursive operators of the cursor model (eager loops) need a deep evaluation stack; the -Xss that common.run_tlc
# passes through JAVA_TOOL_OPTIONS does not reach TLC's evaluating threads, the launcher's own variable does (measured).
TLC_ENV = {"JDK_JAVA_OPTIONS": "-Xss512m"}

MAX_REPORTED = 4        # violations written per failing predicate and element-type variant

# the element-type variants other than int run on every case of depth <= 1 (a source alone, one combinator over sources:
# From, FromSlice, Plus, Join ... of inputs with a nil element) and on every n-th deeper case
ELEM_EVERY = {"quick": 1, "thorough": 1}


def plan(pid, tier):
    """Bounds per tier: (MC configurations, GEN configurations, random batches).
    shapes: d2 = every tree of depth <= 2; d3 = every depth-2 tree wrapped once more; c3 / c4 = every chain
    op_n(..op_1(leaf)) of depth 3 / 4 over the reduced alphabet (a Plus on the spine has a leaf on its other side);
    jx = Join with an expression-valued function: inner combinator trees over non-monotone data, nil inners anywhere."""
    S, W = "small", "wide"
    if tier == "quick":
        return ([dict(shape="d2", width=S), dict(shape="c3", width=S), dict(shape="jx", width=S)],
                [dict(shape="d2", width=S, perbase=0), dict(shape="c3", width=S, perbase=0), dict(shape="jx", width=S, perbase=0)],
                dict(batches=2, n=150, depth=6))
    c4 = 5 if pid == "C14" else 2
    d3 = 4 if pid == "C14" else 2
    return ([dict(shape="d2", width=W), dict(shape="c3", width=S), dict(shape="jx", width=S), dict(shape="d3", width=S), dict(shape="c4", width=S)],
            [dict(shape="d2", width=W, perbase=0), dict(shape="c3", width=S, perbase=0), dict(shape="jx", width=S, perbase=0),
             dict(shape="d3", width=S, perbase=d3), dict(shape="c4", width=S, perbase=c4)],
            dict(batches=4, n=600, depth=6))


def check(run, replay=None):
    pid = run.pid
    if pid not in MOD:
        raise Infra("fam_iter handles C14 and C15, not %s" % pid)
    with Scratch() as bd:
        # the test binary is copied out of the shared work copy (which other runs rebuild or remove) for the whole run
        binp = shutil.copy(common.go_build_test("iterdrv"), os.path.join(bd, "iterdrv.test"))
        if replay:
            return do_replay(run, binp, replay)
        return explore(run, binp)


def explore(run, binp):
    pid = run.pid
    mcs, gens, rnd = plan(pid, run.tier)
    cfgk = dict(ext=EXT[pid], univ=UNIV[pid], extra="INVARIANT KeysKept\n" if pid == "C15" else "")
    # ---- 1. MC: the cursor model produces the list semantics on every tree of the bound
    for c in mcs:
        r = run_tlc(MOD[pid] + "MC", MC_CFG % dict(cfgk, **c), timeout=2400, heap="8g", env=TLC_ENV)
        run.add_mc(MOD[pid] + "MC", r, c)
        if r.violated:
            raise Infra("model error: %sMC violates %s with %s (the cursor model no longer yields the list semantics)"
                        % (MOD[pid], r.violated, c))
    run.exhaustive = True
    with Scratch() as d:
        # ---- 2. GEN + replay on the real iterators
        for gi, c in enumerate(gens):
            r, cases, tables = run_gen(pid, GEN_CFG % dict(cfgk, **c), run.seed)
            run.add_mc(MOD[pid] + "Gen", r, c)
            replay_cases(run, binp, d, "g%d" % gi, tables, cases, c)
            run.notes["trees_replayed"] = run.notes.get("trees_replayed", 0) + len(cases)
            for cs in (cases[len(cases) // 3], cases[-1]):
                run.sample({"gen": c, "expr": cs["expr"], "expected_list": cs["list"], "expected_steps": [[s["v"], s["ok"]] for s in cs["steps"]]}, limit=4)
        # ---- 3. random deep trees on the real iterators, judged by TLC
        for b in range(rnd["batches"]):
            outp = os.path.join(d, "traces%d.jsonl" % b)
            env = dict(VERIF_MODE="random", VERIF_SEED=run.seed * 1000 + b, VERIF_OUT=outp, VERIF_N=rnd["n"],
                       VERIF_DEPTH=rnd["depth"], VERIF_KIND="pair" if pid == "C15" else "seq")
            run_harness(run, binp, "TestRandom", env, {"mode": "random", "env": env})
            traces = [json.loads(l) for l in open(outp) if l.strip()]
            judge_traces(run, traces, d, "b%d" % b)


def run_gen(pid, cfg, seed):
    """One generator run.  Every state prints exactly one line (a case or a marker): when the count does not add up -
    lines of concurrent workers can tear - the run is repeated with a single worker before giving up."""
    why = ""
    for workers in (None, 1):
        r = run_tlc(MOD[pid] + "Gen", cfg, timeout=2400, heap="8g", args=["-seed", str(seed)], workers=workers, env=TLC_ENV)
        if r.violated:
            raise Infra("%sGen stopped: %s" % (MOD[pid], r.out[-1500:]))
        cases, tables, mids = r.json_prints("case"), r.json_prints("tables"), len(r.json_prints("mid"))
        if cases and tables and len(cases) + mids == r.distinct:
            return r, cases, tables
        why = "%d cases + %d intermediate lines + %d tables parsed, %d distinct states" % (len(cases), mids, len(tables), r.distinct)
    raise Infra("%sGen: %s" % (MOD[pid], why))


# ------------------------------------------------------------------------------------------------ harness runs
def run_harness(run, binp, test, env, payload):
    p = common.run_bin(binp, ["-test.run", "^" + test + "$", "-test.timeout", "30m"], env=env, timeout=2400, cwd=os.path.dirname(binp))
    if p.returncode != 0:
        txt = p.stdout + p.stderr
        crashed = ("panic:" in txt or "fatal error:" in txt) and "golem/trait" in txt and "harnessBug" not in txt
        if crashed:
            run.violation({"kind": "Crash"}, "the iterator library crashed the process (%s)" % test,
                          dict(payload, output=txt[-3000:]))
            return False
        raise Infra("iterdrv %s failed:\n%s" % (test, txt[-3000:]))
    return True


def replay_cases(run, binp, d, tag, tables, cases, gen, elems="all", every=None, dedupe=True):
    inp, outp = os.path.join(d, "cases_%s.jsonl" % tag), os.path.join(d, "res_%s.jsonl" % tag)
    with open(inp, "w") as f:
        for t in tables:
            f.write(json.dumps(t) + "\n")
        for cs in cases:
            f.write(json.dumps(cs) + "\n")
    env = dict(VERIF_MODE="replay", VERIF_IN=inp, VERIF_OUT=outp, VERIF_SEED=run.seed, VERIF_ELEMS=elems,
               VERIF_ELEM_EVERY=every or ELEM_EVERY[run.tier])
    if not run_harness(run, binp, "TestReplay", env, {"mode": "replay-crash", "gen": gen}):
        return
    stats, per_pred, per_elem, int_hits, ndrift = None, {}, {}, set(), 0
    for l in open(outp):
        rec = json.loads(l)
        t = rec["t"]
        if t == "stats":
            stats = rec
        elif t == "harness" and rec["pred"] == "Codec":
            raise Infra("the codec between the model's integers and an element type is not a bijection: %s" % rec["got"])
        elif t == "harness":
            raise Infra("the harness tables differ from the tables of the specification: %s" % rec["got"])
        elif t == "aborted":
            run.notes["replay_aborted_after_hang"] = True
            stats = stats or {"cases": 0, "built": 0, "steps": 0, "foreach": 0, "tables": len(tables), "elems": []}
        elif t == "pviol":
            per_pred[rec["pred"]] = per_pred.get(rec["pred"], 0) + 1
            # int runs first: what a case shows over int already is not reported once more per element type
            if rec["elem"] == "int":
                int_hits.add((rec["case"], rec["pred"]))
            elif dedupe and (rec["case"], rec["pred"]) in int_hits:
                continue
            n = per_elem.get((rec["pred"], rec["elem"]), 0)
            per_elem[(rec["pred"], rec["elem"])] = n + 1
            if n < MAX_REPORTED:
                cs = cases[rec["case"]]
                what = "want %s got %s" % (json.dumps(rec["want"]), json.dumps(rec["got"]))
                if rec["pred"] == "SourceModified":
                    what = "a source slice (%s) held %s and holds %s afterwards" % (rec.get("src", "?"), json.dumps(rec["want"]), json.dumps(rec["got"]))
                if rec["pred"].startswith("ForEach") or (rec["pred"] == "SourceModified" and rec["k"]):
                    what += " (ForEach failing at call %d)" % rec["k"]
                run.violation({"kind": rec["pred"], "root": cs["expr"]["op"], "elem": rec["elem"]},
                              "%s: %s of %s over element type %s: %s" % (run.pid, rec["pred"], json.dumps(cs["expr"]), elem_text(rec["elem"]), what),
                              {"mode": "replay", "case": cs, "elem": rec["elem"], "finding": rec})
        elif t == "drift":
            ndrift += 1
            if ndrift <= 3:
                run.drift.append("replay %s %s: %s want %s got %s" % (tag, json.dumps(rec["expr"]), rec["pred"], json.dumps(rec["want"]), json.dumps(rec["got"])))
    if not stats:
        raise Infra("replay produced no stats line")
    if stats["tables"] != len(tables):
        raise Infra("the harness did not check the function tables")
    for k, n in per_pred.items():
        run.notes["replay_findings_" + k] = run.notes.get("replay_findings_" + k, 0) + n
    if ndrift:
        run.notes["replay_drift_cases"] = run.notes.get("replay_drift_cases", 0) + ndrift
    run.traces += stats["built"]
    run.notes["iterators_built_and_compared"] = run.notes.get("iterators_built_and_compared", 0) + stats["built"]
    run.notes["foreach_runs_compared"] = run.notes.get("foreach_runs_compared", 0) + stats["foreach"]
    run.notes["steps_compared"] = run.notes.get("steps_compared", 0) + stats["steps"]
    # per element-type variant: cases executed, cases in which the library was handed / delivered a nil element
    ev = run.notes.setdefault("element_type_variants", {})
    for e in stats["elems"]:
        if e["cases"]:
            a = ev.setdefault(e["elem"], {"cases": 0, "cases_with_a_nil_element": 0, "iterators_built_and_compared": 0})
            a["cases"] += e["cases"]
            a["cases_with_a_nil_element"] += e["nilcases"]
            a["iterators_built_and_compared"] += e["built"]


def judge_traces(run, traces, d, tag):
    """Recorded executions -> TLC.  Panics / hangs are reported directly (there is nothing to judge)."""
    pid = run.pid
    judged = []
    for t in traces:
        if t.get("t") == "aborted":          # the harness stopped after a hang: the rest of the batch was not executed
            run.notes["random_aborted_after_hang"] = True
        elif t.get("hang") or t.get("panic"):
            kind = "Hang" if t.get("hang") else "Panic"
            run.violation({"kind": kind, "root": t["expr"]["op"]},
                          "%s: %s while draining %s: %s" % (pid, kind.lower(), json.dumps(t["expr"]), t.get("panic") or "no answer"),
                          {"mode": "trace", "kind": t["kind"], "expr": t["expr"], "observed": t})
        else:
            judged.append(t)
    if not judged:
        return
    tf = os.path.join(d, "batch_%s.json" % tag)
    with open(tf, "w") as f:
        json.dump({"traces": judged}, f)
    # a single worker: the judgements are printed lines, and lines of concurrent workers can tear
    r = run_tlc(MOD[pid] + "Trace", TRACE_CFG % dict(ext=EXT[pid]), env=dict(TLC_ENV, TRACE_FILE=tf), timeout=2400, heap="8g", workers=1)
    if r.violated:
        raise Infra("%sTrace stopped: %s" % (MOD[pid], r.out[-2000:]))
    done, ndrift, per_pred = set(), 0, {}
    for v in r.json_prints():
        if v.get("t") == "DONE":
            done.add(v["ti"])
        elif v.get("t") == "PVIOL":
            t = judged[v["ti"] - 1]
            for pred in sorted(v["preds"]):
                n = per_pred.get(pred, 0)
                per_pred[pred] = n + 1
                if n < MAX_REPORTED:
                    got = [s["v"] for s in t["steps"]] if pred in ("DrainedList", "KeyValuePairing") else t["fe"]
                    run.violation({"kind": pred, "root": t["expr"]["op"]},
                                  "%s: %s of %s (depth %d): list semantics give %s, observed %s"
                                  % (pid, pred, json.dumps(t["expr"]), t["depth"], json.dumps(v["want"]), json.dumps(got)),
                                  {"mode": "trace", "kind": t["kind"], "expr": t["expr"], "preds": v["preds"], "want": v["want"], "observed": t})
        elif v.get("t") == "DRIFT":
            ndrift += 1
            if ndrift <= 3:
                t = judged[v["ti"] - 1]
                run.drift.append("trace %s#%d %s: the cursor model differs at %s %d" % (tag, v["ti"], json.dumps(t["expr"]), v["what"], v["step"]))
    if len(done) != len(judged):
        errs = [l for l in r.out.splitlines() if not l.startswith('"') and ("rror" in l or "xception" in l)]
        raise Infra("%sTrace consumed %d of %d traces:\n%s\n%s" % (MOD[pid], len(done), len(judged), "\n".join(errs[:12]), r.out[-600:]))
    for k, n in per_pred.items():
        run.notes["trace_findings_" + k] = run.notes.get("trace_findings_" + k, 0) + n
    if ndrift:
        run.notes["trace_drift"] = run.notes.get("trace_drift", 0) + ndrift
    run.traces += len(judged)
    run.add_mc(MOD[pid] + "Trace", r, {"traces": len(judged), "steps": sum(len(t["steps"]) for t in judged),
                                       "max_depth": max(t["depth"] for t in judged)})
    run.notes["random_trees_judged"] = run.notes.get("random_trees_judged", 0) + len(judged)
    run.notes["random_max_depth"] = max(run.notes.get("random_max_depth", 0), max(t["depth"] for t in judged))
    t = judged[len(judged) // 2]
    run.sample({"random_tree": t["expr"], "depth": t["depth"], "observed": [[s["v"], s["ok"]] for s in t["steps"]][:12]})


def elem_text(name):
    """`any/nil=1` -> `any (the model's 1 is the nil interface)`"""
    m = re.match(r"(.+)/nil=(-?\d+)$", name)
    if not m:
        return name
    return "%s (the model's %s is the nil %s)" % (m.group(1), m.group(2), "interface" if m.group(1) == "any" else "pointer")


# ------------------------------------------------------------------------------------------------ --replay
def do_replay(run, binp, path):
    """Re-executes the stored case against the current tree and re-judges it."""
    rec = json.load(open(path))
    pl = rec["payload"]
    with Scratch() as d:
        mode = pl.get("mode")
        if mode == "replay":
            # the stored case over every element-type variant (the stored one, pl["elem"], among them), the source slices
            # laid out as they were (the layout follows the index the case had)
            cs = dict(pl["case"])
            if "at" in pl.get("finding", {}):
                cs["ci"] = pl["finding"]["at"]
            replay_cases(run, binp, d, "replay", [], [cs], pl.get("gen"), every=1, dedupe=False)
        elif mode == "trace":
            inp, outp = os.path.join(d, "exprs.jsonl"), os.path.join(d, "traces.jsonl")
            with open(inp, "w") as f:
                f.write(json.dumps({"kind": pl["kind"], "expr": pl["expr"]}) + "\n")
            env = dict(VERIF_MODE="exec", VERIF_IN=inp, VERIF_OUT=outp)
            if run_harness(run, binp, "TestExec", env, pl):
                judge_traces(run, [json.loads(l) for l in open(outp) if l.strip()], d, "replay")
        elif mode == "random":
            outp = os.path.join(d, "traces.jsonl")
            env = dict(pl["env"], VERIF_OUT=outp)
            if run_harness(run, binp, "TestRandom", env, pl):
                judge_traces(run, [json.loads(l) for l in open(outp) if l.strip()], d, "replay")
        else:
            raise Infra("replay file of mode %r cannot be re-executed" % mode)
