"""Running schedules through the pipedrv harness and judging the recorded traces with TLC (TRACE-P)."""
import json, os, subprocess
import common
from common import Infra, run_tlc

CFG_DEFAULTS = dict(elem="", twin="", kind="Map", mode="pure", forked=False, par=1, cap=0, inputs=[], fail=[], pred=[], n=0, freq=1, ops=1,
                    interval=1, monoid="sum", step="succ", seed=1, gate=False, stderr=False, dup=[], unit_ns=0)


def norm_cfg(c, nested=False):
    d = dict(CFG_DEFAULTS)
    d.update({k: v for k, v in c.items() if v is not None})
    if nested:
        d.pop("stages", None)
    else:
        d["stages"] = [norm_cfg(st, nested=True) for st in (c.get("stages") or [])]
    return d


def nin(cfg):
    if cfg["kind"] in ("Emit", "Unfold", "Seq"):
        return 0
    if cfg["kind"] == "New":
        return 1
    if cfg["kind"] == "Pipeline" and not cfg["inputs"]:
        return 0
    return len(cfg["inputs"])


def build(race=False):
    return common.go_build_test("pipedrv", race=race)


def run_schedules(binp, scheds, d, tag="s", timeout=1800, env=None, shards=None):
    """Shards the schedules over several harness processes (each schedule runs in its own synctest bubble)."""
    from concurrent.futures import ThreadPoolExecutor
    n = shards or max(1, min(common.NCPU // 2, len(scheds) // 150 + 1))
    if n == 1:
        return _run_schedules(binp, scheds, d, tag, timeout, env)
    parts = [scheds[i::n] for i in range(n)]
    with ThreadPoolExecutor(n) as ex:
        res = list(ex.map(lambda a: _run_schedules(binp, a[1], d, "%s_%d" % (tag, a[0]), timeout, env), enumerate(parts)))
    out = [None] * len(scheds)
    for i, part in enumerate(res):
        for j, t in enumerate(part):
            t["id"] = i + j * n
            out[i + j * n] = t
    return out


def _run_schedules(binp, scheds, d, tag="s", timeout=1800, env=None):
    """Executes the schedules; a crash of the harness process is attributed to the schedule that was running
    (trace with crash=True and whatever windows were flushed ... none: the process died) and the run goes on."""
    inp = os.path.join(d, tag + "_in.jsonl")
    with open(inp, "w") as f:
        for i, s in enumerate(scheds):
            s = dict(s, id=i, cfg=norm_cfg(s["cfg"]))
            f.write(json.dumps(s) + "\n")
    traces = {}
    start, rounds = 0, 0
    while start < len(scheds):
        rounds += 1
        outp = os.path.join(d, "%s_out_%d.jsonl" % (tag, rounds))
        e = dict(VERIF_IN=inp, VERIF_OUT=outp, VERIF_START=start)
        if env:
            e.update(env)
        p = common.run_bin(binp, ["-test.run", "TestSchedules", "-test.timeout", "60m"], env=e, timeout=timeout)
        last_begin = None
        if os.path.exists(outp):
            for line in open(outp):
                line = line.strip()
                if not line:
                    continue
                try:
                    rec = json.loads(line)
                except Exception:
                    continue      # a line cut short by the crash
                if "begin" in rec:
                    last_begin = rec["line"]
                elif "hang" in rec:
                    sh = dict(scheds[rec["line"]], id=rec["line"], cfg=norm_cfg(scheds[rec["line"]]["cfg"]))
                    traces[rec["line"]] = {"id": rec["line"], "cfg": sh["cfg"], "outs": [], "wins": [], "crash": False, "hang": True, "sched": sh,
                                           "epilogue": sh.get("epilogue", ""), "origin": sh.get("origin", "")}
                    HUNG.append(sh)
                else:
                    traces[rec["id"]] = rec
        if p.returncode == 0:
            break
        # the process died while schedule `last_begin` was running
        if last_begin is None or last_begin in traces and last_begin + 1 >= len(scheds):
            if last_begin is None:
                raise Infra("pipedrv died before the first schedule:\n" + (p.stdout + p.stderr)[-3000:])
        text = p.stdout + p.stderr
        if last_begin in traces and traces[last_begin].get("hang"):
            start = last_begin + 1
            if sum(1 for t in traces.values() if t.get("hang")) >= 3:
                # the library spins on schedule after schedule (60 s of real time each): the rest of this shard is not executed
                for k in range(start, len(scheds)):
                    sh = dict(scheds[k], id=k, cfg=norm_cfg(scheds[k]["cfg"]))
                    traces[k] = {"id": k, "cfg": sh["cfg"], "outs": [], "wins": [], "crash": False, "hang": True, "not_run": True, "sched": sh,
                                 "epilogue": sh.get("epilogue", ""), "origin": sh.get("origin", "")}
                break
            continue
        if last_begin in traces:
            # died after the trace was written (in teardown): the trace stands; a library panic there is still a panic
            if is_lib_panic(text):
                traces[last_begin]["crash"] = True
                traces[last_begin]["crash_msg"] = panic_head(text)
        else:
            s = dict(scheds[last_begin], id=last_begin, cfg=norm_cfg(scheds[last_begin]["cfg"]))
            if not is_lib_panic(text) and "DATA RACE" not in text:
                raise Infra("pipedrv died (status %s) on schedule %d without a library panic:\n%s\n%s" % (p.returncode, last_begin, json.dumps(s)[:1500], text[-3000:]))
            traces[last_begin] = {"id": last_begin, "cfg": s["cfg"], "outs": [], "wins": [], "crash": True,
                                  "crash_msg": panic_head(text), "sched": s, "epilogue": s.get("epilogue", ""), "origin": s.get("origin", "")}
        if "DATA RACE" in text:
            traces[last_begin]["race"] = text[text.index("DATA RACE") - 20:][:3000]
        start = last_begin + 1
        if rounds > 5000:
            raise Infra("too many harness restarts")
    out = []
    for i in range(len(scheds)):
        if i not in traces:
            raise Infra("no trace for schedule %d" % i)
        t = traces[i]
        t.setdefault("crash", False)
        t["nin"] = nin(t["cfg"])
        t["cfg"] = norm_cfg(t["cfg"])
        if not t["outs"]:
            t["outs"] = []
        out.append(t)
    return out


def run_free(binp, sched, variant, d, tag="free", still=30, quota=3000):
    """The configuration of a schedule on the real scheduler and the real clock (harness/pipedrv/free.go); one process."""
    inp = os.path.join(d, "%s_%s_in.jsonl" % (tag, variant))
    outp = os.path.join(d, "%s_%s_out.jsonl" % (tag, variant))
    with open(inp, "w") as f:
        f.write(json.dumps(dict(sched, id=0, cfg=norm_cfg(sched["cfg"]))) + "\n")
    p = common.run_bin(binp, ["-test.run", "TestFree", "-test.timeout", "20m"], env=dict(VERIF_IN=inp, VERIF_OUT=outp, VERIF_VARIANT=variant, VERIF_STILL_S=still, VERIF_QUOTA=quota), timeout=1500)
    t = None
    if os.path.exists(outp):
        for line in open(outp):
            try:
                t = json.loads(line)
            except Exception:
                pass
    text = p.stdout + p.stderr
    if t is None:
        if not is_lib_panic(text):
            raise Infra("free run died without a library panic:\n" + text[-2000:])
        s = dict(sched, cfg=norm_cfg(sched["cfg"]))
        t = {"id": 0, "cfg": s["cfg"], "outs": [], "wins": [], "crash": True, "crash_msg": panic_head(text), "sched": s, "origin": sched.get("origin", "") + "+free"}
    t.setdefault("crash", False)
    t["free"] = variant
    t["nin"] = nin(t["cfg"])
    t["cfg"] = norm_cfg(t["cfg"])
    return t


def is_lib_panic(text):
    if "panic:" not in text and "fatal error:" not in text:
        return False
    head = text[text.find("panic:") if "panic:" in text else text.find("fatal error:"):]
    # the panicking goroutine's stack comes first
    first = head.split("\n\n")[0] + "\n" + (head.split("\n\n")[1] if "\n\n" in head else "")
    return "github.com/fogfish/golem/pipe/v2" in first


def panic_head(text):
    i = text.find("panic:")
    if i < 0:
        i = text.find("fatal error:")
    return text[i:i + 600]


HUNG = []           # schedules on which the library never came to rest within the watchdog's time (reset per check run)
EXERCISED = {}      # predicate -> number of executions in which its antecedent held (vacuity guard, reset per check run)

TRACEP_CFG = """SPECIFICATION Spec
INVARIANT Judge
CHECK_DEADLOCK FALSE
"""


def judge(traces, d, tag="j", chunk=300):
    """TRACE-P: returns (list of (trace_index, window, [predicates]), TLC results).  Chunks are judged concurrently."""
    from concurrent.futures import ThreadPoolExecutor
    starts = list(range(0, len(traces), chunk))
    with ThreadPoolExecutor(4) as ex:
        parts = list(ex.map(lambda c0: _judge_chunk(traces, d, tag, chunk, c0), starts))
    viols, results = [], []
    for v, r in parts:
        viols += v
        results.append(r)
    return viols, results


def _judge_chunk(traces, d, tag, chunk, c0):
    viols = []
    if True:
        part = traces[c0:c0 + chunk]
        # (TLC's integers are 32 bits wide: a Take bound beyond every input is represented by a million)
        slim = [{"cfg": dict(t["cfg"], n=min(t["cfg"].get("n", 0), 10 ** 6)), "outs": t["outs"], "nin": t["nin"], "wins": t["wins"], "crash": bool(t.get("crash"))} for t in part]
        # a crashed schedule has no outs recorded: give it the names its kind has
        for s in slim:
            if not s["outs"]:
                s["outs"] = outs_of(s["cfg"])
        tf = os.path.join(d, "%s_batch_%d.json" % (tag, c0))
        with open(tf, "w") as f:
            json.dump({"traces": slim}, f)
        r = run_tlc("PipeTraceP", TRACEP_CFG, env={"TRACE_FILE": tf}, timeout=1800, workers=4)
        if r.violated:
            raise Infra("PipeTraceP stopped: " + r.out[-3000:])
        done = set()
        for v in r.json_prints():
            if v.get("t") == "DONE":
                done.add(v["ti"])
                for pname in v.get("ex") or []:
                    EXERCISED[pname] = EXERCISED.get(pname, 0) + 1
            elif v.get("t") == "PVIOL":
                viols.append((c0 + v["ti"] - 1, v["w"], sorted(v["preds"])))
        if len(done) != len(part):
            raise Infra("PipeTraceP consumed %d of %d traces\n%s" % (len(done), len(part), r.out[-2000:]))
        return viols, r


def outs_of(cfg):
    k = cfg["kind"]
    if k in ("Map", "FMap", "Emit", "Unfold"):
        return ["out"] if cfg.get("stderr") else ["exx", "out"]
    if k == "Partition":
        return ["out", "rout"]
    if k in ("ForEach", "Void", "Fold"):
        return ["res"]
    return ["out"]


TRACEI_CFG = """CONSTANTS
 Cfgs <- TrCfgs
 QStep = FALSE
INIT TInit
NEXT TNext
VIEW TView
INVARIANT HighWater
CHECK_DEADLOCK FALSE
"""
STAGE_KINDS = {"Map", "FMap", "Filter", "ForEach", "Void", "Fold", "Partition", "Take", "TakeWhile"}


def bind_stage(traces, d, tag="i", chunk=250):
    """TRACE-I for the Stage model: returns (accepted, rejected list of (trace index, high-water window), TLC results).
    Only traces of the stage family without harness-side panics take part."""
    from concurrent.futures import ThreadPoolExecutor
    idx = [i for i, t in enumerate(traces) if t["cfg"]["kind"] in STAGE_KINDS and not t.get("crash") and t["wins"]
           and not any(e["e"] in ("sendpanic", "closepanic") for w in t["wins"] for e in w["done"])
           and not any(w["cmd"]["c"] == "burst" for w in t["wins"])]
    starts = list(range(0, len(idx), chunk))

    def one(c0):
        part = idx[c0:c0 + chunk]
        slim = [{"cfg": traces[i]["cfg"], "outs": traces[i]["outs"], "nin": traces[i]["nin"], "wins": traces[i]["wins"]} for i in part]
        tf = os.path.join(d, "%s_bind_%d.json" % (tag, c0))
        with open(tf, "w") as f:
            json.dump({"traces": slim}, f)
        r = run_tlc("StageTraceI", TRACEI_CFG, env={"TRACE_FILE": tf}, timeout=1800, workers=4)
        if r.violated:
            raise Infra("StageTraceI stopped: " + r.out[-2000:])
        hw = {}
        for v in r.json_prints("HW"):
            hw[v["ti"]] = max(hw.get(v["ti"], 0), v["w"])
        rej = [(part[k], hw.get(k + 1, 0)) for k in range(len(part)) if hw.get(k + 1, 0) < len(traces[part[k]]["wins"])]
        return len(part) - len(rej), rej, r
    acc, rej, res = 0, [], []
    with ThreadPoolExecutor(4) as ex:
        for a, rj, r in ex.map(one, starts):
            acc += a
            rej += rj
            res.append(r)
    return acc, rej, res
