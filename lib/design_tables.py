#!/usr/bin/env python3
"""Regenerates the two generated tables of DESIGN.md (seeded catch matrix, evidence summary) between their markers."""
import os, re, subprocess, sys
VERIF = os.path.dirname(os.path.dirname(os.path.abspath(__file__)))
p = os.path.join(VERIF, "DESIGN.md")
s = open(p).read()
for name, script in (("SEEDED-TABLE", "seeded_table.py"), ("EVIDENCE-TABLE", "evidence_table.py"), ("MECH-TABLE", "mutants_table.py")):
    out = subprocess.run([sys.executable, os.path.join(VERIF, "lib", script)], stdout=subprocess.PIPE, text=True).stdout
    a, b = s.index("<!-- %s-BEGIN -->" % name), s.index("<!-- %s-END -->" % name)
    s = s[:a] + "<!-- %s-BEGIN -->\n%s" % (name, out) + s[b:]
open(p, "w").write(s)
