#!/usr/bin/env python3
"""Prints the catch matrix of /verif/seeded/*/meta.json as a markdown table (for DESIGN.md section 0.6)."""
import json, glob, os
VERIF = os.path.dirname(os.path.dirname(os.path.abspath(__file__)))
rows = []
hist = json.load(open(os.path.join(VERIF, "seeded", "HISTORY.json"))) if os.path.exists(os.path.join(VERIF, "seeded", "HISTORY.json")) else {}
for f in sorted(glob.glob(os.path.join(VERIF, "seeded", "*", "meta.json"))):
    m = json.load(open(f))
    conf = m.get("confirmation", {}).get("confirmed")
    ch = m.get("checks", {})
    caught = [p for p, c in ch.items() if c.get("caught")]
    missed = [p for p, c in ch.items() if not c.get("caught")]
    first = next((c["first_violation"] for p, c in ch.items() if c.get("caught")), "")
    pred = ""
    if "['" in first:
        pred = first[first.index("['"):].split("]")[0] + "]"
    elif first:
        pred = first.split(":")[0][:60]
    rows.append("| %s | %s | %s | %s | %s | %s |" % (m.get("id"), m.get("property"), (m.get("needs") or "")[:160].replace("|", "/").replace("\n", " "),
                "yes" if conf else "NO", (", ".join(caught) or "**missed**") + ("; not by " + ", ".join(missed) if missed and caught else ""), pred.replace("|", "/") + (" - " + hist[m.get("id")] if m.get("id") in hist else "")))
print("| seeded change | property | needs | confirmed | caught by (quick tier) | first failing predicate / history |")
print("|---|---|---|---|---|---|")
print("\n".join(rows))
