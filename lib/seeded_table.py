#!/usr/bin/env python3
"""Prints the catch matrix of /verif/seeded/*/meta.json as a markdown table (for DESIGN.md section 0.6)."""
import json, glob, os
VERIF = os.path.dirname(os.path.dirname(os.path.abspath(__file__)))
rows = []
for f in sorted(glob.glob(os.path.join(VERIF, "seeded", "*", "meta.json"))):
    m = json.load(open(f))
    conf = m.get("confirmation", {}).get("confirmed")
    ch = m.get("checks", {})
    caught = [p for p, c in ch.items() if c.get("caught")]
    missed = [p for p, c in ch.items() if not c.get("caught")]
    first = next((c["first_violation"] for p, c in ch.items() if c.get("caught")), "")
    pred = ""
    if "['" in first:
        pred = first[first.index("['"):].split("]")[0] + "]"
    elif first:
        pred = first.split(":")[0][:60]
    rows.append("| %s | %s | %s | %s | %s | %s |" % (m.get("id"), m.get("property"), (m.get("needs") or "")[:160].replace("|", "/").replace("\n", " "),
                "yes" if conf else "NO", ", ".join(caught) or "-", pred.replace("|", "/")))
print("| seeded change | property | needs | confirmed | caught by (quick tier) | first failing predicate |")
print("|---|---|---|---|---|---|")
print("\n".join(rows))
