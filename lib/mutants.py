#!/usr/bin/env python3
"""Mechanical mutants of the library (next to the hand-made seeded changes of seeded/<id>/): a measure of what the quick
checks notice that the repository's own tests do not.

  mutants.py gen  <family>            list the mutants of a family (pipe | skiplist | seq | duct | ...)
  mutants.py run  <family> [--jobs N] [--limit N]   evaluate them; resumable, results in seeded/_mechanical/<family>.json

For every mutant, in a scratch worktree of /repo (outside /repo and /verif, removed afterwards):
  1. it must build (otherwise: "stillborn");
  2. the module's existing tests are run: a mutant they notice is "killed by the repository's tests" and of no interest;
  3. the relevant quick checks are run with VERIF_REPO=<the worktree>, in order, until one exits 1 ("caught by <id>").
     A mutant no check notices is a "survivor": to be read by hand (equivalent mutant, outside the stated properties, or a miss).
Nothing is ever applied to /repo itself."""
import hashlib, json, os, re, shutil, subprocess, sys, tempfile, time
from concurrent.futures import ThreadPoolExecutor

VERIF = os.path.dirname(os.path.dirname(os.path.abspath(__file__)))
OUT = os.path.join(VERIF, "seeded", "_mechanical")

FAMILIES = {
    "pipe": {"module": "pipe", "files": ["pipe/pipe.go", "pipe/unbound.go", "pipe/queue.go", "pipe/function.go", "pipe/fork/fork.go", "pipe/fork/function.go"],
             "test": "go test -mod=mod -count=1 -skip 'TestThrottling|TestFMap/Cancel' ./..."},
    "skiplist": {"module": None, "files": ["internal/maplike/skiplist/skiplist.go"], "test": None},
    "seq": {"module": "trait", "files": ["trait/seq/seq.go", "trait/pair/pair.go"], "test": "go test -mod=mod -count=1 ./..."},
    "duct": {"module": "duct", "files": ["duct/duct.go", "duct/ast.go"], "test": "go test -mod=mod -count=1 ./..."},
    "hseq": {"module": "hseq", "files": ["hseq/hseq.go"], "test": "go test -mod=mod -count=1 ./..."},
    "optics": {"module": "optics", "files": ["optics/lens.go", "optics/iso.go", "optics/shape.go", "optics/reflector.go"], "test": "go test -mod=mod -count=1 ./..."},
    "pure": {"module": "pure", "files": ["pure/monoid/monoid.go", "pure/eq/eq.go", "pure/ord/ord.go"], "test": "go test -mod=mod -count=1 ./..."},
}

PIPE_FUNC_CHECKS = {"Emit": ["C11", "C06"], "Unfold": ["C11", "C06"], "Join": ["C12", "C06"], "Throttling": ["C13", "C06"],
                    "Map": ["C05", "C07", "C06"], "FMap": ["C05", "C07", "C06"], "Seq": ["C05"], "ToSeq": ["C05"], "StdErr": ["C06", "C07"]}


def checks_for(path, func):
    if path == "pipe/pipe.go":
        return PIPE_FUNC_CHECKS.get(func, ["C05", "C06"])
    if path in ("pipe/unbound.go", "pipe/queue.go"):
        return ["C08"]
    if path == "pipe/function.go":
        return ["C07", "C06", "C05"]
    if path == "pipe/fork/fork.go":
        if func == "Fold":
            return ["C10", "C09"]
        if func in ("Emit", "Unfold"):
            return ["C11"]
        if func == "Join":
            return ["C12"]
        if func == "Throttling":
            return ["C13"]
        if func in ("Take", "TakeWhile", "Seq", "ToSeq"):
            return ["C05", "C09"]
        return ["C09"]
    if path == "pipe/fork/function.go":
        return ["C09", "C10"]
    if "skiplist" in path:
        return ["C18"]
    if path == "trait/seq/seq.go":
        return ["C14"]
    if path == "trait/pair/pair.go":
        return ["C15"]
    if path.startswith("duct/"):
        return ["C16"]
    if path.startswith("hseq/"):
        return ["C03", "C01"]
    if path.startswith("optics/"):
        return ["C01", "C02", "C04", "C03"]
    if path.startswith("pure/"):
        return ["C17"]
    return []


SWAPS = [(r" < ", " <= "), (r" <= ", " < "), (r" > ", " >= "), (r" >= ", " > "), (r" == ", " != "), (r" != ", " == "),
         (r" \+ ", " - "), (r" - ", " + "), (r"\+\+", "--"), (r"--$", "++"), (r"\bcap\(in\)", "0"), (r"\bcap\(in\)", "cap(in) + 1"),
         (r"!ok\b", "ok"), (r"\bcontinue$", "return"), (r"\breturn$", "continue"), (r"\btrue\b", "false"), (r"\bfalse\b", "true"),
         (r"\b0\b", "1"), (r"\b1\b", "2"), (r"\b1\b", "0"), (r"&&", "||"), (r"\|\|", "&&"), (r"\bbreak$", "continue")]
DELETABLE = re.compile(r"^\s*(defer close\(\w+\)|defer \w+\.\w+\(\)|close\(\w+\)|\w+\.(Done|Wait|Add)\([^)]*\)|\w+(--|\+\+)|\w+ (\+=|-=|=) .+|return|\w+\.\w+ = .+|\w+\[[^\]]+\] = .+)$")


def mutants_of(path):
    src = open(os.path.join("/repo", path)).read().split("\n")
    func, out = "", []
    for i, line in enumerate(src):
        m = re.match(r"^func (?:\([^)]*\) )?(\w+)", line)
        if m:
            func = m.group(1)
        s = line.strip()
        if not s or s.startswith("//") or s.startswith("import") or s.startswith("package") or line.startswith("func "):
            continue
        code = line.split("//")[0].rstrip()
        if DELETABLE.match(code):
            out.append({"file": path, "line": i + 1, "func": func, "op": "delete", "old": s, "new": ""})
        for pat, rep in SWAPS:
            for k, mm in enumerate(re.finditer(pat, code)):
                new = code[:mm.start()] + rep + code[mm.end():]
                if new != code:
                    out.append({"file": path, "line": i + 1, "func": func, "op": "%s -> %s #%d" % (pat.replace("\\b", "").replace("\\", ""), rep.strip(), k), "old": s, "new": new.strip(), "newline": new})
        # a select arm that is never taken: `case <-ctx.Done():` turned into a nil-channel receive
        if re.match(r"^\s*case <-ctx\.Done\(\):$", code):
            out.append({"file": path, "line": i + 1, "func": func, "op": "never-done", "old": s, "new": "case <-(chan struct{})(nil):", "newline": code.replace("<-ctx.Done()", "<-(chan struct{})(nil)")})
    for m in out:
        m["id"] = hashlib.sha1(("%s:%d:%s" % (m["file"], m["line"], m["op"])).encode()).hexdigest()[:10]
    return out


def sh(cmd, cwd=None, env=None, timeout=3600):
    p = subprocess.run(cmd, shell=True, cwd=cwd, env=env, stdout=subprocess.PIPE, stderr=subprocess.STDOUT, text=True, timeout=timeout)
    return p.returncode, p.stdout


def apply(repo, m):
    p = os.path.join(repo, m["file"])
    src = open(p).read().split("\n")
    assert src[m["line"] - 1].strip() == m["old"], (src[m["line"] - 1], m["old"])
    if m["op"] == "delete":
        ind = re.match(r"^\s*", src[m["line"] - 1]).group(0)
        src[m["line"] - 1] = ind + "// (deleted)"
    else:
        src[m["line"] - 1] = m["newline"]
    open(p, "w").write("\n".join(src))


def evaluate(fam, m):
    spec = FAMILIES[fam]
    work = tempfile.mkdtemp(prefix="mutant_")
    repo = os.path.join(work, "repo")
    res = dict(m)
    res.pop("newline", None)
    env = dict(os.environ, GOFLAGS="-mod=mod")
    try:
        sh("git -C /repo worktree add -q --detach %s HEAD" % repo)
        apply(repo, m)
        if spec["module"]:
            mod = os.path.join(repo, spec["module"])
            rc, out = sh("go build ./... && go vet ./... 2>&1 | tail -3", cwd=mod, env=env)
            if rc != 0 or "vet:" in out:
                res["status"] = "stillborn"
                return res
            try:
                rc, out = sh(spec["test"] + " 2>&1 | tail -5", cwd=mod, env=env, timeout=300)
                hung = False
            except subprocess.TimeoutExpired:
                rc, out, hung = 1, "timeout", True
            if hung or "FAIL" in out or "panic" in out:
                res["status"] = "killed-by-repo-tests"
                return res
        res["checks"] = {}
        for pid in checks_for(m["file"], m["func"]):
            e2 = dict(os.environ, VERIF_REPO=repo, VERIF_EVIDENCE_DIR=os.path.join(work, "ev"))
            t0 = time.time()
            try:
                rc, out = sh("./check %s --tier quick" % pid, cwd=VERIF, env=e2, timeout=2400)
            except subprocess.TimeoutExpired:
                rc, out = 2, "timeout"
            lines = out.splitlines()
            first = next((lines[i + 1].strip() for i, l in enumerate(lines) if l.startswith("VIOLATION") and i + 1 < len(lines)), "")
            res["checks"][pid] = {"exit": rc, "wall_s": round(time.time() - t0), "first": first[:300],
                                  "note": "" if rc in (0, 1) else next((l for l in lines if "INFRA" in l or "rror" in l), "")[:300]}
            if rc == 1:
                res["status"] = "caught"
                res["caught_by"] = pid
                return res
            if rc != 0 and fam != "pipe":
                res["status"] = "check-broken (does not build against the harness?)"
                return res
        res["status"] = "survivor" if all(c["exit"] == 0 for c in res["checks"].values()) else "undecided (exit 2)"
        return res
    except Exception as e:  # noqa
        res["status"] = "error: %r" % e
        return res
    finally:
        sh("git -C /repo worktree remove --force %s" % repo)
        shutil.rmtree(work, ignore_errors=True)
        shutil.rmtree(os.path.join(VERIF, ".build", "h_r" + hashlib.sha1(repo.encode()).hexdigest()[:8]), ignore_errors=True)


def main():
    cmd, fam = sys.argv[1], sys.argv[2]
    ms = [m for f in FAMILIES[fam]["files"] for m in mutants_of(f)]
    if cmd == "gen":
        for m in ms:
            print(m["id"], m["file"], m["line"], m["func"], m["op"], "|", m["old"], "=>", m["new"])
        print(len(ms), "mutants")
        return
    jobs = int(sys.argv[sys.argv.index("--jobs") + 1]) if "--jobs" in sys.argv else 2
    limit = int(sys.argv[sys.argv.index("--limit") + 1]) if "--limit" in sys.argv else 10 ** 9
    os.makedirs(OUT, exist_ok=True)
    resf = os.path.join(OUT, fam + ".json")
    done = {r["id"]: r for r in (json.load(open(resf)) if os.path.exists(resf) else [])}
    again = ("error", "undecided", "check-broken") + (("survivor",) if "--survivors" in sys.argv else ())      # --survivors: once more, with the current checks
    todo = [m for m in ms if m["id"] not in done or str(done[m["id"]].get("status", "")).startswith(again)][:limit]
    import random
    random.Random(1).shuffle(todo)
    print("%d mutants, %d to evaluate" % (len(ms), len(todo)))
    from concurrent.futures import as_completed
    with ThreadPoolExecutor(jobs) as ex:
        futs = [ex.submit(evaluate, fam, m) for m in todo]
        for f in as_completed(futs):
            r = f.result()
            done[r["id"]] = r
            print(r["id"], r["file"], r["line"], r["op"], "->", r["status"], r.get("caught_by", ""), flush=True)
            json.dump(sorted(done.values(), key=lambda r: (r["file"], r["line"], r["op"])), open(resf + ".tmp", "w"), indent=1)
            os.replace(resf + ".tmp", resf)


if __name__ == "__main__":
    main()
