#!/usr/bin/env python3
"""Summary of the mechanical mutants (seeded/_mechanical/*.json + classification.json) as markdown; design_tables.py puts it
into DESIGN.md between <!-- MECH-TABLE-BEGIN --> and <!-- MECH-TABLE-END -->."""
import glob, json, os, collections
VERIF = os.path.dirname(os.path.dirname(os.path.abspath(__file__)))


def table():
    d = os.path.join(VERIF, "seeded", "_mechanical")
    cls = json.load(open(os.path.join(d, "classification.json")))
    out = ["| family | generated | evaluated | do not build | noticed by the repository's tests | caught by a quick check | survivors: equivalent / outside the stated properties / missed, then fixed / unread | undecided |",
           "|---|---|---|---|---|---|---|---|"]
    surv = []
    import subprocess, sys
    for f in sorted(glob.glob(os.path.join(d, "*.json"))):
        fam = os.path.basename(f)[:-5]
        if fam == "classification":
            continue
        rs = json.load(open(f))
        gen = subprocess.run([sys.executable, os.path.join(VERIF, "lib", "mutants.py"), "gen", fam], stdout=subprocess.PIPE, text=True).stdout.strip().splitlines()[-1].split()[0]
        c = collections.Counter()
        by = collections.Counter()
        for r in rs:
            st = r["status"]
            if st == "survivor":
                k = cls.get(r["id"], ["unread", ""])[0]
                c["s_" + k] += 1
                surv.append((fam, r, cls.get(r["id"], ["unread", ""])))
            elif st == "caught":
                c["caught"] += 1
                by[r["caught_by"]] += 1
            elif st == "stillborn":
                c["stillborn"] += 1
            elif st.startswith("killed"):
                c["killed"] += 1
            else:
                c["undecided"] += 1
        out.append("| %s | %s | %d | %d | %d | %d (%s) | %d / %d / %d / %d | %d |" % (fam, gen, len(rs), c["stillborn"], c["killed"], c["caught"], ", ".join("%s %d" % kv for kv in sorted(by.items())),
                                                                              c["s_equivalent"], c["s_outside"], c["s_miss-fixed"], c["s_unread"], c["undecided"]))
    out += ["", "Survivors, read by hand:", ""]
    for fam, r, (k, why) in surv:
        out.append("* `%s:%d` %s: `%s` => `%s` - **%s**: %s" % (r["file"], r["line"], r["func"], r["old"], r["new"] or "(deleted)", k, why))
    return "\n".join(out)


if __name__ == "__main__":
    print(table())
