"""./check selftest - demonstrates that the specifications are bound to what was recorded (DESIGN.md 3.6):
a recorded execution of the real code is accepted; the same execution with one field corrupted or one event removed
is rejected (TRACE-I) or judged violating (TRACE-P).  Exit 0 when every demonstration behaves as expected."""
import copy, json, random
import common, pipe_run, fam_pipe, fam_skiplist, trace_i
from fam_pipe import C


def main():
    ok = True
    rng = random.Random(11)
    binp = pipe_run.build()
    cfgs = [C(kind="Map", mode="try", cap=1, inputs=[[1, 2, 3]], fail=[2], gate=True),
            C(kind="Filter", cap=0, inputs=[[1, 2, 3]], pred=[1, 3]),
            C(kind="Map", mode="try", forked=True, par=2, cap=0, inputs=[[1, 2, 3]], fail=[2], gate=True)]
    sch = fam_pipe.rand_scheds(cfgs, rng, 10, ["drain", "cancel"])
    with common.Scratch() as d:
        tr = pipe_run.run_schedules(binp, sch, d)
        viols, _ = pipe_run.judge(tr, d, tag="ok")
        acc, rej, _ = trace_i.bind("Stage", tr, d, tag="ok")
        print("selftest pipe: %d recorded executions: TRACE-P failing=%d, TRACE-I accepted=%d rejected=%d" % (len(tr), len(viols), acc, len(rej)))
        ok &= not viols and not rej
        # (a) a received value is changed: TRACE-P must flag Prefix, TRACE-I must reject
        bad = []
        for t in tr:
            t = copy.deepcopy(t)
            g = [e for w in t["wins"] for e in w["done"] if e["e"] == "got" and e["ok"] and e["o"] == "out"]
            if g:
                g[0]["v"] += 1
                bad.append(t)
        v, _ = pipe_run.judge(bad, d, tag="badv")
        flagged = {ti for ti, w, p in v}
        acc, rej, _ = trace_i.bind("Stage", bad, d, tag="badv")
        print("selftest pipe: corrupted value in %d executions: TRACE-P flags %d, TRACE-I rejects %d" % (len(bad), len(flagged), len(rej)))
        ok &= len(flagged) == len(bad) and len(rej) == len(bad)
        # (b) the goroutine count of one snapshot is changed: TRACE-I must reject
        bad = []
        for t in tr:
            t = copy.deepcopy(t)
            t["wins"][len(t["wins"]) // 2]["q"]["live"] += 1
            bad.append(t)
        acc, rej, _ = trace_i.bind("Stage", bad, d, tag="badl")
        print("selftest pipe: corrupted live count in %d executions: TRACE-I rejects %d" % (len(bad), len(rej)))
        ok &= len(rej) == len(bad)
        # (c) one completion is removed from the log: TRACE-I must reject
        bad = []
        for t in tr:
            t = copy.deepcopy(t)
            for w in t["wins"]:
                real = [i for i, e in enumerate(w["done"]) if e["e"] != "cancelmark"]     # (the mark is the harness' bookkeeping, not a completion)
                if real:
                    w["done"].pop(real[0])
                    bad.append(t)
                    break
        acc, rej, _ = trace_i.bind("Stage", bad, d, tag="bade")
        print("selftest pipe: removed event in %d executions: TRACE-I rejects %d" % (len(bad), len(rej)))
        ok &= len(rej) == len(bad)
    # skip list: a recorded random history is accepted; with one result changed it is flagged
    run = common.Run("C18", "quick", 1)
    sbin = fam_skiplist.build()
    with common.Scratch() as d:
        import os
        outp = os.path.join(d, "t.jsonl")
        p = common.run_bin(sbin, ["-test.run", "TestRandom"], env=dict(VERIF_MODE="random", VERIF_SEED=5, VERIF_OUT=outp, VERIF_N=6, VERIF_OPS=60, VERIF_KEYS=6))
        traces = [json.loads(l) for l in open(outp) if l.strip()]
        fam_skiplist.judge_traces(run, traces, d, "ok")
        good = len(run.violations)
        for t in traces:
            for s in t["steps"]:
                if s["op"] == "get":
                    s["ret"] += 1
                    break
        fam_skiplist.judge_traces(run, traces, d, "bad")
        print("selftest skiplist: recorded histories flagged=%d, with a corrupted Get result flagged=%d" % (good, len(run.violations) - good))
        ok &= good == 0 and len(run.violations) > 0
    print("selftest", "ok" if ok else "FAILED")
    return 0 if ok else 2
