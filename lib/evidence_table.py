#!/usr/bin/env python3
"""Markdown table of what the last run of every check covered (from /verif/evidence/*.json)."""
import json, glob, os
VERIF = os.path.dirname(os.path.dirname(os.path.abspath(__file__)))
print("| id | tier | TLC distinct states (all runs) | TLC transitions | executions of the real code judged | models checked | wall s |")
print("|---|---|---|---|---|---|---|")
for f in sorted(glob.glob(os.path.join(VERIF, "evidence", "C*.json"))):
    e = json.load(open(f))
    c = e["coverage"]
    models = sorted({r["model"].split("(")[0] for r in c.get("mc_runs", [])})
    print("| %s | %s | %s | %s | %s | %s | %s |" % (e["property_id"], e["tier"], f"{c.get('states', 0):,}".replace(",", " "), f"{c.get('transitions', 0):,}".replace(",", " "),
          f"{c.get('traces_validated_against_impl', 0):,}".replace(",", " "), ", ".join(models)[:120], e["wall_s"]))
