"""C05 - C13: the pipe / fork family.

Per property: (1) MC - TLC explores the implementation-shaped model(s) over a list of configurations with the P
predicates as invariants (a counterexample there is a model error unless reproduced on the real code);
(2) GEN - TLC prints one witness schedule per distinct quiescent state of the quiescent-step restriction; the synctest
controller replays them (+ seeded random schedules) against the real code; (3) TRACE-P - TLC judges every recorded
execution with the P predicates (the verdict); (4) TRACE-I - the recorded executions must be behaviours of the I model
(drift report, never a verdict)."""
import json, os, random, itertools, collections
import common, pipe_run
from common import Infra, run_tlc, Scratch, log

# which P predicates decide which property (PipeProps.Verdicts)
PREDS = {
    "C05": ["NoEarlyClose", "NoStall", "DoneMeansDone", "PipePrefix", "PipeComplete", "PipeSettle", "PipeGen", "Prefix", "SeqExact", "FoldRes", "Complete", "TakeBound", "CallsPrefix", "CallsComplete", "Settle1"],
    "C06": ["PipePrefix", "NoPanic", "Prefix", "FoldRes", "Settle1", "Settle2", "LiftCloses", "GenExact", "GenStops", "GenNoEarlyClose", "GenSettle", "JoinPerInput", "JoinNothingInvented"],
    "C07": ["NoEarlyClose", "NoStall", "Prefix", "Complete", "CallsPrefix", "CallsComplete", "Settle1", "LiftCloses", "NoPanic", "GenExact", "GenSettle"],
    "C08": ["NeverBlocksSender", "NewDelivers", "Prefix", "LosslessAfterCancel", "Complete", "Settle1", "NewSettle", "NoPanic"],
    "C09": ["NoEarlyClose", "NoStall", "DoneMeansDone", "Prefix", "Complete", "CallsPrefix", "CallsComplete", "NoPanic", "Settle1", "Settle2"],
    "C10": ["DoneMeansDone", "FoldRes", "Complete", "CallsComplete", "Settle1", "NoPanic"],
    "C11": ["GenExact", "GenStops", "GenNoEarlyClose", "EmitPaced", "EmitKeepUp", "Settle2", "GenSettle", "NoPanic"],
    "C12": ["JoinPerInput", "JoinNothingInvented", "JoinComplete", "JoinNoStall", "Settle1", "Settle2", "NoPanic"],
    "C13": ["NoEarlyClose", "Prefix", "Complete", "ThrottleWindow", "ThrottlePaced", "Settle1", "Settle2", "NoPanic"],
}
STAGE_INV = {"Prefix": "PrefixInv", "FoldRes": "FoldResInv", "Complete": "CompleteInv", "TakeBound": "TakeBoundInv",
             "CallsPrefix": "CallsPrefixInv", "CallsComplete": "CallsCompleteInv", "NoPanic": "NoPanicInv",
             "Settle1": "Settle1Inv", "Settle2": "Settle2Inv", "LiftCloses": "LiftClosesInv", "NoEarlyClose": "NoEarlyCloseInv", "NoStall": "NoStallInv", "DoneMeansDone": "DoneMeansDoneInv"}
SEQ_KINDS = ["Map", "FMap", "Filter", "ForEach", "Void", "Fold", "Partition", "Take", "TakeWhile"]


def C(**k):
    return pipe_run.norm_cfg(k)


def par(tasks, n=3):
    """Runs the callables concurrently (independent TLC runs) and returns their results in order."""
    from concurrent.futures import ThreadPoolExecutor
    with ThreadPoolExecutor(n) as ex:
        futs = [ex.submit(t) for t in tasks]
        return [f.result() for f in futs]


def inputs_upto(n):
    return [list(range(1, k + 1)) for k in range(0, n + 1)]


# ------------------------------------------------------------------------------------------------ configurations
def stage_cfgs(pid, tier, rng):
    """Configurations of the Stage model / controller for a property.  Returns (mc_cfgs, gen_cfgs, rand_cfgs)."""
    th = tier == "thorough"
    mc, gen, rnd = [], [], []
    if pid == "C05":
        caps = [0, 1, 2]
        for kind in SEQ_KINDS:
            for cap in caps:
                base = dict(kind=kind, cap=cap, mode="pure", pred=[1, 3], monoid="digits9")
                if kind == "Take":
                    for n in range(0, 5):
                        mc.append(C(inputs=[[1, 2, 3]], n=n, **base))
                        if cap < 2 or th:
                            gen.append(C(inputs=[[1, 2, 3]], n=n, **base))
                else:
                    mc.append(C(inputs=[[1, 2, 3]], **base))
                    if cap < 2 or th:
                        gen.append(C(inputs=[[1, 2, 3]], **base))
                    if th:
                        mc.append(C(inputs=[[1, 2, 3, 4]], **base))
                        if cap < 2:
                            mc.append(C(inputs=[[1, 2, 3, 4, 5]], **dict(base, pred=[1, 3, 4])))
                            gen.append(C(inputs=[[1, 2, 3, 4]], **base))
                rnd.append(C(inputs=[[1, 2, 3, 4, 5]], n=rng.randint(0, 6), **base))
                if cap == 2:
                    rnd.append(C(inputs=[[1, 2, 3, 4, 5, 6, 7]], n=rng.randint(0, 8), **dict(base, cap=rng.randint(3, 5))))
                if cap == 1:
                    # repeated and unordered values (an element is not identified by its value), and the zero value of the element type
                    rnd.append(C(inputs=[[2, 2, 1, 1, 3, 2, 3]], n=rng.randint(1, 8), **base))
                    rnd.append(C(inputs=[[0, 1, 0, 0, 2, 3, 0]], n=rng.randint(1, 8), **dict(base, pred=[0, 1, 3])))
            # the empty input and a gated run of the user function
            mc.append(C(kind=kind, cap=1, mode="pure", pred=[1, 3], monoid="digits9", inputs=[[]], n=1))
            if kind == "Fold":
                rnd.append(C(kind=kind, cap=1, monoid="sumref", inputs=[[2, 3, 4]]))
            if kind not in ("Void", "Take"):
                mc.append(C(kind=kind, cap=1, mode="pure", pred=[2], monoid="digits9", inputs=[[1, 2]], gate=True))
                gen.append(C(kind=kind, cap=1, mode="pure", pred=[2], monoid="digits9", inputs=[[1, 2]], gate=True))
        # "take everything": a bound far beyond the input (and beyond 32 bits) is no bound
        for n in (1 << 31, (1 << 32) + 2, (1 << 63) - 1):
            rnd.append(C(kind="Take", cap=1, inputs=[[1, 2, 3, 4]], n=n))
        # Seq / ToSeq are identity on lists (no goroutine of their own): driven by random schedules only
        rnd.append(C(kind="Seq", inputs=[[(7 * i) % 1000 + 1 for i in range(1100)]]))     # longer than any internal chunk size
        for inp in ([], [1], [1, 2, 3], [3, 1, 2, 2]):
            rnd.append(C(kind="Seq", inputs=[inp]))
            rnd.append(C(kind="ToSeq", cap=len(inp) % 3, inputs=[inp]))
        # fork.Take / TakeWhile / Seq / ToSeq delegate to pipe
        rnd += [C(kind="Take", forked=True, cap=1, inputs=[[1, 2, 3, 4]], n=2), C(kind="TakeWhile", forked=True, cap=0, inputs=[[1, 2, 3]], pred=[1, 2]),
                C(kind="Seq", forked=True, inputs=[[1, 2, 3]]), C(kind="ToSeq", forked=True, cap=1, inputs=[[1, 2, 3]])]
    elif pid == "C06":
        for kind in SEQ_KINDS:
            for cap in [0, 1, 2]:
                for gate in ([False, True] if kind not in ("Void", "Take") else [False]):
                    if cap == 2 and (gate or not th):
                        continue
                    base = dict(kind=kind, cap=cap, mode="try" if kind in ("Map", "FMap") else "pure", pred=[1, 3], monoid="digits9",
                                n=2, fail=[2] if kind in ("Map", "FMap") else [], gate=gate)
                    mc.append(C(inputs=[[1, 2, 3]], **base))
                    gen.append(C(inputs=[[1, 2, 3]] if not gate else [[1, 2]], **base))
                    rnd.append(C(inputs=[[1, 2, 3, 4]], **base))
            if kind in ("Filter", "Partition", "TakeWhile"):
                # a predicate that fails on an element: whatever it returns, the stage must still close / terminate / not leak
                for mode in ("lift", "try"):
                    c = C(kind=kind, cap=1, mode=mode, inputs=[[1, 2, 3]], pred=[1, 2, 3], fail=[2])
                    mc.append(c); gen.append(c); rnd.append(C(kind=kind, cap=0, mode=mode, inputs=[[1, 2, 3, 4]], pred=[1, 2, 4], fail=[2, 3]))
            if kind in ("Map", "FMap"):
                for mode in ("lift", "try"):
                    c = C(kind=kind, cap=1, mode=mode, inputs=[[1, 2, 3]], fail=[2], stderr=True)
                    mc.append(c); gen.append(c); rnd.append(c)
                c = C(kind=kind, cap=0, mode="lift", inputs=[[1, 2, 3]], fail=[2])
                mc.append(c); gen.append(c); rnd.append(c)
    elif pid == "C07":
        n = 4 if th else 3
        inp = list(range(1, n + 1))
        for kind in ("Map", "FMap"):
            for mode in ("lift", "try"):
                for cap in ([0, 1] if th else [0, 1, 2]):
                    for k in range(0, n + 1):
                        for fail in itertools.combinations(inp, k):
                            c = C(kind=kind, cap=cap, mode=mode, inputs=[inp], fail=list(fail))
                            mc.append(c)
                            if cap < 2 and (th or len(fail) <= 2):
                                gen.append(c)
                    rnd.append(C(kind=kind, cap=cap, mode=mode, inputs=[list(range(1, 9))], fail=sorted(rng.sample(range(1, 9), rng.randint(1, 5)))))
                    rnd.append(C(kind=kind, cap=cap, mode=mode, inputs=[list(range(1, 7))], fail=sorted(rng.sample(range(1, 7), rng.randint(1, 4))), stderr=True))
    elif pid == "C09":
        for kind in ("Map", "FMap", "Filter", "Partition", "ForEach", "Void"):
            for par in [1, 2, 3]:
                for cap in [0, 1]:
                    gate = kind != "Void"
                    base = dict(kind=kind, forked=True, par=par, cap=cap, mode="try" if kind in ("Map", "FMap") else "pure",
                                pred=[1, 3], fail=[2] if kind in ("Map", "FMap") else [], gate=gate)
                    small = par == 1 or (par == 2 and (cap == 0 or th)) or (par == 3 and th and cap == 0 and kind in ("Map", "Filter"))
                    if small:
                        c = C(inputs=[[1, 2, 3]] if (par < 3 and kind != "FMap") else [[1, 2]], **base)
                        mc.append(c)
                        if par <= 2:
                            gen.append(C(inputs=[[1, 2]] if kind == "FMap" or par == 2 else [[1, 2, 3]], **base))
                    rnd.append(C(inputs=[[1, 2, 3, 4, 5]], **base))
                    rnd.append(C(inputs=[[1, 2, 3, 4, 5, 6]], **dict(base, gate=False)))
            if kind in ("Filter", "Partition"):
                # a predicate that fails on some elements: as in pipe, such an element is dropped / goes right, and the work goes on
                for mode in ("lift", "try"):
                    for par in (1, 2, 3):
                        # (failing elements after accepted ones, after rejected ones and first of all: whatever a worker kept from its last element)
                        rnd.append(C(kind=kind, forked=True, par=par, cap=1, mode=mode, pred=[1, 2, 3, 5, 6], fail=[1, 2, 3, 5][: par + 1], inputs=[[1, 2, 3, 4, 5, 6, 7]], gate=par == 2))
                        rnd.append(C(kind=kind, forked=True, par=par, cap=par - 1, mode=mode, pred=[1, 2, 3, 5, 6], fail=[[3, 6], [2, 3, 6], sorted(rng.sample(range(1, 8), 3))][par - 1], inputs=[[1, 2, 3, 4, 5, 6, 7]], gate=par == 3))
                mc.append(C(kind=kind, forked=True, par=2, cap=0, mode="try", pred=[1, 2, 3], fail=[1, 2], inputs=[[1, 2, 3]], gate=False))
                mc.append(C(kind=kind, forked=True, par=1, cap=1, mode="try", pred=[1, 2, 3], fail=[2, 3], inputs=[[1, 2, 3]], gate=False))
                gen.append(C(kind=kind, forked=True, par=1, cap=1, mode="try", pred=[1, 2, 3], fail=[2, 3], inputs=[[1, 2, 3]], gate=False))
                rnd.append(C(kind="TakeWhile", forked=True, cap=1, mode="try", pred=[1, 2, 3, 4], fail=[3], inputs=[[1, 2, 3, 4, 5]]))
            if kind == "ForEach":
                # ForEach ignores what its function returns: with a failing function every element is still visited once
                for mode in ("lift", "try"):
                    for par in (1, 2, 3):
                        rnd.append(C(kind=kind, forked=True, par=par, cap=1, mode=mode, fail=[1, 2, 4, 5], inputs=[[1, 2, 3, 4, 5, 6]], gate=par == 2))
                mc.append(C(kind=kind, forked=True, par=2, cap=0, mode="lift", fail=[1, 2], inputs=[[1, 2, 3]], gate=False))
            rnd.append(C(kind=kind, forked=True, par=2, cap=1, mode="try" if kind in ("Map", "FMap") else "pure", pred=[0, 1], fail=[2] if kind in ("Map", "FMap") else [],
                         inputs=[[0, 1, 0, 2, 0, 3]], gate=kind != "Void"))
            for par in (4, 8):
                rnd.append(C(kind=kind, forked=True, par=par, cap=2, mode="try" if kind in ("Map", "FMap") else "pure", pred=[1, 3],
                             fail=[2] if kind in ("Map", "FMap") else [], inputs=[[3, 1, 2, 2, 1, 3, 4, 4]], gate=kind != "Void" and par == 4))
            if kind in ("Map", "FMap"):
                # Lift under parallel workers: only the panic / closure / no-leak clauses apply (PipeProps!Unspecified)
                for par, fail in ((2, [1, 2]), (3, [1, 2, 3]), (3, [2, 3, 4]), (4, [1, 2, 3, 4])):
                    for gate in (False, True):
                        rnd.append(C(kind=kind, forked=True, par=par, cap=par % 2, mode="lift", inputs=[[1, 2, 3, 4]], fail=fail, gate=gate))
                mc.append(C(kind=kind, forked=True, par=2, cap=0, mode="lift", inputs=[[1, 2, 3]], fail=[1, 2], gate=False))
                # a single failure: its error waits in the error channel's buffer whether or not anybody reads it
                for par in (1, 2, 3):
                    rnd.append(C(kind=kind, forked=True, par=par, cap=par % 2, mode="lift", inputs=[[1, 2, 3, 4]], fail=[par], gate=False))
                if kind == "Map":
                    if th:
                        mc.append(C(kind=kind, forked=True, par=3, cap=1, mode="lift", inputs=[[1, 2, 3]], fail=[1, 2, 3], gate=False))
                    gen.append(C(kind=kind, forked=True, par=3, cap=1, mode="lift", inputs=[[1, 2, 3]], fail=[1, 2, 3], gate=False))
    elif pid == "C10":
        # a monoid over a reference type: Empty returns a fresh accumulator, Combine updates its first argument in place
        for par in [1, 2, 3]:
            for ln in (0, 2, 4):
                rnd.append(C(kind="Fold", forked=True, par=par, cap=1, monoid="sumref", inputs=[[2, 3, 4, 5][:ln]], gate=ln == 2))
                # set union over a map-typed (non-comparable) carrier
                rnd.append(C(kind="Fold", forked=True, par=par, cap=1, monoid="orset", inputs=[[1, 2, 4, 3][:ln]], gate=ln == 2))
        for par in [1, 2, 3, 4]:
            for mono in ("sum", "prod", "max", "min", "and", "or"):
                vals = {"and": [6, 5, 3, 7], "or": [1, 2, 4, 1]}.get(mono, [2, 3, 4, 5])
                for ln in range(0, 5):
                    c = C(kind="Fold", forked=True, par=par, cap=1, monoid=mono, inputs=[vals[:ln]], gate=False)
                    if par <= 2 and ln <= 3 and mono in ("prod", "max", "and") or (th and par <= 3 and ln <= 3):
                        mc.append(c)
                    if par <= 2 and ln <= 3 and mono in ("prod", "sum"):
                        gen.append(C(kind="Fold", forked=True, par=par, cap=0 if ln < 3 else 1, monoid=mono, inputs=[vals[:ln]], gate=ln <= 2))
                    rnd.append(c)
                    rnd.append(C(kind="Fold", forked=True, par=par, cap=0, monoid=mono, inputs=[vals[:ln]], gate=True))
                    if ln == 4 and par in (2, 3):
                        # a buffered input closed while elements are still buffered and Combine calls are in flight
                        rnd.append(C(kind="Fold", forked=True, par=par, cap=2 + par % 2, monoid=mono, inputs=[vals + vals[:2]], gate=True))
    return mc, gen, rnd


# ------------------------------------------------------------------------------------------------ TLC: MC and GEN on the I models
MC_TEMPLATE = """---- MODULE %(mod)sMC ----
(* generated by lib/fam_pipe.py: exhaustive model / schedule generator of %(mod)s over the configurations of CFG_FILE *)
EXTENDS %(mod)s, Json, IOUtils
MCIn == JsonDeserialize(IOEnv.CFG_FILE)
Norm(c) == [c EXCEPT !.fail = P!Range(c.fail), !.pred = P!Range(c.pred)]
MCCfgs == {Norm(MCIn.cfgs[i]) : i \\in DOMAIN MCIn.cfgs}
MCQStep == MCIn.qstep
MCMaxT == MCIn.maxt
MCMaxCalls == MCIn.maxcalls
SchedBound == Len(sched) <= MCIn.maxsched
GenEmit == (~ENABLED Lib) => PrintT(ToJson([t |-> "sched", cfg |-> cfg.id, cmds |-> sched]))
====
"""
MODEL_CONST = {"Gen": " MaxT <- MCMaxT\n MaxCalls <- MCMaxCalls\nCONSTRAINT Bounded\n", "Throttle": " MaxT <- MCMaxT\n"}
MODEL_INV = {
    "Stage": STAGE_INV,
    "Gen": {"GenExact": "GenExactInv", "EmitPaced": "EmitPacedInv", "EmitKeepUp": "EmitKeepUpInv", "GenSettle": "GenSettleInv", "Settle2": "Settle2Inv", "LiftCloses": "LiftClosesInv", "GenNoEarlyClose": "GenNoEarlyCloseInv"},
    "Throttle": {"Prefix": "PrefixInv", "Complete": "CompleteInv", "ThrottleWindow": "ThrottleWindowInv", "ThrottlePaced": "ThrottlePacedInv",
                 "Settle1": "Settle1Inv", "Settle2": "Settle2Inv", "NoEarlyClose": "NoEarlyCloseInv"},
    "JoinStage": {"JoinPerInput": "JoinPerInputInv", "JoinNothingInvented": "JoinNothingInventedInv", "JoinComplete": "JoinCompleteInv", "JoinNoStall": "JoinNoStallInv",
                  "Settle1": "Settle1Inv", "Settle2": "Settle2Inv"},
    "Unbound": {"Prefix": "PrefixInv", "NeverBlocksSender": "NeverBlocksSenderInv", "LosslessAfterCancel": "LosslessAfterCancelInv",
                "Complete": "CompleteInv", "Settle1": "Settle1Inv", "NewSettle": "NewSettleInv", "NewDelivers": "NewDeliversInv", "NoPanic": "NoPanicInv", "_": "Conservation"},
}


def model_mc(run, module, pid, cfgs, d, timeout=1500, maxt=6, maxcalls=4, qstep=False, view="View", only=None):
    if not cfgs:
        return
    cfgs = [dict(c, id=i) for i, c in enumerate(cfgs)]
    f = os.path.join(d, "mc_%s_%s.json" % (module, view))
    json.dump({"cfgs": cfgs, "qstep": qstep, "maxt": maxt, "maxcalls": maxcalls, "maxsched": 1000}, open(f, "w"))
    inv = MODEL_INV[module]
    invs = [inv[p] for p in PREDS[pid] if p in inv and (only is None or p in only)] + ([inv["_"]] if "_" in inv else [])
    cfgtxt = "CONSTANTS\n Cfgs <- MCCfgs\n QStep <- MCQStep\n KeepSched = TRUE\n" + MODEL_CONST.get(module, "") + "SPECIFICATION Spec\nVIEW " + view + "\n" + "".join("INVARIANT %s\n" % i for i in invs) + "CHECK_DEADLOCK FALSE\n"
    r = run_tlc(module + "MC", cfgtxt, files=[(module + "MC.tla", MC_TEMPLATE % {"mod": module})], env={"CFG_FILE": f}, timeout=timeout)
    run.add_mc(module + "MC", r, {"configurations": len(cfgs), "invariants": invs, "maxt": maxt, "maxcalls": maxcalls, "qstep": qstep, "view": view})
    log("phase: %sMC %d configurations, %d distinct states, %.1fs (%s, qstep=%s, maxt=%s)" % (module, len(cfgs), r.distinct, r.wall, view, qstep, maxt))
    if r.violated:
        # V2: a counterexample in the model is not a verdict; it must show up on the real code (it will, through GEN/random
        # schedules judged by TRACE-P, if it is real).  Otherwise the model misrepresents the code.
        run.notes.setdefault("mc_counterexamples", []).append({"model": module + "MC", "invariant": r.violated})
        run.mc_violated = r.violated
        log("MC: model %s violates %s (to be confirmed on the real code)" % (module, r.violated))


def model_live(run, module, cfgs, d, prop, timeout=1500, spec="FairSpec"):
    """Liveness under fairness (TLC, no history variable): e.g. cancelled + inputs closed leads to 'all goroutines gone'."""
    cfgs = [dict(c, id=i) for i, c in enumerate(cfgs)]
    f = os.path.join(d, "live_%s_%s.json" % (module, prop))
    json.dump({"cfgs": cfgs, "qstep": False, "maxt": 4, "maxcalls": 3, "maxsched": 1000}, open(f, "w"))
    cfgtxt = "CONSTANTS\n Cfgs <- MCCfgs\n QStep <- MCQStep\n KeepSched = FALSE\n" + MODEL_CONST.get(module, "").replace("CONSTRAINT Bounded\n", "") + "SPECIFICATION " + spec + "\nPROPERTY " + prop + "\nCHECK_DEADLOCK FALSE\n"
    r = run_tlc(module + "MC", cfgtxt, files=[(module + "MC.tla", MC_TEMPLATE % {"mod": module})], env={"CFG_FILE": f}, timeout=timeout)
    run.add_mc(module + "MC(liveness:" + prop + ")", r, {"configurations": len(cfgs), "fairness": spec})
    log("phase: %sMC liveness %s: %d configurations, %d distinct states, %.1fs%s" % (module, prop, len(cfgs), r.distinct, r.wall, " VIOLATED" if r.violated else ""))
    if r.violated:
        raise Infra("model error: %s violates the liveness property %s under fairness" % (module, prop))


def model_gen(run, module, cfgs, d, rng, limit, want_cancel=None, maxt=5, maxcalls=3, maxsched=1000):
    """Schedules from the quiescent-step restriction of the model: one per distinct quiescent state."""
    if not cfgs:
        return []
    cfgs = [dict(c, id=i) for i, c in enumerate(cfgs)]
    f = os.path.join(d, "gen_%s.json" % module)
    json.dump({"cfgs": cfgs, "qstep": True, "maxt": maxt, "maxcalls": maxcalls, "maxsched": maxsched}, open(f, "w"))
    cfgtxt = "CONSTANTS\n Cfgs <- MCCfgs\n QStep <- MCQStep\n KeepSched = TRUE\n" + MODEL_CONST.get(module, "") + "CONSTRAINT SchedBound\nSPECIFICATION Spec\nVIEW View\nINVARIANT GenEmit\nCHECK_DEADLOCK FALSE\n"
    r = run_tlc(module + "MC", cfgtxt, files=[(module + "MC.tla", MC_TEMPLATE % {"mod": module})], env={"CFG_FILE": f}, timeout=1500, workers=4)
    run.add_mc(module + "MC(QStep,GenEmit)", r, {"configurations": len(cfgs)})
    js = r.json_prints("sched")
    log("phase: %sMC(QStep) %d configurations, %d distinct states, %d schedules, %.1fs" % (module, len(cfgs), r.distinct, len(js), r.wall))
    if not js:
        raise Infra(module + "MC printed no schedules")
    out = []
    for j in js:
        cmds = j["cmds"]
        has_cancel = any(c["c"] == "cancel" for c in cmds)
        if want_cancel is not None and has_cancel != want_cancel:
            continue
        c = dict(cfgs[j["cfg"]])
        c.pop("id", None)
        out.append({"cfg": c, "cmds": cmds, "origin": "tlc-gen"})
    run.notes["gen_schedules_printed"] = run.notes.get("gen_schedules_printed", 0) + len(js)
    if len(out) > limit:
        # keep the longest ones (they subsume their prefixes window by window) plus a seeded sample of the rest
        out.sort(key=lambda s: -len(s["cmds"]))
        head, rest = out[: limit // 2], out[limit // 2:]
        out = head + rng.sample(rest, limit - len(head))
    return out


QUEUE_CFG = """CONSTANTS
 Nodes = {%s}
 Vals = {1, 2}
 MaxLen = %d
SPECIFICATION Spec
INVARIANT Refines
INVARIANT HeadValue
INVARIANT EmptyIff
INVARIANT TailIsLast
INVARIANT PoolDisjoint
CHECK_DEADLOCK FALSE
"""


def queue_mc(run, th):
    """pipe/queue.go (linked nodes + pool) refines the sequence used by Unbound.tla."""
    n, m = (5, 4) if th else (4, 3)
    r = run_tlc("Queue", QUEUE_CFG % (",".join(str(i) for i in range(1, n + 1)), m), timeout=900)
    run.add_mc("Queue", r, {"nodes": n, "maxlen": m})
    if r.violated:
        raise Infra("model error: Queue.tla violates " + r.violated)


def stage_mc(run, pid, cfgs, d, timeout=1500):
    return model_mc(run, "Stage", pid, cfgs, d, timeout)


def stage_gen(run, cfgs, d, rng, limit, want_cancel=None):
    return model_gen(run, "Stage", cfgs, d, rng, limit, want_cancel)


# ------------------------------------------------------------------------------------------------ the check
def check(run, replay=None):
    pid, th = run.pid, run.tier == "thorough"
    rng = random.Random(run.seed * 7919 + int(pid[1:]))
    run.mc_violated = None
    pipe_run.EXERCISED.clear()
    import trace_i
    del trace_i.INCONCLUSIVE[:]
    del pipe_run.HUNG[:]
    binp = pipe_run.build()
    with Scratch() as d:
        if replay:
            return do_replay(run, binp, replay, d)
        scheds = []
        mc, gen, rnd = stage_cfgs(pid, run.tier, rng)
        nrand = {"quick": 12, "thorough": 50}[run.tier]
        glimit = {"quick": 1500, "thorough": 8000}[run.tier]
        if pid == "C06":
            nrand, glimit = (30, 6000) if th else (8, 1000)      # the property with the most stages: quick near a minute, thorough near ten
        grng = random.Random(rng.random())
        # (1) exhaustive model checking of the I models against the P predicates and (2) schedule generation: independent TLC runs
        tasks = [lambda: stage_mc(run, pid, [dict(c) for c in mc], d)]
        want = {"C05": False, "C07": False}.get(pid)
        tasks.append(lambda: stage_gen(run, [dict(c) for c in gen], d, grng, glimit, want_cancel=want))
        ucfgs = []
        if pid == "C08":
            ucfgs = [C(kind="New", cap=cap, inputs=[list(range(1, (9 if th else 4) - (1 if cap == 3 else 0)))]) for cap in ([0, 1, 2, 3, 4] if th else [0, 1, 2, 3])]
            urng = random.Random(rng.random())
            tasks.append(lambda: model_mc(run, "Unbound", pid, ucfgs, d))
            tasks.append(lambda: queue_mc(run, th))
            tasks.append(lambda: model_gen(run, "Unbound", ucfgs, d, urng, glimit))
        # liveness under fairness on small configurations of the models (no history variable)
        if pid == "C06":
            lcf = [C(kind=k, cap=c, mode="try" if k in ("Map", "FMap") else "pure", inputs=[[1, 2]] if not th else [[1, 2, 3]], fail=[2] if k in ("Map", "FMap") else [],
                     pred=[1], n=1, monoid="digits9", gate=g) for k in SEQ_KINDS for c in (0, 1) for g in (False, True) if not (g and k in ("Take", "Void"))]
            lcf.append(C(kind="Map", cap=1, mode="lift", inputs=[[1, 2]], fail=[1], stderr=True))
            tasks.append(lambda: model_live(run, "Stage", lcf, d, "EventuallyGone"))
        if pid == "C09":
            lcf = [C(kind=k, forked=True, par=2, cap=c, mode="try" if k in ("Map", "FMap") else "pure", inputs=[[1, 2]], fail=[2] if k in ("Map", "FMap") else [], pred=[1], gate=(c == 0 and k != "Void"))
                   for k in ("Map", "FMap", "Filter", "Partition", "ForEach", "Void") for c in (0, 1)]
            tasks.append(lambda: model_live(run, "Stage", lcf, d, "EventuallyGone"))
        if pid == "C08":
            tasks.append(lambda: model_live(run, "Unbound", [C(kind="New", cap=c, inputs=[[1, 2, 3]] if not th else [[1, 2, 3, 4]]) for c in (0, 1, 2)], d, "EventuallyClosed"))
        if pid in ("C06", "C12"):
            # (the output buffer holds one value per input: three values per input make the forwarders wait on it)
            jl = [C(kind="Join", cap=c, inputs=[[100 * (i + 1) + k for k in range(1, m + 1)] for i in range(n)]) for c in (0, 1)
                  for (n, m) in (((1, 3), (2, 2), (2, 3)) if th else ((1, 3), (2, 2)))]      # ((3, 2): more than 400 s per capacity - measured; left out)
            tasks.append(lambda: model_live(run, "JoinStage", jl, d, "EventuallyGone"))
            if pid == "C12":
                tasks.append(lambda: model_live(run, "JoinStage", jl, d, "EventuallyClosed", spec="FairRecvSpec"))
        if pid in ("C06", "C13"):
            tl = [C(kind="Throttling", cap=c, ops=o, interval=2, inputs=[[1, 2] if not th else [1, 2, 3]]) for c in (0, 1) for o in (1, 2)]
            tasks.append(lambda: model_live(run, "Throttle", tl, d, "EventuallyGone"))
        ntl = len(tasks)
        if pid in ("C06", "C07", "C11", "C12", "C13"):
            tasks += clocked_models(run, pid, th, d, rng)
        res = par(tasks)
        g = res[1] or []
        if pid == "C05":
            scheds += [dict(s, epilogue="drain") for s in g]
            scheds += rand_scheds(rnd, rng, nrand, ["drain", "closewait"], weights=dict(send=4, close=1, recv=4, cancel=0, release=4, advance=0, burst=2))
            scheds += rand_scheds(pipeline_cfgs(rng, 200 if th else 40), rng, 3, ["drain", "closewait", "drain"], weights=dict(send=4, close=1, recv=4, cancel=0, release=0, advance=1, burst=1))
            scheds += special_scheds(pid, th, rng)
        elif pid == "C06":
            for s in g:
                scheds.append(dict(s, epilogue="cancel"))
            scheds += [dict(s, epilogue="closewait") for s in g if rng.random() < 0.25]
            scheds += rand_scheds(rnd + other_cfgs("C06", th, rng), rng, nrand, ["cancel", "closewait", "drain", "cancel-keepup"])
            scheds += rand_scheds(pipeline_cfgs(rng, 100 if th else 40), rng, 3, ["cancel", "cancel", "closewait"])
            scheds += special_scheds(pid, th, rng)
        elif pid == "C07":
            scheds += [dict(s, epilogue="drain") for s in g]
            scheds += rand_scheds(rnd + other_cfgs("C07", th, rng), rng, nrand, ["drain", "closewait"], weights=dict(send=4, close=1, recv=4, cancel=0, release=4, advance=1, burst=2))
            scheds += special_scheds(pid, th, rng)
        elif pid in ("C09", "C10"):
            for s in g:
                has_cancel = any(c["c"] == "cancel" for c in s["cmds"])
                if pid == "C10" and has_cancel:
                    continue
                scheds.append(dict(s, epilogue="cancel" if has_cancel else "drain"))
            w = dict(send=4, close=1, recv=4, cancel=(0 if pid == "C10" else 1), release=4, advance=0, burst=2)
            scheds += rand_scheds(rnd, rng, nrand, ["drain", "closewait"] + (["cancel"] if pid == "C09" else []), weights=w)
            scheds += special_scheds(pid, th, rng)
        elif pid == "C08":
            for s in res[4]:
                ended = any(c["c"] in ("cancel", "close") for c in s["cmds"])
                scheds.append(dict(s, epilogue="closewait" if ended else "cancel"))
                if not ended:
                    scheds.append(dict(s, epilogue="closewait"))
            scheds += rand_scheds(other_cfgs(pid, th, rng), rng, nrand * 3, ["cancel", "closewait", "drain"])
            scheds += special_scheds(pid, th, rng)
        else:
            scheds += rand_scheds(other_cfgs(pid, th, rng), rng, nrand * 3, {"C11": ["cancel", "drain", "cancel-keepup"],
                                  "C12": ["drain", "closewait", "cancel"], "C13": ["drain", "closewait", "cancel"]}[pid])
            scheds += special_scheds(pid, th, rng)
        for r in res[ntl:]:
            if isinstance(r, list):
                scheds += r
        scheds += variations(scheds, rng, 1500 if th else 400)
        if not scheds:
            raise Infra("no schedules for " + pid)
        # (3) execute on the real code, (4) judge
        import time
        t0 = time.time()
        traces = pipe_run.run_schedules(binp, scheds, d, tag="x")
        t1 = time.time()
        # (4) TRACE-P judges (the verdict) and, concurrently, (5) TRACE-I: the recorded executions must be behaviours of the
        # implementation-shaped models (the binding; a rejection is SPEC-DRIFT, not a verdict)
        brng = random.Random(rng.random())
        (viols, results), bound = par([lambda: pipe_run.judge(traces, d), lambda: bind_all(traces, d, brng, th)], 2)
        log("phase: %d schedules executed in %.1fs, judged + bound in %.1fs" % (len(scheds), t1 - t0, time.time() - t1))
        for r in results:
            run.add_mc("PipeTraceP", r, {"traces": "batch"})
        run.traces += len(traces)
        report(run, pid, scheds, traces, viols)
        ex = {k: v for k, v in sorted(pipe_run.EXERCISED.items()) if k in PREDS[pid]}
        run.notes["executions_in_which_the_antecedent_held"] = ex
        conditional = {"Complete", "Settle1", "Settle2", "LiftCloses", "TakeBound", "FoldRes", "NeverBlocksSender", "NewDelivers", "LosslessAfterCancel", "GenStops", "EmitPaced",
                       "EmitKeepUp", "JoinComplete", "ThrottleWindow", "ThrottlePaced", "PipeComplete", "PipeGen"}
        vac = [p for p in PREDS[pid] if p in conditional and not ex.get(p)]
        log("phase: antecedents held: %s%s" % (ex, (" ; NEVER exercised in this run: %s" % vac) if vac else ""))
        run.notes["predicates_never_exercised"] = vac
        for model, (sample, acc, rej, bres) in bound.items():
            for r in bres:
                run.add_mc(model + "TraceI", r, {"traces": "batch"})
            import trace_i
            inc = sum(n for m, n in trace_i.INCONCLUSIVE if m == model)
            run.notes.setdefault("trace_I", {})[model] = {"validated": len(sample) - inc, "accepted": acc, "rejected": len(rej), "inconclusive_timeout": inc}
            for i, hw in rej[:10]:
                t = sample[i]
                run.drift.append("trace=%s/%s at=window %d (%s): the model %s cannot explain %s with snapshot %s" % (
                    ("fork." if t["cfg"]["forked"] else "pipe.") + t["cfg"]["kind"], t.get("origin"), hw + 1,
                    cmd_str(t["wins"][hw]["cmd"]) if hw < len(t["wins"]) else "-", model, json.dumps(t["wins"][hw]["done"])[:200] if hw < len(t["wins"]) else "", json.dumps(t["wins"][hw]["q"]) if hw < len(t["wins"]) else ""))
            log("phase: TRACE-I %s: %d traces, %d accepted, %d rejected" % (model, len(sample), acc, len(rej)))
        stress_pass(run, pid, binp, scheds, d, random.Random(rng.random()), th)
        if pid in ("C09", "C10", "C12", "C13"):
            # the stages with more than one library goroutine touching shared state: the same schedules under the race detector
            race_pass(run, scheds, d, rng, th)
        kinds = collections.Counter((t["cfg"]["kind"], t.get("origin", "")) for t in traces)
        run.notes["executions_by_kind_and_origin"] = {"%s/%s" % k: v for k, v in sorted(kinds.items())}
        run.notes["windows_judged"] = sum(len(t["wins"]) for t in traces)
        for t in traces[:: max(1, len(traces) // 4)][:4]:
            run.sample({"cfg": {k: v for k, v in t["cfg"].items() if v not in (0, [], False, "")}, "origin": t.get("origin"),
                        "commands": [cmd_str(w["cmd"]) for w in t["wins"][1:]][:30]})
        if pipe_run.HUNG:
            # second opinion outside the bubble, on the real scheduler and the real clock: the configuration of (two of) the
            # schedules that never came to rest, with consumers that keep receiving; at rest = nothing observable for 30 s
            ft = []
            for hs in [h for h in pipe_run.HUNG if h["cfg"]["kind"] != "Pipeline" and not h.get("not_run")][:1]:
                for variant in ("drain", "cancel", "closecancel"):
                    ft.append(pipe_run.run_free(binp, hs, variant, d, tag="free%d" % len(ft)))
            if ft:
                fv, fres = pipe_run.judge(ft, d, tag="jf")
                for r in fres:
                    run.add_mc("PipeTraceP", r, {"traces": "free runs"})
                run.traces += len(ft)
                report(run, pid, None, ft, fv)
                run.notes["free_runs_of_hung_schedules"] = len(ft)
            run.notes["hung_schedules"] = len(pipe_run.HUNG)
            log("phase: %d schedule(s) never came to rest (library goroutine spinning?): e.g. %s" % (len(pipe_run.HUNG), json.dumps(pipe_run.HUNG[0]["cfg"])[:300]))
            if not run.violations and not run.known_hits:
                raise Infra("%d schedule(s) hung (the library never became quiescent) and no execution violated a predicate; first: %s" % (len(pipe_run.HUNG), json.dumps(pipe_run.HUNG[0])[:600]))
        if run.mc_violated and not run.violations and not run.known_hits:
            raise Infra("model error: the I model violates %s but no execution of the real code does" % run.mc_violated)
        run.exhaustive = True
        run.assumptions += ["statement-level atomicity of goroutine steps between blocking points (Go memory model; the race detector covers C09's data-race clause)",
                            "testing/synctest quiescence = no library step enabled"]


def clocked_models(run, pid, th, d, rng):
    """MC + GEN on the models of the stages outside Stage.tla: Gen (Emit, Unfold), JoinStage, Throttle.
    Returns (tasks, collect): independent TLC runs and a function turning their results into schedules."""
    lim = 4000 if th else (300 if pid == "C06" else 500)
    tasks, post = [], []
    if pid in ("C06", "C07", "C11"):
        modes = (("pure", []), ("try", [1]), ("lift", [1])) if pid != "C07" else (("try", [0, 2]), ("try", [1]), ("lift", [1]), ("lift", [0]))
        caps = (0, 1, 2) if th else (0, 1)
        g = [C(kind="Emit", cap=c, freq=f, mode=m, fail=fl, gate=gt) for c in caps for f in (1, 2) for (m, fl) in modes for gt in ((False, True) if th or pid == "C06" else (False,))]
        g += [C(kind="Unfold", cap=c, step=st, seed=1, mode=m, fail=fl, gate=gt) for c in caps for st in ("succ", "double", "const")
              for (m, fl) in ((("pure", []), ("lift", [3]), ("lift", [1]), ("try", [2])) if pid != "C07" else (("lift", [3]), ("lift", [1]), ("lift", [2]))) for gt in (False, True)]
        if pid == "C06":
            g += [C(kind="Emit", cap=1, freq=1, mode="try", fail=[1], stderr=True), C(kind="Unfold", cap=0, step="succ", seed=1, mode="lift", fail=[2], stderr=True)]
        g3 = [c for c in g if c["cap"] < 2 and not c["gate"]]
        sub = [c for c in g if c["cap"] < 2 and (c["kind"] == "Emit" or c["step"] != "const")]
        sub = rng.sample(sub, min(len(sub), 16 if th else 8))
        r1 = random.Random(rng.random())
        tasks.append(lambda: model_mc(run, "Gen", pid, g, d, maxt=5 if th else 4, maxcalls=3, qstep=True, view="ViewLite", only=["GenExact", "EmitPaced", "GenSettle", "LiftCloses", "GenNoEarlyClose"]))
        tasks.append(lambda: model_mc(run, "Gen", pid, g3[:24] if th else g3[:10], d, maxt=4 if th else 3, maxcalls=3, qstep=True))
        tasks.append(lambda: [dict(x, epilogue="cancel") for x in model_gen(run, "Gen", sub, d, r1, lim, maxt=4 if th else 3, maxcalls=3 if th else 2, maxsched=10 if th else 8)])
    if pid in ("C06", "C12"):
        j = [C(kind="Join", cap=c, inputs=[[100 * (i + 1) + k for k in (1, 2)] for i in range(n)]) for c in (0, 1) for n in (0, 1, 2)]
        if th:
            j += [C(kind="Join", cap=c, inputs=[[100 * (i + 1) + 1] for i in range(3)]) for c in (0, 1)]
        r2 = random.Random(rng.random())

        def jgen():
            out = []
            for x in model_gen(run, "JoinStage", j, d, r2, lim * 2):
                has_cancel = any(c["c"] == "cancel" for c in x["cmds"])
                out.append(dict(x, epilogue="cancel" if has_cancel or pid == "C06" else "closewait"))
            return out
        tasks.append(lambda: model_mc(run, "JoinStage", pid, j, d))
        tasks.append(jgen)
    if pid in ("C06", "C13"):
        t = [C(kind="Throttling", cap=c, ops=o, interval=iv, inputs=[[1, 2, 3, 4]]) for c in (0, 1) for o in (1, 2) for iv in ((2, 3) if th else (2,))]
        t3 = [dict(c, inputs=[[1, 2, 3]]) for c in t[: (4 if th else 2)]]
        r3 = random.Random(rng.random())
        tasks.append(lambda: model_mc(run, "Throttle", pid, t, d, maxt=6 if th else 5, qstep=True, view="ViewLite", only=["Prefix", "Complete", "ThrottleWindow"]))
        tasks.append(lambda: model_mc(run, "Throttle", pid, t3, d, maxt=5 if th else 4, qstep=True))
        tasks.append(lambda: [dict(x, epilogue="cancel" if pid == "C06" else "drain") for x in model_gen(run, "Throttle", t3[:2], d, r3, lim, maxt=4, maxsched=12 if th else 10)])
    return tasks


def bind_all(traces, d, rng, th):
    import trace_i
    out = {}
    for model in trace_i.MODELS:
        cand = [t for t in traces if trace_i.eligible(model, t)]
        lim = 600 if th else 100
        sample = cand if len(cand) <= lim else rng.sample(cand, lim)
        if sample:
            acc, rej, res = trace_i.bind(model, sample, d)
            out[model] = (sample, acc, rej, res)
    return out


def cmd_str(c):
    s = c["c"]
    if s == "burst":
        return "burst[" + ", ".join(cmd_str(x) for x in c.get("sub", [])) + "]"
    if s in ("send", "close"):
        s += " in%d" % c["i"] + ("=%d" % c["v"] if c.get("v") else "")
    elif s in ("recv", "recvall"):
        s += " " + c["o"]
    elif s == "release":
        s += " x=%d" % c["x"]
    elif s == "advance":
        s += " %d" % c["d"]
    return s


def pipeline_cfgs(rng, n):
    """Spec growth: pipelines of 2-4 stages (Map, FMap, Filter, Take, TakeWhile, Throttling, Fold last; sequential or forked)."""
    out = []
    for _ in range(n):
        k = rng.randint(2, 4)
        vals = [1, 2, 3, 4, 5, 6]
        stages, mono, par_seen = [], True, False
        cur = set(vals)
        for i in range(k):
            last = i == k - 1
            kinds = ["Map", "Filter", "FMap", "Take", "TakeWhile"] + (["Fold"] if last else []) + (["Throttling"] if rng.random() < 0.2 else [])
            if par_seen:
                kinds = [x for x in kinds if x not in ("Take", "TakeWhile")]      # which elements survive would depend on the race
            kind = rng.choice(kinds)
            forked = kind in ("Map", "Filter", "FMap", "Fold") and rng.random() < 0.3
            par = rng.randint(2, 3) if forked else 1
            st = dict(kind=kind, forked=forked, par=par, mode="pure")
            dom = sorted(cur)
            if kind == "Map":
                st["mode"] = rng.choice(["pure", "try"])
                st["fail"] = sorted(rng.sample(dom, min(len(dom), rng.randint(0, 2)))) if st["mode"] == "try" else []
                cur = {10 * x for x in cur if x not in st["fail"]}
            elif kind == "FMap":
                st["mode"] = "try"
                st["fail"] = sorted(rng.sample(dom, min(len(dom), rng.randint(0, 1))))
                cur = {y for x in cur if x not in st["fail"] for y in ([] if x % 3 == 0 else [10 * x, 10 * x + 1] if x % 2 == 1 else [10 * x])}
            elif kind in ("Filter", "TakeWhile"):
                st["pred"] = sorted(rng.sample(dom, rng.randint(0, len(dom)))) if dom else []
                cur = {x for x in cur if x in st["pred"]}
            elif kind == "Take":
                st["n"] = rng.randint(0, 4)
            elif kind == "Fold":
                st["monoid"] = "sum" if par_seen or forked else rng.choice(["sum", "digits9"])
            elif kind == "Throttling":
                st["ops"], st["interval"] = rng.randint(1, 2), rng.randint(1, 2)
            par_seen = par_seen or (forked and par > 1)
            if max(cur, default=0) > 10 ** 6:
                break
            stages.append(st)
        out.append(C(kind="Pipeline", cap=rng.randint(0, 2), inputs=[vals[: rng.randint(0, 6)]], stages=stages))
    # the README's quick example: Unfold |> TakeWhile |> Map |> Map (|> Fold), fed by the generator, cut by TakeWhile / Take
    for cap in (0, 1, 2):
        for cut in (dict(kind="TakeWhile", pred=[1, 2, 3, 4, 5]), dict(kind="Take", n=4)):
            st = [cut, dict(kind="Map", mode="pure"), dict(kind="Map", mode="pure")]
            out.append(C(kind="Pipeline", cap=cap, inputs=[], seed=1, step="succ", stages=st))
            out.append(C(kind="Pipeline", cap=cap, inputs=[], seed=1, step="succ", stages=st + [dict(kind="Fold", monoid="sum")]))
            out.append(C(kind="Pipeline", cap=cap, inputs=[], seed=1, step="double", stages=[dict(kind="Filter", pred=[2, 8, 32, 128]), dict(kind="Take", n=3), dict(kind="FMap", mode="try", fail=[8])]))
    return out


def rand_scheds(cfgs, rng, per_cfg, epilogues, weights=None):
    out = []
    for c in cfgs:
        for k in range(per_cfg):
            out.append({"cfg": c, "cmds": [], "random": {"seed": rng.randrange(1 << 30), "steps": rng.randint(3, 24), "weights": weights},
                        "epilogue": epilogues[k % len(epilogues)], "origin": "random"})
    return out


def variations(scheds, rng, n):
    """The same schedules over other element types (cfg.elem: pointers with nil, interface values with nil and typed
    contents, a non-comparable multi-word struct) and next to another instance of the same stage in the same process
    (cfg.twin: one that ran to completion before - with its own or with the same context - or one that is offered the same
    values at the same moments).  The observation is unchanged, so every predicate applies as it stands."""
    groups = {}
    for s in scheds:
        c = s["cfg"]
        if c["kind"] != "Pipeline":
            groups.setdefault((c["kind"], c["forked"], c["mode"], s.get("origin") == "random"), []).append(s)
    for g in groups.values():
        rng.shuffle(g)
    out, keys = [], sorted(groups)

    def zeroed(c):
        # the zero value of the element type (a nil pointer, the nil interface) takes the place of one value
        if not (c["inputs"] and c["inputs"][0]):
            return c
        z = c["inputs"][0][0]
        sub = lambda xs: [0 if x == z else x for x in xs]
        return dict(c, inputs=[sub(i) for i in c["inputs"]], fail=sub(c["fail"]), pred=sub(c["pred"]))

    def add(s, c):
        out.append(dict(s, cfg=c, origin=s.get("origin", "") + "+" + "/".join(x for x in (c.get("elem"), c.get("twin")) if x)))
    # first every stage kind over every element type, with the zero value among the elements, and next to each kind of twin
    for k in keys:
        if k[3]:
            for elem in ("ptr", "iface", "box"):
                if groups[k] and k[0] != "Fold":
                    s = groups[k].pop()
                    add(s, dict(zeroed(s["cfg"]), elem=elem))
            for twin in ("prelude", "prelude-ctx", "prelude-f", "mirror"):
                if groups[k]:
                    s = groups[k].pop()
                    add(s, dict(s["cfg"], twin=twin))
    while len(out) < n and any(groups.values()):
        for k in keys:
            if not groups[k] or len(out) >= n:
                continue
            s = groups[k].pop()
            c = dict(s["cfg"])
            r = rng.random()
            if c["kind"] != "Fold" and r < 0.6:
                if s.get("origin") == "random" and rng.random() < 0.6:
                    c = zeroed(c)
                c["elem"] = rng.choice(["ptr", "iface", "box"])
            if r >= 0.4 or c["kind"] == "Fold":
                c["twin"] = rng.choice(["prelude", "prelude-ctx", "prelude-f", "mirror", "mirror"])
            add(s, c)
    return out


def other_cfgs(pid, th, rng):
    """Configurations of the stages outside the Stage model (Emit, Unfold, Join, Throttling, New)."""
    out = []
    if pid in ("C06", "C11", "C07"):
        for cap in [0, 1, 2]:
            for freq in [1, 2]:
                for mode, fail in (("pure", []), ("try", [1, 3]), ("lift", [2])):
                    if pid == "C07" and mode == "pure":
                        continue
                    out.append(C(kind="Emit", cap=cap, freq=freq, mode=mode, fail=fail, gate=False))
                    if cap == 1 and mode == "pure":
                        out.append(C(kind="Emit", cap=cap, freq=freq, mode=mode, fail=fail, gate=False, unit_ns=19000003))
                        out.append(C(kind="Emit", cap=cap, freq=freq, mode=mode, fail=fail, gate=False, unit_ns=100003))
                    if cap < 2:
                        out.append(C(kind="Emit", cap=cap, freq=freq, mode=mode, fail=fail, gate=True))
            for step in ("succ", "double", "const"):
                out.append(C(kind="Unfold", cap=cap, step=step, seed=1, mode="pure", gate=False))
                out.append(C(kind="Unfold", cap=cap, step=step, seed=0, mode="pure", gate=False))
                out.append(C(kind="Unfold", cap=cap, step=step, seed=1, mode="lift", fail=[4], gate=True))
                if pid != "C07":
                    out.append(C(kind="Unfold", cap=cap, step=step, seed=1, mode="try", fail=[2, 3, 103], gate=False))
        if pid == "C07":
            out = [c for c in out if c["mode"] != "pure" and not (c["kind"] == "Unfold" and c["mode"] != "lift")]
    if pid in ("C06", "C12"):
        for k in [0, 1, 2, 3]:
            for cap in [0, 1]:
                out.append(C(kind="Join", cap=cap, inputs=[[100 * (i + 1) + j for j in range(1, 3 + (1 if th else 0))] for i in range(k)]))
                if k == 3:
                    # wide joins
                    for kk in (5, 6, 9):
                        out.append(C(kind="Join", cap=cap, inputs=[[100 * (i + 1) + j for j in range(1, 3)] for i in range(kk)]))
                if k >= 1:
                    # the same channel handed to Join more than once
                    out.append(C(kind="Join", cap=cap, inputs=[[100 * (i + 1) + j for j in range(1, 4)] for i in range(k)], dup=[0] if k < 3 else [0, 2]))
    if pid in ("C06", "C13"):
        for ops in [1, 2, 3]:
            for iv in [2, 3]:
                for cap in [0, 1, 2]:
                    out.append(C(kind="Throttling", cap=cap, ops=ops, interval=iv, inputs=[list(range(1, 9))]))
                    if cap == 1:
                        # sub-millisecond and odd units of time (the interval is iv units of 100.003 us / 25.007 ms)
                        out.append(C(kind="Throttling", cap=cap, ops=ops, interval=iv, inputs=[list(range(1, 9))], unit_ns=100003))
                        out.append(C(kind="Throttling", cap=cap, ops=ops, interval=iv, inputs=[list(range(1, 9))], unit_ns=25007000))
                    if ops == 2:
                        out.append(C(kind="Throttling", cap=cap, ops=ops, interval=iv, inputs=[[0, 0, 1, 1, 0, 2]]))
    if pid == "C08":
        for cap in [0, 1, 2, 3]:
            out.append(C(kind="New", cap=cap, inputs=[list(range(1, 7))]))
            out.append(C(kind="New", cap=cap, inputs=[[0, 0, 1, 1, 0, 2, 2, 0]]))
    # fork.Emit / Unfold / Join / Throttling delegate to pipe (through the fork.F -> pipe.F conversion): same expectations.
    # One forked copy of the first configuration of every (kind, mode, gate) group, plus a seeded quarter of the rest.
    seen_groups, extra = set(), []
    for c in out:
        g = (c["kind"], c["mode"], c["gate"])
        if c["kind"] != "New" and g not in seen_groups:
            seen_groups.add(g)
            extra.append(dict(c, forked=True))
    out = [dict(c, forked=True) if c["kind"] != "New" and rng.random() < 0.2 else c for c in out] + extra
    return out


def special_scheds(pid, th, rng):
    """Hand-shaped drivers the statements single out: saturation / idle-then-burst (C13), keep-up consumer (C11),
    backlog draining to empty and refilling (C08)."""
    out = []
    S, R, A = (lambda i=0: {"c": "send", "i": i}), (lambda o="out": {"c": "recv", "o": o}), (lambda d: {"c": "advance", "d": d})
    B = lambda *cs: {"c": "burst", "sub": list(cs)}
    if pid == "C13":
        for ops in [1, 2, 3]:
            for iv in [2, 3]:
                n = 7
                # saturation: input pre-filled (capacity = n), consumer re-issues its receive at once
                cmds = [S() for _ in range(n)] + [{"c": "recvall", "o": "out", "d": n}] + [A(1) for _ in range(iv * (n // ops + 2))]
                out.append({"cfg": C(kind="Throttling", cap=n, ops=ops, interval=iv, inputs=[list(range(1, n + 1))]), "cmds": cmds, "epilogue": "drain", "origin": "saturation"})
                # the same with the input arriving through a small buffer (the producer is always waiting to send)
                cmds = [{"c": "recvall", "o": "out", "d": n}] + [x for _ in range(n) for x in (S(),)] + [A(1) for _ in range(iv * (n // ops + 2))]
                out.append({"cfg": C(kind="Throttling", cap=n, ops=ops, interval=iv, inputs=[list(range(1, n + 1))]), "cmds": [{"c": "burst", "sub": cmds[1:n + 1] + cmds[:1]}] + cmds[n + 1:], "epilogue": "drain", "origin": "saturation"})
                for cap in [0, 1, 2]:
                    # idle period, then a burst: the worst case of the window bound
                    for idle in [iv, 2 * iv, 3 * iv + 1]:
                        cmds = [A(idle)] + [x for _ in range(8) for x in (S(), R())] + [A(1), R(), A(iv), R(), R()]
                        out.append({"cfg": C(kind="Throttling", cap=cap, ops=ops, interval=iv, inputs=[list(range(1, 9))]), "cmds": cmds, "epilogue": "drain", "origin": "idle-burst"})
                        cmds = [S(), S(), S(), A(idle), R(), R(), R(), S(), R(), S(), R(), S(), R(), A(1), R(), S(), R()]
                        out.append({"cfg": C(kind="Throttling", cap=cap, ops=ops, interval=iv, inputs=[list(range(1, 9))]), "cmds": cmds, "epilogue": "drain", "origin": "idle-burst"})
        # larger batches: an idle period that starts in the middle of a batch, then a burst (tokens not taken must not add up)
        for ops in (4, 5):
            for cap in (0, 1):
                for used in (1, 2):
                    n = 4 * ops
                    cmds = [x for _ in range(used) for x in (S(), R())] + [A(7), {"c": "recvall", "o": "out", "d": n}] + [S()] * (n - used) + [A(1)] * 8
                    out.append({"cfg": C(kind="Throttling", cap=cap, ops=ops, interval=3, inputs=[list(range(1, n + 1))]), "cmds": cmds, "epilogue": "drain", "origin": "idle-burst"})
    if pid == "C11":
        for cap in [0, 1, 2]:
            for freq in [1, 2, 3]:
                cmds = [R()] + [x for _ in range(6) for x in (A(freq), R())]
                out.append({"cfg": C(kind="Emit", cap=cap, freq=freq, mode="pure"), "cmds": cmds, "epilogue": "cancel", "origin": "keep-up"})
                cmds = [{"c": "recvall", "o": "out", "d": 6}] + [A(1) for _ in range(7 * freq)]
                out.append({"cfg": C(kind="Emit", cap=cap, freq=freq, mode="pure"), "cmds": cmds, "epilogue": "cancel", "origin": "keep-up"})
                # a consumer that stalls for several ticks and then reads quickly: f must still not be called twice within one tick
                for stall in (3 * freq + 1, 2 * freq + 1, 5 * freq):
                    cmds = [A(stall), R(), R(), A(1), R(), R(), A(freq), R(), A(freq), R()]
                    out.append({"cfg": C(kind="Emit", cap=cap, freq=freq, mode="pure"), "cmds": cmds, "epilogue": "cancel", "origin": "slow-consumer"})
                    cmds = [R("exx"), A(stall), R(), R("exx"), R(), A(1), R(), R("exx"), R(), A(freq), R(), R("exx")]
                    out.append({"cfg": C(kind="Emit", cap=cap, freq=freq, mode="try", fail=[1, 4]), "cmds": cmds, "epilogue": "cancel", "origin": "slow-consumer"})
    B = lambda *cs: {"c": "burst", "sub": list(cs)}
    if pid in ("C05", "C06"):
        # a late consumer: the producer pushes bursts of elements that all go to the same output while nobody receives, then the
        # consumer drains (order and completeness must survive whatever the stage does with a full output)
        for kind in ("Partition", "Filter", "Map", "FMap", "TakeWhile", "Take"):
            for cap in (1, 2, 3):
                n = 4 * cap + 2
                vals = list(range(1, n + 1))
                cfg = C(kind=kind, cap=cap, mode="pure", inputs=[vals], pred=vals[:-1], n=n - 1)
                cmds = [B(*([S()] * cap)) for _ in range(4)] + [S(), S()]
                for rep in range(2):
                    out.append({"cfg": cfg, "cmds": cmds, "epilogue": "drain" if pid == "C05" else "cancel", "origin": "late-consumer"})
                    out.append({"cfg": cfg, "cmds": cmds[:2] + [R()] + cmds[2:4] + [R(), R()], "epilogue": "drain", "origin": "late-consumer"})
    if pid == "C10":
        # an input longer than any plausible internal batch size (1100 elements), sent in bursts through a buffered channel
        for par in (1, 2):
            n = 1100
            cmds = [B(*([S()] * 50)) for _ in range(n // 50)] + [{"c": "close", "i": 0}, R("res"), R("res")]
            out.append({"cfg": C(kind="Fold", forked=True, par=par, cap=50, monoid="sum", inputs=[[1 + (i % 3) for i in range(n)]]), "cmds": cmds, "epilogue": "drain", "origin": "long-input"})
        # a backlog larger than any plausible internal batch, buffered and closed before the (held) first Combine returns
        for par in (1, 2):
            n = 70 * (par + 2)
            cmds = [B(*([S()] * n + [{"c": "close", "i": 0}]))] + [{"c": "release", "x": -1}] * (n + 2 * par + 2) + [R("res"), R("res")]
            out.append({"cfg": C(kind="Fold", forked=True, par=par, cap=n, monoid="sum", inputs=[[1 + (i % 5) for i in range(n)]], gate=True), "cmds": cmds, "epilogue": "drain", "origin": "long-backlog"})
        # more workers than any plausible fixed-size table of partial results, every one of them held inside Combine at once
        for par in (33, 40, 70):
            n = 2 * par + 3
            cmds = [B(*([S()] * n + [{"c": "close", "i": 0}]))] + [B(*([{"c": "release", "x": -1}] * par)) for _ in range(6)] + [{"c": "release", "x": -1}] * 8 + [R("res"), R("res")]
            out.append({"cfg": C(kind="Fold", forked=True, par=par, cap=n, monoid="sum", inputs=[[1 + (i % 7) for i in range(n)]], gate=True), "cmds": cmds, "epilogue": "drain", "origin": "many-workers"})
        # workers held inside Combine while the rest of the input sits in the buffer and the input is closed; then every order of release
        rel = lambda x: {"c": "release", "x": x}
        for mono, vals in (("prod", [2, 3, 4, 5, 6]), ("min", [5, 4, 3, 2, 6]), ("and", [7, 6, 5, 3, 7]), ("max", [2, 3, 4, 5, 1])):
            for par in (2, 3):
                for cap in (2, 3):
                    n = par + cap
                    cfg = C(kind="Fold", forked=True, par=par, cap=cap, monoid=mono, inputs=[(vals * 2)[:n]], gate=True)
                    for order in itertools.permutations(range(par)):
                        cmds = [S() for _ in range(n)] + [{"c": "close", "i": 0}] + [rel((vals * 2)[k]) for k in order] + [rel(-1)] * (2 * n) + [R("res")]
                        out.append({"cfg": cfg, "cmds": cmds, "epilogue": "drain", "origin": "held-combine"})
    if pid in ("C07", "C09"):
        # more failing elements in one stage than any plausible fixed budget (2250 of 2500), under Try: every one reported, the rest delivered
        for kind in ("Map", "FMap"):
            n = 2500
            vals = list(range(1, n + 1))
            cmds = [{"c": "recvall", "o": "out", "d": n}, {"c": "recvall", "o": "exx", "d": n}] + [B(*([S()] * 50)) for _ in range(n // 50)] + [{"c": "close", "i": 0}]
            out.append({"cfg": C(kind=kind, forked=pid == "C09", par=3, cap=50, mode="try", inputs=[vals], fail=[v for v in vals if v % 10 != 0]), "cmds": cmds, "epilogue": "drain", "origin": "many-failures"})
    if pid == "C12":
        # more inputs than any plausible pool of forwarders (140; 300 thorough): the values arrive on the last inputs while all the
        # others are still open; everything is closed only afterwards
        for k in ((140, 300) if th else (140,)):
            for cap in (0, 1):
                cfg = C(kind="Join", cap=cap, inputs=[[100 * (i + 1) + 1] for i in range(k)])
                cmds = [{"c": "recvall", "o": "out", "d": 2 * k}] + [S(i) for i in range(k - 8, k)] + [S(0), S(1)] + [{"c": "close", "i": i} for i in range(k - 1, -1, -1)]
                out.append({"cfg": cfg, "cmds": cmds, "epilogue": "drain", "origin": "very-wide-join"})
    if pid in ("C07", "C09"):
        # values first, errors afterwards (the consumer shape of the repository's own tests: ToSeq(out), then the errors): more
        # failures than any plausible fixed number of slots, but not more than the input capacity the error channel is sized by
        for kind in ("Map", "FMap"):
            for (cap, nfail) in ((20, 18), (40, 33), (70, 64)):
                vals = list(range(1, cap + 1))
                fail = vals[cap - nfail:]
                cmds = [B(*([S()] * cap + [{"c": "close", "i": 0}])), {"c": "recvall", "o": "out", "d": 4 * cap}, {"c": "recvall", "o": "exx", "d": cap + 1}]
                out.append({"cfg": C(kind=kind, forked=pid == "C09", par=2, cap=cap, mode="try", inputs=[vals], fail=fail), "cmds": cmds, "epilogue": "drain", "origin": "errors-after-values"})
    if pid in ("C06", "C09"):
        # error-jam: every element fails under Try and nobody ever reads the error channel; inputs of every length up to what the
        # stage can absorb and a little beyond; then cancel + close: the workers stuck handing over an error must still go away
        for kind in ("Map", "FMap"):
            for par in ((1, 2, 3) if pid == "C09" else (1,)):
                for cap in (0, 1, 2):
                    for n in range(1, 2 * par + 2 * cap + 4):
                        cfg = C(kind=kind, forked=pid == "C09", par=par, cap=cap, mode="try", inputs=[list(range(1, n + 1))], fail=list(range(1, n + 1)))
                        out.append({"cfg": cfg, "cmds": [S()] * n, "epilogue": "cancel", "origin": "error-jam"})
    if pid == "C09":
        # more failures outstanding than the error channel holds while its reader lags behind (Try: one error per failing element)
        for kind in ("Map", "FMap"):
            for par in (1, 2, 3):
                for gate in (False, True):
                    n = 3 * par + 2
                    cfg = C(kind=kind, forked=True, par=par, cap=1, mode="try", inputs=[list(range(1, n + 1))], fail=list(range(1, n + 1, 1 if gate else 2)) + [n], gate=gate)
                    cmds = []
                    for _ in range(n):
                        cmds += [S(), {"c": "release", "x": -1}, R("out")]
                    out.append({"cfg": cfg, "cmds": cmds, "epilogue": "drain", "origin": "error-burst"})
                    out.append({"cfg": cfg, "cmds": [S(), S(), {"c": "release", "x": -1}, {"c": "release", "x": -1}] * (n // 2 + 1), "epilogue": "drain", "origin": "error-burst"})
    if pid == "C08":
        for cap in [0, 1, 2, 3]:
            # values still in the input buffer when the pump notices the cancel / the close: the sends and the cancel are issued back to back
            for k in range(1, cap + 1):
                for pre in ([], [S()], [S(), S(), R()], [R()]):
                    for end in ([{"c": "cancel"}], [{"c": "close", "i": 0}], [{"c": "close", "i": 0}, {"c": "cancel"}]):
                        for rep in range(3):        # the pump's select picks an arm at random: repeat
                            out.append({"cfg": C(kind="New", cap=cap, inputs=[list(range(1, 9))]), "cmds": pre + [B(*([S()] * k + end))],
                                        "epilogue": "closewait", "origin": "fill-and-end"})
            # the sender closes and the context is cancelled at the same time (with and without a backlog)
            for pre in ([], [S()], [S(), S(), S()]):
                for rep in range(4):
                    out.append({"cfg": C(kind="New", cap=cap, inputs=[list(range(1, 9))]), "cmds": pre + [B({"c": "close", "i": 0}, {"c": "cancel"})],
                                "epilogue": "closewait", "origin": "close-and-cancel"})
            # a send arriving exactly when the receiver frees a slot while a backlog is queued (the new value must not overtake)
            for k in (cap + 2, 2 * cap + 3):
                for rep in range(3):
                    cmds = [S()] * k + [B(R(), S()), B(R(), S()), B(S(), R()), B(R(), S(), R())] + [R()] * 3
                    out.append({"cfg": C(kind="New", cap=cap, inputs=[list(range(1, 30))]), "cmds": cmds, "epilogue": "closewait", "origin": "overtake"})
            # a long backlog that drains partly, grows again well beyond its earlier size, and drains completely
            n = 60
            cmds = [S()] * 10 + [R()] * 6 + [S()] * 30 + [R()] * 20 + [S()] * 20 + [R()] * 45
            out.append({"cfg": C(kind="New", cap=cap, inputs=[list(range(1, n + 1))]), "cmds": cmds, "epilogue": "closewait", "origin": "long-backlog"})
            out.append({"cfg": C(kind="New", cap=cap, inputs=[list(range(1, n + 1))]), "cmds": cmds[:70], "epilogue": "cancel", "origin": "long-backlog"})
            cmds = [S(), S(), S(), R(), R(), R(), R(), S(), S(), R(), S(), S(), R(), R(), R()]
            for ep in ("cancel", "closewait"):
                out.append({"cfg": C(kind="New", cap=cap, inputs=[list(range(1, 9))]), "cmds": cmds, "epilogue": ep, "origin": "drain-refill"})
                out.append({"cfg": C(kind="New", cap=cap, inputs=[list(range(1, 9))]), "cmds": [S()] * (cap + 3), "epilogue": ep, "origin": "backlog"})
    return out


def report(run, pid, scheds, traces, viols, keep_count=False):
    mine = set(PREDS[pid])
    per_trace = collections.OrderedDict()
    timed = {"EmitPaced", "EmitKeepUp", "ThrottlePaced", "ThrottleWindow"}     # not judged on the real clock (free runs): jitter
    for ti, w, preds in viols:
        ps = [p for p in preds if p in mine and not (traces[ti].get("free") and p in timed)]
        if ps:
            per_trace.setdefault(ti, (w, ps))
    for ti, (w, ps) in per_trace.items():
        t = traces[ti]
        c = t["cfg"]
        sig = {"stage": ("fork." if c["forked"] else "pipe.") + c["kind"], "pred": ps[0], "mode": c["mode"], "n": c["n"] if c["kind"] == "Take" else None,
               "cancelled": any(x["cmd"]["c"] == "cancel" and not x["skipped"] for x in t["wins"][:w]),
               "sender_closed": any(x["cmd"]["c"] == "close" and not x["skipped"] for x in t["wins"][:w]) or bool(t.get("crash") and any(cm["c"] == "close" for cm in t.get("sched", {}).get("cmds", [])))}
        short = lambda v: v if len(str(v)) < 240 else str(v)[:240] + "...(%d characters)" % len(str(v))
        what = "%s %s: %s fail%s after %s" % (sig["stage"], {k: short(v) for k, v in c.items() if v not in (0, [], False, "", 1) and k not in ("kind",)}, ps,
                                               " (library goroutine panicked: %s)" % t.get("crash_msg", "")[:80].replace("\n", " ") if t.get("crash") else "",
                                               ("the whole input offered and closed" if t.get("free") == "drain" else "part of the input offered, then cancel") if t.get("free") else
                                               [cmd_str(x["cmd"]) for x in t["wins"][1:w]] if t["wins"] else [cmd_str(x) for x in t.get("sched", {}).get("cmds", [])])
        cmds = [x["cmd"] for x in t["wins"][1:] if not x["skipped"]] if t["wins"] else t.get("sched", {}).get("cmds", [])
        if t.get("free"):
            what = "(outside the bubble, real scheduler and clock, consumers keep receiving; at rest = outputs closed or nothing observable for a long time) " + what
            run.violation(dict(sig, free=t["free"]), what, {"sched": {"cfg": c, "cmds": [], "epilogue": "none", "origin": "replay"}, "free": t["free"], "preds": ps, "window": w})
            continue
        run.violation(sig, what, {"sched": {"cfg": c, "cmds": cmds, "epilogue": "none", "origin": "replay"}, "preds": ps, "window": w})
    if not keep_count:
        run.notes["traces_with_failing_predicate"] = len(per_trace)


def stress_cfgs(scheds, rng, n):
    """One configuration per (stage, package, mode, element type, capacity class, StdErr) met in this run's schedules, with
    an input long enough for producer, stage and consumers to really overlap on the real scheduler."""
    seen = collections.OrderedDict()
    for s in scheds:
        c = s["cfg"]
        if c["kind"] in ("Pipeline", "Seq", "ToSeq"):
            continue
        seen.setdefault((c["kind"], c["forked"], c["par"] if c["forked"] else 0, c["mode"], c["elem"], min(c["cap"], 2), c["stderr"]), c)
    cfgs = list(seen.values())
    rng.shuffle(cfgs)
    out = []
    for c in cfgs[:n]:
        c = dict(c, twin="", gate=False, stages=[])
        L = rng.choice([12, 33, 80])
        if c["kind"] == "Fold":
            if c["forked"] or c["monoid"] not in ("digits9",):
                c["monoid"], vals = ("sum" if c["monoid"] in ("digits9", "prod") else c["monoid"]), [1 + (i % 7) for i in range(L)]
            else:
                vals = [1 + (i % 9) for i in range(8)]          # the order-sensitive fold: 9 followed by eight digits still fits TLC's integers
            c["inputs"] = [vals]
        elif c["kind"] == "Join":
            k = max(1, len(c["inputs"]))
            c["inputs"] = [[100 * (i + 1) + j for j in range(1, min(L, 60) // k + 2)] for i in range(k)] if c["inputs"] else []
            c["dup"] = []
        elif c["kind"] in ("Emit", "Unfold"):
            pass
        else:
            c["inputs"] = [list(range(1, L + 1))]
            if c["mode"] != "pure":
                c["fail"] = sorted(rng.sample(range(1, L + 1), max(1, L // 5)))
            c["pred"] = [x for x in range(1, L + 1) if rng.random() < 0.6] if c["kind"] != "TakeWhile" else list(range(1, rng.randint(1, L) + 1)) + [L]
            if c["kind"] == "Take":
                c["n"] = rng.choice([0, 1, L // 2, L, L + 2])
            if c["kind"] == "Throttling":
                c["ops"], c["interval"] = rng.choice([1, 2, 5]), 1
        out.append(C(**c))
    return out


def stress_pass(run, pid, binp, scheds, d, rng, th):
    """Outside the bubble: the real scheduler with all processors, the real clock, producers that send as fast as the stage
    takes and consumers that keep receiving - environment moves are not confined to the library's points of rest (what the
    schedules of the controller are, bursts apart).  Judged by the same TRACE-P predicates except the timed ones; a window
    counts as 'at rest' once every output is closed and the goroutines are gone, or after `still` seconds of silence."""
    from concurrent.futures import ThreadPoolExecutor
    cfgs = stress_cfgs(scheds, rng, 160 if th else 40)
    jobs = []
    for c in cfgs:
        gen = c["kind"] in ("Emit", "Unfold")
        for rep in range(4 if th else 2):
            for variant in (("cancel",) if gen else ("drain", "cancel", "closecancel")):
                if variant == "closecancel" and c["kind"] == "Join" and not c["inputs"]:
                    continue
                jobs.append((c, variant))
    def one(j):
        i, (c, variant) = j
        return pipe_run.run_free(binp, {"cfg": c, "cmds": [], "epilogue": "none", "origin": "stress"}, variant, d, tag="st%d" % i, still=20, quota=250)
    with ThreadPoolExecutor(6) as ex:
        ft = list(ex.map(one, enumerate(jobs)))
    fv, fres = pipe_run.judge(ft, d, tag="jst")
    for r in fres:
        run.add_mc("PipeTraceP", r, {"traces": "stress runs (real scheduler)"})
    run.traces += len(ft)
    n0 = len(run.violations)
    report(run, pid, None, ft, fv, keep_count=True)
    run.notes["stress_runs_outside_the_bubble"] = {"configurations": len(cfgs), "executions": len(ft), "with_failing_predicate": len(run.violations) - n0}
    log("phase: stress: %d executions of %d configurations on the real scheduler, %d with a failing predicate" % (len(ft), len(cfgs), len(run.violations) - n0))


def race_pass(run, scheds, d, rng, th):
    """C09 'without data races': the same schedules under the race detector with several GOMAXPROCS
    (quick: a sample of 300 schedules, preferring ungated ones, with 4 procs; thorough: 1500 with 1, 2 and 16)."""
    binr = pipe_run.build(race=True)
    if th:
        sub = rng.sample(scheds, min(len(scheds), 1500))
    else:
        ung = [s for s in scheds if not s["cfg"].get("gate")]
        sub = rng.sample(ung, min(len(ung), 200)) + rng.sample(scheds, min(len(scheds), 100))
    for procs in ((1, 2, 16) if th else (4,)):
        traces = pipe_run.run_schedules(binr, sub, d, tag="race%d" % procs, env={"GOMAXPROCS": procs, "GORACE": "halt_on_error=1"})
        run.traces += len(traces)
        for t in traces:
            if t.get("race"):
                run.violation({"stage": ("fork." if t["cfg"]["forked"] else "pipe.") + t["cfg"]["kind"], "pred": "DataRace"}, "data race reported by the race detector: " + t["race"][:300],
                              {"sched": t.get("sched"), "race": t["race"]})
    run.notes["race_detector_runs"] = (3 if th else 1) * len(sub)


def do_replay(run, binp, path, d):
    rec = json.load(open(path))
    s = rec["payload"]["sched"]
    if rec["payload"].get("free"):
        traces = [pipe_run.run_free(binp, s, rec["payload"]["free"], d)]
    else:
        traces = pipe_run.run_schedules(binp, [s], d, tag="rp")
    viols, results = pipe_run.judge(traces, d)
    run.traces += 1
    for r in results:
        run.add_mc("PipeTraceP", r, {})
    report(run, run.pid, [s], traces, viols)
    run.sample({"replayed": [cmd_str(c) for c in s["cmds"]]})
