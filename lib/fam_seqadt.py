"""C19 - internal/seq: the list trait and the slice trait implement the same persistent sequence ADT.

  1. SeqADTMC    (TLC, every script of <= MaxOps operations over 3 registers): both implementation-shaped layers
                 (cons cells with cached length; backing arrays [base, off, len, cap] with `append([]A{x}, seq...)` and
                 `seq[1:]`) refine the P registers; the statement's laws hold one step ahead of every reachable state;
                 no existing cell / array cell is ever written.
  2. SeqADTGen   (TLC): every script of <= n operations with the promised register contents after every step;
     seqadtdrv   (Go): each script replayed on BOTH real traits (x int / string elements), every register observed
                 (elements by Head/Tail/IsEmpty, Length, IsEmpty, Head, Foldable.Fold) and compared after every step.
  3. SeqADTTrace (TLC): seeded random longer scripts recorded from the real traits, judged step by step (P), and the
                 slice model must explain the logged capacities / sharing of arrays (I, SPEC-DRIFT only).
Tail / Head of an empty sequence panic in both implementations and the statement is silent: never generated."""
import json, os
import common
from common import run_tlc, Scratch, Infra

MC_CFG = """CONSTANTS
  Vals = {%(vals)s}
  MaxOps = %(maxops)d
  NewLen = %(newlen)d
  Spares = {%(spares)s}
SPECIFICATION Spec
INVARIANT Refines
INVARIANT Observers
INVARIANT FoldFastAgrees
INVARIANT Laws
INVARIANT Structure
PROPERTY NoWrite
CHECK_DEADLOCK FALSE
"""
GEN_CFG = """CONSTANTS
  Vals = {%(vals)s}
  MaxOps = %(maxops)d
  NewSet = "%(newset)s"
INIT Init
NEXT Next
INVARIANT Emit
CHECK_DEADLOCK FALSE
"""
TRACE_CFG = """INIT Init
NEXT Next
INVARIANT Judge
CHECK_DEADLOCK FALSE
"""
WHAT = {"NewElements": "New(xs...) does not hold xs", "ConsElements": "Cons(x, s) is not x followed by the elements of s",
        "TailElements": "Tail(s) is not s without its first element",
        "Persistence": "an operation changed a sequence other than its result (Cons / Tail must never change what they were given)",
        "Length": "Length differs from the number of elements", "IsEmpty": "IsEmpty is not (length = 0)",
        "Head": "Head is not the first element", "Fold": "Fold is not the left fold from the monoid's empty element",
        "panic": "the operation panicked on a non-empty / well-defined argument"}


def script_text(hist):
    out = []
    for o in hist:
        if o["op"] == "new":
            xs = o["xs"]
            arg = ",".join(map(str, xs)) if len(xs) <= 8 else "%d,%d,...,%d [%d elements]" % (xs[0], xs[1], xs[-1], len(xs))
            out.append("r%d=New(%s)" % (o["i"] - 1, arg))
        elif o["op"] == "cons":
            out.append("r%d=Cons(%d,r%d)" % (o["i"] - 1, o["x"], o["j"] - 1))
        else:
            out.append("r%d=Tail(r%d)" % (o["i"] - 1, o["j"] - 1))
    if len(out) > 14:
        out = out[:6] + ["... %d steps ..." % (len(out) - 12)] + out[-6:]
    return "; ".join(out)


def check(run, replay=None):
    thorough = run.tier == "thorough"
    binp = common.go_build_test("seqadtdrv")
    with Scratch() as d:
        if replay:
            return do_replay(run, binp, replay, d)
        run.assumptions.append("Head / Tail of an empty sequence are outside the statement (both implementations panic): "
                               "scripts never apply them to an empty register")
        run.assumptions.append("New is always handed a fresh argument slice that the harness never touches again "
                               "(slice.New keeps the caller's array; the statement does not speak about later writes by the caller)")
        # ---- 1. MC
        mcs = [dict(vals="1,2,3", maxops=3, newlen=1, spares="0,1")]
        if thorough:
            mcs = [dict(vals="1,2,3", maxops=3, newlen=2, spares="0,1"), dict(vals="1,2,3", maxops=4, newlen=1, spares="0")]
        for c in mcs:
            r = run_tlc("SeqADTMC", MC_CFG % c, timeout=2400)
            if r.violated:
                raise Infra("model error: SeqADTMC violates %s with %s" % (r.violated, c))
            run.add_mc("SeqADTMC", r, c)
        run.exhaustive = True
        # ---- 2. every script, on both real traits
        gens = [dict(vals="1,2,3", maxops=2, newset="full"), dict(vals="1,2,3", maxops=3, newset="small")]
        if thorough:
            gens = [dict(vals="1,2,3", maxops=3, newset="full")]
        for gi, c in enumerate(gens):
            r = run_tlc("SeqADTGen", GEN_CFG % c, workers=1, timeout=2400)
            cases = r.json_prints("case")
            if not cases:
                raise Infra("SeqADTGen printed no scripts")
            run.add_mc("SeqADTGen", r, c)
            run.notes["scripts_enumerated"] = run.notes.get("scripts_enumerated", 0) + len(cases)
            replay_cases(run, binp, d, "gen%d" % gi, cases, c)
            cs = cases[len(cases) // 2]
            run.sample({"script": script_text(cs["hist"]), "expected_registers": cs["hist"][-1]["after"]})
            del cases
        # ---- 3. long scripts around size thresholds (New of 0..1000 distinct elements, Cons chains of 34 / 70, Tail walks
        #         across the boundaries), recorded from the real traits, judged by the same trace spec
        traces = record_long(binp, d, seed=run.seed, maxn=1000)
        judge_traces(run, traces, d, "long")
        run.notes["long_scripts"] = len(traces)
        run.notes["long_script_steps"] = sum(len(t["steps"]) for t in traces)
        run.notes["long_script_observed_steps"] = sum(1 for t in traces for st in t["steps"] if st["obs"])
        run.notes["longest_sequence_observed"] = max(len(r["elems"]) for t in traces for st in t["steps"] for o in st["obs"] for r in o["regs"])
        # ---- 3b. persistent values shared between goroutines: four goroutines go on from a common prefix at once, each with
        #          its own registers; each one's history (prefix + own steps) is judged as the sequential history it is
        traces, died = record_concurrent(binp, d, seed=run.seed, rounds=40 if thorough else 8)
        nv = len(run.violations)
        if traces:
            judge_traces(run, traces, d, "conc")
        run.notes["concurrent_histories"] = len(traces)
        if died:
            run.notes["concurrent_processes_that_died"] = [n for n, _ in died]
            if len(run.violations) == nv:
                raise Infra("seqadtdrv concurrent died for %s and no concurrent history shows a violation:\n%s" % ([n for n, _ in died], died[0][1]))
        # ---- 4. random longer scripts, judged by TLC
        for b in range(4 if thorough else 1):
            traces = record_random(binp, d, "rnd%d" % b, seed=run.seed * 100 + b, n=30 if thorough else 12, ops=120 if thorough else 40)
            judge_traces(run, traces, d, "rnd%d" % b)


def replay_cases(run, binp, d, tag, cases, c):
    inp, outp = os.path.join(d, "cases_%s.jsonl" % tag), os.path.join(d, "res_%s.jsonl" % tag)
    with open(inp, "w") as f:
        for cs in cases:
            f.write(json.dumps({"hist": cs["hist"]}) + "\n")
    p = common.run_bin(binp, ["-test.run", "TestReplay", "-test.timeout", "30m"],
                       env=dict(VERIF_MODE="replay", VERIF_IN=inp, VERIF_OUT=outp), timeout=2400)
    if p.returncode != 0:
        raise Infra("seqadtdrv replay failed:\n" + (p.stdout + p.stderr)[-3000:])
    stats, nd = None, 0
    for l in open(outp):
        rec = json.loads(l)
        if rec["t"] == "stats":
            stats = rec
        elif rec["t"] == "pviol":
            run.violation({"kind": rec["pred"], "impl": rec["impl"].split("/")[0]},
                          "%s: after %s register r%d: %s (want %s, got %s)"
                          % (rec["impl"], script_text(rec["hist"]), rec["reg"] - 1, WHAT.get(rec["pred"], rec["pred"]),
                             json.dumps(rec["want"]), json.dumps(rec["got"])),
                          {"mode": "replay", "hist": rec["hist"], "finding": {k: rec[k] for k in ("impl", "reg", "pred", "want", "got")}})
        elif rec["t"] == "drift":
            nd += 1
            if nd <= 3:
                run.drift.append("%s %s after %s (got %s)" % (rec["impl"], rec["pred"], script_text(rec["hist"]), rec["got"]))
    if not stats or stats["cases"] != len(cases):
        raise Infra("seqadtdrv replay produced no / wrong stats line")
    run.traces += stats["cases"] * stats["machines"]
    run.notes["replayed_steps"] = run.notes.get("replayed_steps", 0) + stats["steps"]
    run.notes["observations_compared"] = run.notes.get("observations_compared", 0) + stats["observations"]
    if nd:
        run.notes["ilayer_drift_findings"] = run.notes.get("ilayer_drift_findings", 0) + nd


MACHINES = ["list/int", "slice/int", "list/string", "slice/string", "list/any", "slice/any", "list/ptr", "slice/ptr"]


def record_concurrent(binp, d, seed, rounds):
    """One process per machine (implementation x element type): a library that shares mutable state between goroutines tears
    strings / interfaces / pointers and may take the whole process down (fatal error in the runtime, no library frame on the
    stack); with int elements the same defect shows as wrong elements.  Returns (traces, names of the machines whose process died)."""
    from concurrent.futures import ThreadPoolExecutor

    def one(mi):
        name = MACHINES[mi]
        outp = os.path.join(d, "traces_conc_%d.jsonl" % mi)
        p = common.run_bin(binp, ["-test.run", "TestConcurrent"], env=dict(VERIF_MODE="conc", VERIF_SEED=seed * 10 + mi, VERIF_N=rounds, VERIF_OUT=outp, VERIF_MACH=name))
        recs = []
        if os.path.exists(outp):
            for l in open(outp):
                try:
                    recs.append(json.loads(l))
                except Exception:
                    pass
        stats = [x for x in recs if x.get("t") == "stats"]
        traces = [x for x in recs if x.get("t") != "stats"]
        if p.returncode != 0 or not stats or stats[0]["traces"] != len(traces):
            return name, [], (p.stdout + p.stderr)[-1500:]
        return name, traces, None
    with ThreadPoolExecutor(4) as ex:
        res = list(ex.map(one, range(len(MACHINES))))
    traces = [t for _, ts, _ in res for t in ts]
    died = [(n, why) for n, _, why in res if why is not None]
    return traces, died


def record_random(binp, d, tag, seed, n, ops):
    outp = os.path.join(d, "traces_%s.jsonl" % tag)
    p = common.run_bin(binp, ["-test.run", "TestRandom"], env=dict(VERIF_MODE="random", VERIF_SEED=seed, VERIF_N=n, VERIF_OPS=ops, VERIF_OUT=outp))
    if p.returncode != 0:
        raise Infra("seqadtdrv random failed:\n" + (p.stdout + p.stderr)[-3000:])
    recs = [json.loads(l) for l in open(outp) if l.strip()]
    traces = [x for x in recs if x.get("t") != "stats"]
    if len(traces) != n:
        raise Infra("seqadtdrv random wrote %d of %d traces" % (len(traces), n))
    return traces


def record_long(binp, d, seed, maxn):
    outp = os.path.join(d, "traces_long.jsonl")
    p = common.run_bin(binp, ["-test.run", "TestLong"], env=dict(VERIF_MODE="long", VERIF_SEED=seed, VERIF_MAXN=maxn, VERIF_OUT=outp))
    if p.returncode != 0:
        raise Infra("seqadtdrv long failed:\n" + (p.stdout + p.stderr)[-3000:])
    recs = [json.loads(l) for l in open(outp) if l.strip()]
    stats = [x for x in recs if x.get("t") == "stats"]
    traces = [x for x in recs if x.get("t") != "stats"]
    if not stats or stats[0]["traces"] != len(traces) or not traces:
        raise Infra("seqadtdrv long wrote an incomplete result file")
    return traces


def judge_traces(run, traces, d, tag):
    tf = os.path.join(d, "batch_%s.json" % tag)
    with open(tf, "w") as f:
        json.dump({"traces": traces}, f)
    r = run_tlc("SeqADTTrace", TRACE_CFG, env={"TRACE_FILE": tf}, timeout=2400)
    if r.violated:
        raise Infra("SeqADTTrace stopped: " + r.out[-2000:])
    done = set()
    for v in r.json_prints():
        if v.get("t") == "DONE":
            done.add(v["ti"])
        elif v.get("t") == "PVIOL":
            t = traces[v["ti"] - 1]
            steps = t["steps"][: v["step"]]
            last = steps[-1]
            seen = set()
            wrong_elems = {(c, reg) for c, reg, pred in v["fails"] if pred == "Elements"}
            for c, reg, pred in sorted(v["fails"]):
                if pred not in ("Elements", "panic") and (c, reg) in wrong_elems:
                    continue        # Length / Head / Fold of a register whose elements are already wrong: one finding
                if pred == "HARNESS":
                    raise Infra("random script applies Tail to a register the model holds empty: " + script_text(steps))
                impl = t["combos"][c - 1]["name"]
                if pred == "Elements":
                    pred = "Persistence" if reg != last["i"] else {"new": "NewElements", "cons": "ConsElements", "tail": "TailElements"}[last["op"]]
                if (impl, pred) in seen:
                    continue
                seen.add((impl, pred))
                ob = last["obs"][c - 1]
                run.violation({"kind": pred, "impl": impl.split("/")[0]},
                              "%s%s: after %s register r%d: %s (observed %s)" % (impl, (" (one of %d goroutines that go on from the common prefix - the first three steps - at once, each with its own registers)" % t["conc"]) if t.get("conc") else "",
                                                                                script_text(steps), reg - 1, WHAT.get(pred, pred),
                                                                                json.dumps(ob["regs"][reg - 1] if ob["regs"] else ob["panic"])[:400]),
                              {"mode": "trace", "hist": [dict({k: s[k] for k in ("op", "i", "j", "x", "xs")}, quiet=not s["obs"]) for s in steps[:-1]]
                                                        + [{k: last[k] for k in ("op", "i", "j", "x", "xs")}],
                               "finding": {"impl": impl, "reg": reg, "pred": pred}})
        elif v.get("t") == "DRIFT":
            t = traces[v["ti"] - 1]
            run.drift.append("trace %s#%d: the slice model cannot explain capacities / array sharing after %s"
                             % (tag, v["ti"], script_text(t["steps"][: v["step"]][-6:])))
    if len(done) != len(traces):
        raise Infra("SeqADTTrace consumed %d of %d traces" % (len(done), len(traces)))
    run.traces += len(traces)
    run.add_mc("SeqADTTrace", r, {"traces": len(traces), "steps": sum(len(t["steps"]) for t in traces)})
    t = traces[0]
    seen = [st for st in t["steps"][:6] if st["obs"] and st["obs"][0]["regs"]]
    if seen:
        run.sample({"recorded_script": script_text(t["steps"][:6]), "observed": [o["elems"][:12] for o in seen[-1]["obs"][0]["regs"]]})


def do_replay(run, binp, path, d):
    """Re-executes the stored script on the current tree; the expected registers are recomputed by TLC (SeqADTTrace
    judges the new recording), nothing of the stored observation is reused."""
    pl = json.load(open(path))["payload"]
    hist = [{k: o[k] for k in ("op", "i", "j", "x", "xs", "quiet") if k in o} for o in pl["hist"]]
    inp, outp = os.path.join(d, "script.json"), os.path.join(d, "trace.jsonl")
    with open(inp, "w") as f:
        json.dump(hist, f)
    p = common.run_bin(binp, ["-test.run", "TestScript"], env=dict(VERIF_MODE="script", VERIF_IN=inp, VERIF_OUT=outp))
    if p.returncode != 0:
        raise Infra("seqadtdrv script failed:\n" + (p.stdout + p.stderr)[-3000:])
    traces = [json.loads(l) for l in open(outp) if l.strip()]
    judge_traces(run, traces, d, "replay")
