"""C18 - the skip list behaves as an ordered map under any operation history."""
import json, os
import common
from common import run_tlc, Scratch, Infra, log

MC_CFG = """CONSTANTS
  Keys = {%(keys)s}
  Vals = {%(vals)s}
  Levels = %(levels)d
  Order = "%(order)s"
SPECIFICATION Spec
INVARIANT Refines
INVARIANT ResultsAgree
INVARIANT Structure
INVARIANT PrintedForm
CHECK_DEADLOCK FALSE
"""
GEN_CFG = """CONSTANTS
  Keys = {%(keys)s}
  Vals = {%(vals)s}
  Levels = %(levels)d
  Order = "%(order)s"
  MaxHist = %(maxhist)d
INIT Init
NEXT Next
%(view)s
INVARIANT Emit
CHECK_DEADLOCK FALSE
"""
# the values put: the zero value of the value type is among them (a live key whose value is the zero value is still live: it is
# listed in the printed form, and a later Put of another value overwrites it) - with one other value (the thorough tier already takes half an hour with two values; a third would multiply its states by 2.5)
VALS = {"quick": "0, 1", "thorough": "0, 1"}
TRACE_CFG = """INIT Init
NEXT Next
INVARIANT Judge
CHECK_DEADLOCK FALSE
"""


def build():
    return common.go_build_test("skipdrv")


def check(run, replay=None):
    thorough = run.tier == "thorough"
    binp = build()
    if replay:
        return do_replay(run, binp, replay)
    # ---- 1. MC: I refines P on every reachable structure
    mcs = [dict(keys="1,2,3,4", levels=3, order="asc"), dict(keys="1,2,3", levels=3, order="desc")]
    if thorough:
        mcs = [dict(keys="1,2,3,4,5", levels=3, order="asc"), dict(keys="1,2,3,4", levels=4, order="desc")]
    for c in mcs:
        r = run_tlc("SkipListMC", MC_CFG % dict(c, vals=VALS[run.tier]), timeout=1500)
        run.add_mc("SkipListMC", r, c)
        if r.violated:
            raise Infra("model error: SkipListMC violates %s with %s (the I-spec no longer refines the P-spec)" % (r.violated, c))
    run.exhaustive = True
    # ---- 2. GEN + replay: every structure, every transition, on the real list with injected heights
    V, NV = "VIEW View", ""
    gens = [dict(keys="1,2,3", levels=3, order="asc", maxhist=0, view=V), dict(keys="1,2,3", levels=2, order="desc", maxhist=0, view=V),
            dict(keys="1,2,3", levels=2, order="asc", maxhist=4, view=NV)]
    if thorough:
        gens = [dict(keys="1,2,3,4", levels=3, order="asc", maxhist=0, view=V), dict(keys="1,2,3,4", levels=3, order="desc", maxhist=0, view=V),
                dict(keys="1,2,3", levels=2, order="asc", maxhist=5, view=NV), dict(keys="1,2,3", levels=3, order="desc", maxhist=4, view=NV)]
    with Scratch() as d:
        for gi, c in enumerate(gens):
            r = run_tlc("SkipListGen", GEN_CFG % dict(c, vals=VALS[run.tier]), workers=1, timeout=1500)
            cases = r.json_prints("case")
            if c["maxhist"]:
                # the prefixes of a history are cases of their own: keep the full-length ones and a sample of the rest
                run.notes["histories_enumerated"] = run.notes.get("histories_enumerated", 0) + len(cases)
            if not cases:
                raise Infra("SkipListGen printed no cases")
            run.add_mc("SkipListGen", r, c)
            inp = os.path.join(d, "cases%d.jsonl" % gi)
            with open(inp, "w") as f:
                for cs in cases:
                    f.write(json.dumps(cs) + "\n")
            outp = os.path.join(d, "res%d.jsonl" % gi)
            p = common.run_bin(binp, ["-test.run", "TestReplay", "-test.timeout", "30m"],
                               env=dict(VERIF_MODE="replay", VERIF_IN=inp, VERIF_OUT=outp, VERIF_LEVELS=c["levels"],
                                        VERIF_ORDER=c["order"]), timeout=2400)
            if p.returncode != 0 and never_returned(run, outp, c):
                continue
            if p.returncode != 0:
                lib_panic = "panic:" in (p.stdout + p.stderr) and "skiplist" in (p.stdout + p.stderr)
                if lib_panic:
                    run.violation({"kind": "panic"}, "skip list panicked during replay", {"output": (p.stdout + p.stderr)[-3000:], "gen": c})
                    continue
                raise Infra("skipdrv replay failed:\n" + (p.stdout + p.stderr)[-3000:])
            collect_replay(run, outp, c)
            run.sample({"gen": c, "witness_history": cases[min(len(cases) - 1, 40)]["hist"],
                        "expected_form": cases[min(len(cases) - 1, 40)]["form"]})
        # ---- 3. random histories with real heights, judged by TLC
        nbatches = 6 if thorough else 2
        for b in range(nbatches):
            outp = os.path.join(d, "traces%d.jsonl" % b)
            env = dict(VERIF_MODE="random", VERIF_SEED=run.seed * 1000 + b, VERIF_OUT=outp,
                       VERIF_N=30 if thorough else 12, VERIF_OPS=1200 if thorough else 250, VERIF_KEYS=16 if thorough else 10)
            p = common.run_bin(binp, ["-test.run", "TestRandom"], env=env, timeout=1200)
            if p.returncode != 0 and never_returned(run, outp, {"mode": "random", "env": env}):
                continue
            if p.returncode != 0:
                if "panic:" in (p.stdout + p.stderr):
                    run.violation({"kind": "panic"}, "skip list panicked in a random history", {"output": (p.stdout + p.stderr)[-3000:], "env": env})
                    continue
                raise Infra("skipdrv random failed:\n" + (p.stdout + p.stderr)[-3000:])
            traces = [json.loads(l) for l in open(outp) if l.strip()]
            judge_traces(run, traces, d, "b%d" % b)


def never_returned(run, outp, c):
    """The harness's watchdog ended the process (status 3) because a map operation did not return: its finding is in the output."""
    found = False
    if os.path.exists(outp):
        for l in open(outp):
            try:
                rec = json.loads(l)
            except Exception:
                continue
            if rec.get("t") == "pviol" and rec.get("pred") == "Terminates":
                run.violation({"kind": "Terminates"}, "skip list: after history %s the operation %s did not return (%s; keyspace %s)"
                              % (json.dumps(rec.get("hist")), json.dumps(rec.get("last")), rec.get("got"), rec.get("space")), {"mode": "replay", "gen": c, "finding": rec})
                found = True
    return found


def collect_replay(run, outp, c):
    stats, unparsed = None, []
    for l in open(outp):
        rec = json.loads(l)
        if rec["t"] == "stats":
            stats = rec
        elif rec["t"] == "pviol":
            run.violation({"kind": rec["pred"]}, "skip list %s: after history %s then %s: want %s got %s (keyspace %s, order %s)"
                          % (rec["pred"], json.dumps(rec["hist"]), json.dumps(rec.get("last")), rec["want"], rec["got"], rec["space"], c["order"]),
                          {"mode": "replay", "gen": c, "finding": rec})
        elif rec["t"] == "drift":
            run.drift.append("replay %s: %s after %s / %s" % (rec["space"], rec["pred"], json.dumps(rec["hist"]), json.dumps(rec.get("last"))))
        elif rec["t"] == "harness":
            unparsed.append(rec["got"])
    if unparsed and not run.violations:
        raise Infra("harness could not parse the printed form: %r" % unparsed[0])
    if not stats:
        raise Infra("replay produced no stats line")
    run.traces += stats["cases"] + stats["transitions"]
    run.notes["replayed_transitions"] = run.notes.get("replayed_transitions", 0) + stats["transitions"]
    run.notes["replayed_structures"] = run.notes.get("replayed_structures", 0) + stats["cases"]


def judge_traces(run, traces, d, tag):
    for t in traces:
        if t.get("unparsable") and not run.violations:
            raise Infra("harness could not parse the printed form: %r" % t["unparsable"])
    traces = [t for t in traces if not t.get("unparsable") and t["steps"]]    # (the replayed structures have already shown a violation)
    if not traces:
        return
    batch = {"traces": traces, "keys": max(t["keys"] for t in traces), "levels": max(t["levels"] for t in traces)}
    tf = os.path.join(d, "batch_%s.json" % tag)
    with open(tf, "w") as f:
        json.dump(batch, f)
    r = run_tlc("SkipListTrace", TRACE_CFG, env={"TRACE_FILE": tf}, timeout=1500)
    if r.violated:
        raise Infra("SkipListTrace stopped: " + r.out[-2000:])
    done = {}
    for v in r.json_prints():
        if v.get("t") == "DONE":
            done[v["ti"]] = v
        elif v.get("t") == "PVIOL":
            t = traces[v["ti"] - 1]
            st = t["steps"][: v["step"]]
            run.violation({"kind": sorted(v["preds"])[0]},
                          "skip list trace: %s fails at step %d (%s) keyspace %s order %s" % (v["preds"], v["step"], json.dumps(st[-1]), t["space"], t["order"]),
                          {"mode": "trace", "trace": dict(t, steps=st), "preds": v["preds"]})
        elif v.get("t") == "DRIFT":
            run.drift.append("trace %s#%d step %d: printed structure differs from the model's" % (tag, v["ti"], v["step"]))
    if len(done) != len(traces):
        raise Infra("SkipListTrace consumed %d of %d traces" % (len(done), len(traces)))
    run.traces += len(traces)
    run.add_mc("SkipListTrace", r, {"traces": len(traces), "steps": sum(len(t["steps"]) for t in traces)})
    run.sample({"random_trace_prefix": traces[0]["steps"][:4], "space": traces[0]["space"], "order": traces[0]["order"]})


def do_replay(run, binp, path):
    rec = json.load(open(path))
    pl = rec["payload"]
    with Scratch() as d:
        if pl.get("mode") == "trace":
            # re-execute the recorded operations against the current tree (real heights), judge with TLC
            t = pl["trace"]
            src = os.path.join(d, "script.json")
            raise Infra("trace replays are re-judged, not re-executed: run the check again with the same VERIF_SEED")
        if pl["gen"].get("mode") == "random":
            env = dict(pl["gen"]["env"], VERIF_OUT=os.path.join(d, "t.jsonl"))
            p = common.run_bin(binp, ["-test.run", "TestRandom"], env=env, timeout=1200)
            if p.returncode != 0 and never_returned(run, env["VERIF_OUT"], pl["gen"]):
                return
            if p.returncode != 0:
                raise Infra(p.stdout + p.stderr)
            judge_traces(run, [json.loads(l) for l in open(env["VERIF_OUT"]) if l.strip()], d, "rp")
            return
        c = pl["gen"]
        f = pl["finding"]
        # a one-case replay: the history, with the failing transition as its only successor
        r = run_tlc("SkipListGen", GEN_CFG % dict(c, vals="0, 1, 2"), workers=1, timeout=900)       # (a superset of the values of either tier)
        cases = [cs for cs in r.json_prints("case") if cs["hist"] == f["hist"]]
        inp, outp = os.path.join(d, "c.jsonl"), os.path.join(d, "r.jsonl")
        with open(inp, "w") as fh:
            for cs in cases:
                fh.write(json.dumps(cs) + "\n")
        p = common.run_bin(binp, ["-test.run", "TestReplay"], env=dict(VERIF_MODE="replay", VERIF_IN=inp, VERIF_OUT=outp,
                           VERIF_LEVELS=c["levels"], VERIF_ORDER=c["order"]))
        if p.returncode != 0 and never_returned(run, outp, c):
            return
        if p.returncode != 0:
            raise Infra(p.stdout + p.stderr)
        collect_replay(run, outp, c)
