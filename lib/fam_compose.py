"""C20 - Pipe / Pipe3 .. Pipe20 compose their functions left to right, each applied exactly once.

  1. ComposeMC   (TLC, exhaustive over family x N = 2..20 x argument domain): the I-level machine (k, acc) refines
                 the promised value, the finished call log is the promised one, the two function families are
                 sensitive to transposition / omission / duplication on every point of the domain; prints the
                 expected final value per (family, N, argument)                                   (spec -> impl)
  2. composedrv  (Go, real code): every printed case is executed on the real PipeN with logging functions; the
                 returned value is compared with TLC's expectation (P: FinalValue)
  3. ComposeTrace(TLC): the recorded call logs are judged line by line (P: Order, Arg, Count, Result)  (impl -> spec)
  4. the same with seeded random arguments.
Function families: "arith" (int), "seq" ([]int) and four boxed families over Go `any` / `error` in which error values, nil,
typed nil pointers, NaN and zero values are ordinary stage arguments / results (anyhist, errhist, anyspecial, errspecial).
This property is close to "one pure function per arity": TLC contributes the exhaustive enumeration of the small
domain, the sensitivity check of the families and the line-by-line judgement of the call logs."""
import json, os
import common
from common import run_tlc, Scratch, Infra

MC_CFG = """CONSTANTS
  IntTop = %(inttop)d
  SeqLen = %(seqlen)d
SPECIFICATION Spec
INVARIANT Refines
INVARIANT LogPromised
INVARIANT FamiliesSensitive
INVARIANT InRange
INVARIANT ErrTyped
INVARIANT Emit
CHECK_DEADLOCK FALSE
"""
TRACE_CFG = """INIT Init
NEXT Next
INVARIANT Judge
CHECK_DEADLOCK FALSE
"""
WHAT = {"Order": "a supplied function was applied out of order (transposed, skipped or repeated)",
        "Arg": "a supplied function did not receive the previous function's result",
        "Count": "not every supplied function was applied exactly once",
        "Result": "the composed function did not return f_N(...f_1(a)...)"}


def check(run, replay=None):
    thorough = run.tier == "thorough"
    binp = common.go_build_test("composedrv")
    with Scratch() as d:
        if replay:
            return do_replay(run, binp, replay, d)
        run.notes["level_note"] = ("close to one pure function per arity: TLC contributes the exhaustive enumeration of the small "
                                   "domain, the sensitivity check of the function families and the line-by-line judgement of call logs")
        # ---- 1. model + expected values
        c = dict(inttop=300, seqlen=4) if thorough else dict(inttop=5, seqlen=2)
        r = run_tlc("ComposeMC", MC_CFG % c, timeout=900)
        if r.violated:
            raise Infra("model error: ComposeMC violates %s with %s" % (r.violated, c))
        cases = r.json_prints("case")
        if not cases:
            raise Infra("ComposeMC printed no cases")
        run.add_mc("ComposeMC", r, c)
        run.exhaustive = True
        run.notes["cases_enumerated"] = len(cases)
        run.notes["arities"] = sorted({cs["n"] for cs in cases})
        # ---- 2. + 3. every case on the real code
        traces = execute(binp, d, "gen", cases=cases)
        judge(run, traces, d, "gen")
        # vacuity guard for the boxed families: every kind of special value (nil, typed nil, NaN, "", zero values, errors by
        # pointer / by value) was an INTERMEDIATE result of some real pipeline, and error values travelled through every arity
        kinds = {c["res"][0] for t in traces if t["fam"] == "anyspecial" for c in t["calls"] if c["i"] < t["n"]}
        if not kinds >= {0, 1, 2, 3, 4, 5, 6, 7, 8}:
            raise Infra("boxed families: special kinds %s never were an intermediate result" % sorted({0, 1, 2, 3, 4, 5, 6, 7, 8} - kinds))
        run.notes["special_kinds_as_intermediate_result"] = sorted(kinds)
        run.notes["arities_with_error_values_flowing"] = sorted({t["n"] for t in traces if t["fam"] in ("anyhist", "errhist") and len(t["calls"]) == t["n"]})
        run.sample({"case": cases[len(cases) // 2], "recorded": brief(traces[0])})
        # ---- 4. random arguments
        traces = execute(binp, d, "rnd", seed=run.seed, n=40 if thorough else 4)
        judge(run, traces, d, "rnd")
        run.sample({"random": brief(traces[-1])})


def brief(t):
    return {"fam": t["fam"], "n": t["n"], "a": t["a"], "ret": t["ret"], "first_calls": t["calls"][:3]}


def execute(binp, d, tag, cases=None, seed=None, n=None):
    outp = os.path.join(d, "traces_%s.jsonl" % tag)
    if cases is not None:
        inp = os.path.join(d, "cases_%s.jsonl" % tag)
        with open(inp, "w") as f:
            for cs in cases:
                f.write(json.dumps(cs) + "\n")
        p = common.run_bin(binp, ["-test.run", "TestReplay"], env=dict(VERIF_MODE="replay", VERIF_IN=inp, VERIF_OUT=outp))
    else:
        p = common.run_bin(binp, ["-test.run", "TestRandom"], env=dict(VERIF_MODE="random", VERIF_SEED=seed, VERIF_N=n, VERIF_OUT=outp))
    if p.returncode != 0:
        raise Infra("composedrv failed:\n" + (p.stdout + p.stderr)[-3000:])
    recs = [json.loads(l) for l in open(outp) if l.strip()]
    stats = [x for x in recs if x.get("t") == "stats"]
    traces = [x for x in recs if x.get("t") != "stats"]
    if not stats or stats[0]["traces"] != len(traces) or not traces:
        raise Infra("composedrv wrote an incomplete result file")
    return traces


def describe(t):
    return "Pipe%s family %s argument %s%s" % ("" if t["n"] == 2 else t["n"], t["fam"], json.dumps(t["a"]),
                                               (" (second invocation)" if t.get("second") else "") + (" (one of %d invocations of the same composed function running at once)" % t["conc"] if t.get("conc") else ""))


def judge(run, traces, d, tag):
    """P-level judgement of recorded invocations: returned value against TLC's expected value (when the case came
    from the generator) and the call log against the trace spec."""
    ok = []
    for t in traces:
        if t.get("panic"):
            run.violation({"kind": "panic", "n": t["n"]}, "%s panicked: %s" % (describe(t), t["panic"]),
                          {"mode": "trace", "trace": t})
            continue
        if t.get("want") is not None and t["ret"] != t["want"]:
            run.violation({"kind": "FinalValue", "n": t["n"]},
                          "%s returned %s, expected %s" % (describe(t), json.dumps(t["ret"]), json.dumps(t["want"])),
                          {"mode": "trace", "trace": t})
        ok.append(t)
    if not ok:
        return
    tf = os.path.join(d, "batch_%s.json" % tag)
    with open(tf, "w") as f:
        json.dump({"traces": ok}, f)
    r = run_tlc("ComposeTrace", TRACE_CFG, env={"TRACE_FILE": tf}, timeout=900)
    if r.violated:
        raise Infra("ComposeTrace stopped: " + r.out[-2000:])
    done = set()
    for v in r.json_prints():
        if v.get("t") == "DONE":
            done.add(v["ti"])
        elif v.get("t") == "PVIOL":
            t = ok[v["ti"] - 1]
            preds = sorted(v["preds"])
            if "HARNESS" in preds:
                raise Infra("harness function returned a value that is not F[i][arg]: %s line %d" % (describe(t), v["line"]))
            line = t["calls"][v["line"] - 1] if v["line"] <= len(t["calls"]) else {"end": True, "ret": t["ret"]}
            run.violation({"kind": preds[0], "n": t["n"]},
                          "%s: %s (log line %d: %s)" % (describe(t), "; ".join(WHAT[p] for p in preds), v["line"], json.dumps(line)),
                          {"mode": "trace", "trace": t, "preds": preds, "line": v["line"]})
    if len(done) != len(ok):
        raise Infra("ComposeTrace consumed %d of %d traces" % (len(done), len(ok)))
    run.traces += len(traces)
    run.add_mc("ComposeTrace", r, {"traces": len(ok), "calls": sum(len(t["calls"]) for t in ok)})


def do_replay(run, binp, path, d):
    """Re-executes the stored invocation (family, N, argument) on the current tree and re-judges it."""
    t = json.load(open(path))["payload"]["trace"]
    # no stored expectation is reused: the trace spec computes Composed(fam, n, a) itself (predicate Result)
    case = {"fam": t["fam"], "n": t["n"], "a": t["a"]}
    traces = execute(binp, d, "replay", cases=[case])
    judge(run, traces, d, "replay")
