#!/usr/bin/env python3
"""Re-evaluates every seeded change stored under /verif/seeded/<id>/ with the current checks (sequentially).
   usage: seeded_reeval.py [id-prefix ...]"""
import json, os, subprocess, sys, glob
VERIF = os.path.dirname(os.path.dirname(os.path.abspath(__file__)))
GO126 = {"C11-emit-hoisted-ticker", "C13-throttle-hoisted-ticker", "C13-output-capacity-plus-ops", "C13-evenly-spread-tokens", "C13-token-channel-2ops", "C11-emit-no-first-pause", "C13-throttling-permit-batches"}
for d in sorted(glob.glob(os.path.join(VERIF, "seeded", "*", ""))):
    sid = os.path.basename(os.path.dirname(d))
    if not os.path.exists(os.path.join(d, "meta.json")):
        continue
    if sys.argv[1:] and not any(sid.startswith(p) for p in sys.argv[1:]):
        continue
    m = json.load(open(os.path.join(d, "meta.json")))
    props = list(m.get("checks", {}).keys()) or [m["property"]]
    env = dict(os.environ)
    if sid in GO126:
        env["SEEDED_GO"] = "go1.26"
    src = "/tmp/reeval_" + sid
    subprocess.run(["rm", "-rf", src]); subprocess.run(["cp", "-r", d, src])
    print("==", sid, props, flush=True)
    subprocess.run([sys.executable, os.path.join(VERIF, "lib", "seeded_tool.py"), "eval", src, sid, m["demo_dir"]] + props, env=env)
    subprocess.run(["rm", "-rf", src])
