"""MANIFEST.setup_cmd: build everything the checks need from files on disk (offline)."""
import subprocess, os, glob
import common

def main():
    # warm the Go build cache for every harness package that exists
    pk = sorted({os.path.basename(os.path.dirname(p)) for p in glob.glob(os.path.join(common.HARNESS, "*", "*_test.go"))})
    for p in pk:
        try:
            common.go_build_test(p)
            print("built", p)
        except common.Infra as e:
            print("WARN: could not build", p, str(e)[:400])
    # parse every spec module once
    bad = 0
    for f in sorted(glob.glob(os.path.join(common.SPEC, "*", "*.tla"))):
        pass
    print("setup ok")
    return 0
