"""C16 - duct builds the AST its combinators describe; visits are well-bracketed.

  1. MC    spec/seq/DuctMC.tla: every well-typed program up to a bound; the tree built as coded (append/unit descending
           through the last child) equals the tree prescribed by the stack of open contexts; every visit state of the
           explicit-stack Apply machine, for every failing callback position k, satisfies the statement.
  2. GEN   spec/seq/DuctGen.tla prints every program (exhaustive up to a bound; every "nesting skeleton": all words over
           LiftF/WrapF/Unit with up to 3 open contexts over a reduced type alphabet, followed by 1-2 Join/Yield probes,
           up to 8 steps after From; a seeded `-simulate` sample of longer ones) with the expected tree and callback trace.  Go type parameters are static, so each program becomes a Go
           function (packages ./gen/ductprog/sNN, each next to a copy of harness/ductdrv/duct_test.go; several packages so
           that the Go compiler works in parallel) that runs the real combinators; the harness visits it with a recording
           visitor and with a visitor failing at every callback position k, and writes what it saw as JSONL.
  3. JUDGE what the real code did against TLC's expectation.  P level (a VIOLATION): one root morphism, declared steps
           in order with the nesting of the statement, type names = duct.TypeOf of the step's Go type parameters
           (computed by the generated code itself), brackets, child depth = parent depth + 1, cut at k with the injected
           error returned.  Everything finer (payloads, Deferred/Root/len(Seq) of the node handed to a callback, the
           absolute depth of the root, the spelling of TypeOf names, error identity vs. wrapping) is SPEC-DRIFT.
"""
import json, os, shutil, subprocess, time
import common
from common import run_tlc, Scratch, Infra

CONSTS = """CONSTANTS
  MaxLevel = %(maxlevel)d
  FromBases = {%(bases)s}
  FromLevels = {%(levels)s}
  Alphabet = "%(alphabet)s"
  MaxLand = %(land)d
  MidLand = %(mid)d
  MaxDepth = %(depth)d
  MaxSteps = %(steps)d
"""
MC_CFG = CONSTS + """  WithVisit = %(visit)s
SPECIFICATION Spec
INVARIANT TreeAgrees
INVARIANT OpenChain
INVARIANT NodeCount
INVARIANT Visit
INVARIANT TypeOk
CHECK_DEADLOCK FALSE
"""
GEN_CFG = CONSTS + """  MinEmit = %(minemit)d
INIT Init
NEXT Next
INVARIANT Emit
CHECK_DEADLOCK FALSE
"""


def full(**kw):
    """The full family: both element types, sources of slice level 0..2, every transformer codomain of JT."""
    return dict(dict(maxlevel=3, bases='"int", "string"', levels="0, 1, 2", alphabet="full", land=99, mid=99, depth=99, minemit=1), **kw)


def skel(**kw):
    """The nesting skeletons: source [][][]int, one Join / one LiftF per type, Unit only to close; every word over
    {LiftF, WrapF, Unit} with at most 3 contexts open, with `mid` Join/Yield steps inside and `land` in total
    (mid = 0: the Join/Yield steps are trailing probes that show where the program lands after the nesting word)."""
    return dict(dict(maxlevel=14, bases='"int"', levels="3", alphabet="skeleton", land=2, mid=0, depth=3, minemit=1), **kw)


GO_BASE = {"int": "int", "string": "string", "Void": "duct.Void"}
MODEL_NAME = {"int": "int", "string": "string", "Void": "Void"}     # what TypeOf is expected to print (I level only)
PER_FILE = 200
SHARD = 600          # programs per generated package (packages compile in parallel)
MAX_REPORTED = 40


def go_type(t):
    return "[]" * t["l"] + GO_BASE[t["b"]]


def model_name(t):
    return "[]" * t["l"] + MODEL_NAME[t["b"]]


def show(case):
    """A program the way a Go programmer would write it (for samples and messages)."""
    parts = []
    for st in case["prog"]:
        b, c = go_type(st["b"]), go_type(st["c"])
        op = st["op"]
        parts.append({"from": "From[%s]" % b, "join": "Join[%s -> %s]" % (b, c), "liftf": "LiftF[%s -> %s]" % (b, c),
                      "wrapf": "WrapF[%s]" % b, "unit": "Unit[%s]" % b, "yield": "Yield[%s]" % b}[op])
    return " |> ".join(parts)


def sketch(n):
    if n["k"] in ("root", "seq"):
        return "%s%s(%s)" % ("m" if n["k"] == "root" else "seq", "" if n["open"] else "!", " ".join(sketch(c) for c in n["ch"]))
    return n["k"] + ":%d" % (n["id"] // 2)


def nesting(n):
    return max([0] + [(1 if c["k"] == "seq" else 0) + nesting(c) for c in n["ch"]])


# ------------------------------------------------------------------------------------------------- Go generation
def emit_program(pid, case):
    body, steps = [], []
    for n, st in enumerate(case["prog"], 1):
        b, c, op = go_type(st["b"]), go_type(st["c"]), st["op"]
        if op == "from":
            if n != 1:
                raise Infra("malformed program: From at step %d" % n)
            body.append("\tm1 := duct.From(duct.L1[%s](1))" % b)
            steps.append('{Op: "from", A: duct.TypeOf[%s](), B: duct.TypeOf[%s]()}' % (b, b))
        elif op == "join":
            body.append("\tm%d := duct.Join(duct.L2[%s, %s](%d), m%d)" % (n, b, c, n, n - 1))
            steps.append('{Op: "join", A: duct.TypeOf[%s](), B: duct.TypeOf[%s]()}' % (b, c))
        elif op == "liftf":
            body.append("\tm%d := duct.LiftF(duct.L2[%s, %s](%d), m%d)" % (n, b, c, n, n - 1))
            steps.append('{Op: "liftf", A: duct.TypeOf[%s](), B: duct.TypeOf[%s]()}' % (b, c))
        elif op == "wrapf":
            body.append("\tm%d := duct.WrapF(m%d)" % (n, n - 1))
            steps.append('{Op: "wrapf"}')
        elif op == "unit":
            body.append("\tm%d := duct.Unit(m%d)" % (n, n - 1))
            steps.append('{Op: "unit"}')
        elif op == "yield":
            body.append("\tm%d := duct.Yield(duct.L1[%s](%d), m%d)" % (n, b, n, n - 1))
            steps.append('{Op: "yield", A: duct.TypeOf[%s](), B: duct.TypeOf[%s]()}' % (b, b))
        else:
            raise Infra("unknown step %r" % op)
    return ("// %s\nfunc p%d() (applier, []step) {\n%s\n\treturn m%d, []step{\n%s\n\t}\n}\n"
            % (show(case), pid, "\n".join(body), len(case["prog"]), "\n".join("\t\t" + s + "," for s in steps)))


def go_sources(cases):
    """cases: list of (id, case).  Returns {file name: text}."""
    files = {}
    for fi in range(0, len(cases), PER_FILE):
        chunk = cases[fi:fi + PER_FILE]
        txt = ["// Code generated by /verif/lib/fam_duct.py from spec/seq/DuctGen.tla output. DO NOT EDIT.\n",
               "package ductdrv\n", 'import "github.com/fogfish/golem/duct"\n',
               "func init() {\n\tregister(\n%s\n\t)\n}\n" % "\n".join("\t\tprogram{ID: %d, Build: p%d}," % (i, i) for i, _ in chunk)]
        txt += [emit_program(i, c) for i, c in chunk]
        files["prog_%04d_test.go" % (fi // PER_FILE)] = "\n".join(txt)
    return files


def build_generated(cases, tag):
    """Writes the generated packages ./gen/ductprog/sNN (the programs are spread over several packages so that the Go
    compiler works on them in parallel) and compiles their test binaries; everything under the build lock
    (common.go_build_test takes the same lock itself, hence this helper).  Returns ([binaries], directory, seconds)."""
    nshards = max(1, min(common.NCPU, 16, (len(cases) + SHARD - 1) // SHARD))
    per = (len(cases) + nshards - 1) // nshards
    drv = open(os.path.join(common.HARNESS, "ductdrv", "duct_test.go")).read()
    with common.build_lock():
        common.prune_gocache()
        w = common.prepare_harness()
        g = common.gen_dir("ductprog")
        want = {}
        for si in range(nshards):
            files = go_sources(cases[si * per:(si + 1) * per])
            files["duct_test.go"] = drv
            want["s%02d" % si] = files
        for name in os.listdir(g):
            if name not in want:
                q = os.path.join(g, name)
                shutil.rmtree(q) if os.path.isdir(q) else os.remove(q)
        for sh, files in want.items():
            sd = os.path.join(g, sh)
            os.makedirs(sd, exist_ok=True)
            for f in os.listdir(sd):
                if f not in files:
                    os.remove(os.path.join(sd, f))
            for f, txt in files.items():
                p = os.path.join(sd, f)
                if not os.path.exists(p) or open(p).read() != txt:
                    with open(p, "w") as fh:
                        fh.write(txt)
        outd = os.path.join(w, "bin", "gen_ductprog_%s" % tag)
        shutil.rmtree(outd, ignore_errors=True)
        os.makedirs(outd)
        t0 = time.time()
        try:
            p = subprocess.run([common.GO, "test", "-c", "-vet=off", "-tags", "verif", "-o", outd + os.sep, "./gen/ductprog/..."],
                               cwd=w, env=common.GOENV, stdout=subprocess.PIPE, stderr=subprocess.STDOUT, text=True, timeout=1500)
        except subprocess.TimeoutExpired:
            shutil.rmtree(outd, ignore_errors=True)
            raise Infra("go build of the generated duct programs timed out")
        if p.returncode != 0:
            shutil.rmtree(outd, ignore_errors=True)
            raise Infra("go build of the generated duct programs failed (a well-typed program of the model is rejected by "
                        "the Go type checker, or the duct API changed):\n" + p.stdout[-4000:])
        bins = [os.path.join(outd, sh + ".test") for sh in sorted(want)]
        for b in bins:
            if not os.path.exists(b):
                raise Infra("go build did not produce %s:\n%s" % (b, p.stdout[-2000:]))
        return bins, outd, time.time() - t0


# ------------------------------------------------------------------------------------------------- judging
class Verdict:
    def __init__(self):
        self.viol = None          # (kind, text, k)
        self.drift = {}           # category -> text

    def v(self, kind, text, k=0):
        if self.viol is None:
            self.viol = (kind, text, k)

    def d(self, cat, text):
        self.drift.setdefault(cat, text)


def actual_tree(trace, vd):
    """Bracket-matches an observed *complete* trace ([cb, kind, depth, ta, tb, ...] entries).  Returns the tree
    {k, ta, tb, d, ch} of the first top-level node or None; records the first P-level problem in vd."""
    tops, stack = [], []
    for i, e in enumerate(trace):
        cb, kind, d = e[0], e[1], e[2]
        if cb == "enter":
            node = {"k": kind, "ta": e[3], "tb": e[4], "d": d, "ch": [], "pay": e[5], "root": e[6], "open": e[7], "len": e[8]}
            if stack:
                if d != stack[-1]["d"] + 1:
                    vd.v("Depth", "callback %d: %s entered at depth %d inside a %s at depth %d" % (i + 1, kind, d, stack[-1]["k"], stack[-1]["d"]))
                stack[-1]["ch"].append(node)
            else:
                tops.append(node)
            stack.append(node)
        else:
            if not stack or stack[-1]["k"] != kind:
                vd.v("Bracket", "callback %d: leave %s while the innermost entered node is %s" % (i + 1, kind, stack[-1]["k"] if stack else "none"))
                return None
            if stack[-1]["d"] != d:
                vd.v("Bracket", "callback %d: leave %s at depth %d, entered at depth %d" % (i + 1, kind, d, stack[-1]["d"]))
            stack.pop()
    if stack:
        vd.v("Bracket", "enter %s at depth %d is never left although no callback failed" % (stack[-1]["k"], stack[-1]["d"]))
        return None
    if len(tops) != 1 or tops[0]["k"] != "morphism":
        vd.v("Root", "the visit reports %s at top level, expected exactly one root morphism" % ([t["k"] for t in tops] or "nothing"))
        return tops[0] if tops else None
    return tops[0]


def compare_tree(exp, act, steps, path, vd):
    """exp: TLC's tree node; act: reconstructed node.  Kinds / order / nesting (Shape), type names (TypeName)."""
    ek = "morphism" if exp["k"] == "root" else exp["k"]
    if act["k"] != ek:
        vd.v("Shape", "node %s is a %s, the program declares a %s there" % (path or "root", act["k"], ek))
        return
    if ek in ("from", "map", "yield"):
        st = steps[exp["id"] // 2 - 1]
        if (act["ta"], act["tb"]) != (st["a"], st["b"]):
            vd.v("TypeName", "node %s (%s of step %d) records types (%r, %r), duct.TypeOf of the step's parameters gives (%r, %r)"
                 % (path, ek, exp["id"] // 2, act["ta"], act["tb"], st["a"], st["b"]))
        if (st["a"], st["b"]) != (model_name(exp["ta"]), model_name(exp["tb"])):
            vd.d("typeof-spelling", "duct.TypeOf gives (%r, %r) where the model expects (%r, %r)" % (st["a"], st["b"], model_name(exp["ta"]), model_name(exp["tb"])))
        if act["pay"] != exp["id"] // 2:
            vd.d("payload", "node %s carries payload %r, the step handed in %d" % (path, act["pay"], exp["id"] // 2))
        return
    if len(act["ch"]) != len(exp["ch"]) or any(a["k"] != ("morphism" if e["k"] == "root" else e["k"]) for a, e in zip(act["ch"], exp["ch"])):
        vd.v("Shape", "context %s has children %s, the program declares %s" % (path or "root", [a["k"] for a in act["ch"]], [e["k"] for e in exp["ch"]]))
        return
    if act["root"] != (ek == "morphism"):
        vd.d("root-flag", "context %s handed to the callback with Root=%s" % (path or "root", act["root"]))
    if act["open"] != exp["open"]:
        vd.d("deferred-flag", "context %s handed to the callback with Deferred=%s, the model has %s" % (path or "root", act["open"], exp["open"]))
    if act["len"] != len(exp["ch"]):
        vd.d("seq-len", "context %s handed to the callback with %d children, %d visited" % (path or "root", act["len"], len(exp["ch"])))
    for i, (e, a) in enumerate(zip(exp["ch"], act["ch"])):
        compare_tree(e, a, steps, "%s/%d" % (path, i + 1), vd)


def p_projection_expected(case, steps):
    out = []
    for e in case["trace"]:
        if e["k"] in ("from", "map", "yield"):
            st = steps[e["id"] // 2 - 1]
            out.append((e["cb"], e["k"], e["d"], st["a"], st["b"]))
        else:
            out.append((e["cb"], e["k"], e["d"], None, None))
    return out


def p_projection_actual(trace, d0):
    return [(e[0], e[1], e[2] - d0, e[3], e[4]) if e[1] in ("from", "map", "yield") else (e[0], e[1], e[2] - d0, None, None) for e in trace]


def judge(case, res):
    vd = Verdict()
    steps = res.get("steps") or []
    full = res["full"]
    if full.get("panic"):
        vd.v("Panic", "building or visiting the program panics: " + full["panic"].splitlines()[0])
        return vd
    if [s["op"] for s in steps] != [s["op"] for s in case["prog"]]:
        raise Infra("generated program %s does not declare the steps of its case" % show(case))
    if full["err"] != "nil":
        vd.v("SpuriousError", "Apply returns an error (%s) although no callback failed" % full["err"])
    tr = full["trace"]
    act = actual_tree(tr, vd)
    if act is not None and vd.viol is None:
        compare_tree(case["tree"], act, steps, "", vd)
    want = p_projection_expected(case, steps)
    d0 = tr[0][2] if tr else 0
    if vd.viol is None and p_projection_actual(tr, d0) != want:
        vd.v("Trace", "the callback trace differs from the expected one")
    if vd.viol is not None:
        return vd
    if d0 != 0:
        vd.d("root-depth", "the root morphism is visited at depth %d" % d0)
    # ---- a visitor failing at position k: the first k callbacks, then nothing, and the error comes back
    fails = res.get("fails") or []
    if len(fails) != len(want):
        raise Infra("harness ran %d failing visits for %d callback positions" % (len(fails), len(want)))
    for f in fails:
        k = f["k"]
        if f.get("panic"):
            vd.v("Panic", "visiting with a visitor failing at callback %d panics: %s" % (k, f["panic"].splitlines()[0]), k)
        elif len(f["trace"]) > k:
            vd.v("VisitContinues", "the visitor fails at callback %d (%s %s) and still receives %d more callbacks"
                 % (k, want[k - 1][0], want[k - 1][1], len(f["trace"]) - k), k)
        elif p_projection_actual(f["trace"], d0) != want[:k]:
            vd.v("Trace", "with the visitor failing at callback %d the trace is not the first %d callbacks of the full visit" % (k, k), k)
        elif f["err"] not in ("same", "wrapped"):
            vd.v("ErrorNotReturned", "the visitor fails at callback %d (%s %s); Apply returns %s" % (k, want[k - 1][0], want[k - 1][1], f["err"]), k)
        elif f["err"] == "wrapped":
            vd.d("error-wrapped", "the callback's error comes back wrapped")
        if vd.viol is not None:
            break
    return vd


def run_and_judge(run, cases, tag):
    """cases: list of TLC cases.  Generates, builds, runs, judges.  Returns number of programs judged."""
    indexed = list(enumerate(cases, 1))
    t0 = time.time()
    bins, outd, secs = build_generated(indexed, tag)
    run.notes["go_build_s"] = round(run.notes.get("go_build_s", 0) + secs, 1)
    run.notes["go_generate_and_lock_wait_s"] = round(time.time() - t0 - secs, 1)
    t0 = time.time()
    run.notes["go_packages"] = len(bins)
    try:
        with Scratch() as d:
            procs = []
            for i, b in enumerate(bins):
                outp = os.path.join(d, "res%d.jsonl" % i)
                e = dict(common.GOENV, VERIF_OUT=outp)
                procs.append((outp, subprocess.Popen([b, "-test.run", "TestRun", "-test.timeout", "30m"], cwd=d, env=e,
                                                     stdout=subprocess.PIPE, stderr=subprocess.STDOUT, text=True, errors="replace")))
            seen, nviol, visits, nprog = 0, 0, 0, 0
            for outp, pr in procs:
                try:
                    so, _ = pr.communicate(timeout=2400)
                except subprocess.TimeoutExpired:
                    for _, q in procs:
                        q.kill()
                    raise Infra("ductprog harness timeout")
                if pr.returncode != 0:
                    for _, q in procs:
                        q.kill()
                    raise Infra("ductprog harness failed:\n" + so[-3000:])
                stats = None
                for line in open(outp):
                    rec = json.loads(line)
                    if rec["t"] == "stats":
                        stats = rec
                        continue
                    case = cases[rec["id"] - 1]
                    vd = judge(case, rec)
                    seen += 1
                    if vd.viol:
                        nviol += 1
                        if nviol <= MAX_REPORTED:
                            kind, text, k = vd.viol
                            obs = rec["full"] if not k else rec["fails"][k - 1]
                            run.violation({"kind": kind}, "duct %s: program %s: %s (expected tree %s)" % (kind, show(case), text, sketch(case["tree"])),
                                          {"case": case, "k": k, "observed": obs, "go": emit_program(rec["id"], case)})
                    for cat, text in vd.drift.items():
                        if not any(x.startswith(cat + ":") for x in run.drift):
                            run.drift.append("%s: %s (first seen on %s)" % (cat, text, show(case)))
                if not stats:
                    raise Infra("a ductprog harness binary wrote no stats line")
                visits += stats["visits"]
                nprog += stats["programs"]
            if seen != len(cases) or nprog != len(cases):
                raise Infra("harness judged %d of %d programs" % (seen, len(cases)))
            run.traces += visits
            run.notes["run_and_judge_s"] = round(time.time() - t0, 1)
            run.notes["programs_run"] = run.notes.get("programs_run", 0) + seen
            run.notes["visits"] = run.notes.get("visits", 0) + visits
            if nviol:
                run.notes["programs_violating"] = run.notes.get("programs_violating", 0) + nviol
    finally:
        shutil.rmtree(outd, ignore_errors=True)
    return len(cases)


# ------------------------------------------------------------------------------------------------- the check
def check(run, replay=None):
    thorough = run.tier == "thorough"
    tag = "%s_%d" % (run.tier, os.getpid())
    if replay:
        rec = json.load(open(replay))
        run_and_judge(run, [rec["payload"]["case"]], tag + "_replay")
        return
    # ---- 1. MC: I (append/unit/Apply as coded) against P (stack of open contexts, bracketed walk, cut at k)
    #         the skeleton configurations cover exactly the programs that GEN emits below
    mcs = [full(steps=4, visit="TRUE"), skel(steps=8, visit="TRUE"), full(steps=6, visit="FALSE"), skel(steps=9, visit="FALSE")]
    if thorough:
        mcs = [full(steps=6, visit="TRUE"), full(steps=7, visit="FALSE"), skel(steps=8, visit="TRUE"),
               skel(steps=10, mid=1, visit="FALSE")]
    for c in mcs:
        r = run_tlc("DuctMC", MC_CFG % c, timeout=1500, heap="6g" if thorough else None)
        run.add_mc("DuctMC", r, c)
        if r.violated:
            raise Infra("model error: DuctMC violates %s with %s (the I layer no longer refines the P layer)" % (r.violated, c))
        if r.distinct == 0:
            raise Infra("DuctMC explored nothing:\n" + r.out[-2000:])
    run.exhaustive = True
    # ---- 2. GEN: every program up to the bound, every nesting skeleton, and a seeded sample of long programs
    exs = [full(bases='"int"', steps=5), skel(steps=9)]
    sim = full(steps=9, minemit=6)
    nsim = 60
    if thorough:
        exs = [full(bases='"int"', steps=6), full(bases='"string"', steps=5), skel(steps=10, mid=1)]
        sim = full(steps=11, minemit=7)
        nsim = 600
    cases = []
    for ex in exs:
        r = run_tlc("DuctGen", GEN_CFG % ex, workers=1, timeout=1500)
        got = r.json_prints("case")
        if not got or r.violated or len(got) != r.distinct:
            raise Infra("DuctGen printed %d cases for %d states:\n%s" % (len(got), r.distinct, r.out[-2000:]))
        run.add_mc("DuctGen", r, ex)
        cases += got
        key = "programs_skeleton" if ex["alphabet"] == "skeleton" else "programs_exhaustive"
        run.notes[key] = run.notes.get(key, 0) + len(got)
        if ex["alphabet"] == "skeleton":
            run.notes["skeleton_max_nesting"] = max(nesting(c["tree"]) for c in got)
            skel_sample = max(got, key=lambda c: (nesting(c["tree"]), len(c["prog"])))
    r = run_tlc("DuctGen", GEN_CFG % sim, workers=1, timeout=1500, simulate="num=%d" % nsim,
                args=["-seed", str(run.seed), "-depth", str(sim["steps"] + 1)])
    seen, long_cases = set(), []
    for c in r.json_prints("case"):
        key = json.dumps(c["prog"], sort_keys=True)
        if key not in seen:
            seen.add(key)
            long_cases.append(c)
    if not long_cases:
        raise Infra("DuctGen -simulate printed no cases:\n" + r.out[-2000:])
    run.add_mc("DuctGen-simulate", r, dict(sim, traces=nsim, seed=run.seed))
    run.notes["programs_sampled_long"] = len(long_cases)
    run.notes["longest_program_steps"] = max(len(c["prog"]) for c in long_cases)
    cases += long_cases
    # deep nesting: random nesting words with up to 12 contexts open, of which the programs that call Unit while eight or more
    # contexts are open are kept (a fixed-size path / stack inside the package shows only there)
    dc = skel(steps=14, depth=12, land=1, mid=0, minemit=11)
    r = run_tlc("DuctGen", GEN_CFG % dc, workers=1, timeout=1500, simulate="num=%d" % (60000 if thorough else 15000),
                args=["-seed", str(run.seed), "-depth", "15"])

    def unit_at_depth(c, k):
        d = 0
        for st in c["prog"]:
            if st["op"] in ("liftf", "wrapf"):
                d += 1
            elif st["op"] == "unit":
                if d >= k:
                    return True
                d -= 1
        return False
    seen, deep_cases = set(), []
    for c in r.json_prints("case"):
        key = json.dumps(c["prog"], sort_keys=True)
        if key not in seen and unit_at_depth(c, 8):
            seen.add(key)
            deep_cases.append(c)
    deep_cases = deep_cases[:400 if thorough else 80]
    if not deep_cases:
        raise Infra("DuctGen -simulate printed no program with a Unit below eight open contexts")
    run.add_mc("DuctGen-simulate", r, dict(dc, traces=60000 if thorough else 15000, seed=run.seed))
    run.notes["programs_with_unit_below_8_open_contexts"] = len(deep_cases)
    cases += deep_cases
    for c in cases:
        if not c["agree"]:
            raise Infra("model error: I and P trees differ for " + show(c))
    # ---- 3. the same programs against the real package
    run_and_judge(run, cases, tag)
    for c in (cases[len(cases) // 3], skel_sample, long_cases[0], long_cases[-1]):
        run.sample({"program": show(c), "expected_tree": sketch(c["tree"]), "callbacks": len(c["trace"])})
