"""Regenerates MANIFEST.json from the table below (single source of truth for the claimed checks)."""
import json, os, sys
VERIF = os.path.dirname(os.path.dirname(os.path.abspath(__file__)))
PIPE_TECH = 'TLA+ model checking (TLC) of the implementation-shaped stage models against the PipeProps.tla predicates + TLC-generated schedules and seeded random schedules replayed on the real goroutines under a testing/synctest controller + TLC trace validation (PipeTraceP.tla) of every recorded execution'
PIPE_NOTE = "Trusted: TLC; testing/synctest (quiescence = every goroutine durably blocked; virtual clock); the harness' user functions and actors; PipeProps.tla as the reading of the statement. Select-arm choice and goroutine scheduling inside a step are explored exhaustively only in the model; on the real code they are sampled (each schedule replayed once per run; seeds vary). Bounds are in the evidence file (mc_runs constants)."
CLAIMED = {
 'C05': dict(ref='5 (C05)', tech=PIPE_TECH, text="TLC explores every interleaving of producer, stage and consumers of the sequential stages (Map, FMap, Filter, ForEach, Void, Fold, Partition, Take n=0..4, TakeWhile; capacities 0,1,2; inputs up to 3-4 elements) in Stage.tla with the list-image predicates as invariants; one schedule per distinct quiescent state of the model plus random schedules are replayed on the real stages and every recorded execution is judged by the same predicates (prefix always, exact image and closure at the end, Take's consumption bound, one visit per element).", note=PIPE_NOTE),
 'C06': dict(ref='5 (C06)', tech=PIPE_TECH, text='As C05 with the cancel and the close placed at every quiescent point (TLC-generated) and at every point of every interleaving (model), plus gated user calls for mid-iteration cancels; predicates: no panic, delivered is a prefix of the uncancelled result, settle-1 (inputs closed + drained => closed and goroutines gone), settle-2 (cancelled + inputs closed => goroutines gone, receivers released) for all 14 stages incl. Emit, Unfold, Join, Throttling, StdErr on a virtual clock.', note=PIPE_NOTE),
 'C07': dict(ref='5 (C07)', tech=PIPE_TECH, text='All subsets of failing positions of inputs of length 3 (quick) / 4 (thorough) x Lift/Try/LiftF/TryF x Map/FMap x capacities 0,1,2 are model-checked; TLC-generated and random schedules (longer inputs, random failure sets, StdErr attached, Emit/Unfold) are replayed on the real code and judged: outputs = image of the elements before the first failure / of the non-failing ones, errors once each in order, calls stop at the first failure under Lift, both channels close, nothing blocks while the error channel is read.', note=PIPE_NOTE),
 'C08': dict(ref='5 (C08)', tech=PIPE_TECH, text='Executions of the real pipe.New pump (capacities 0..3, backlog draining to empty and refilling, cancel or close-by-sender at random points, with the receiver waiting or not) are judged by TLC: FIFO prefix, a send never parked before cancel/close, everything whose send completed before the cancel is delivered before the close, clean end of stream after close by the sender, no panic.', note=PIPE_NOTE),
 'C09': dict(ref='5 (C09)', tech=PIPE_TECH, text='Stage.tla with par workers (1..3) and a closer goroutine: every order of completion of in-flight gated user calls and every producer/consumer/cancel interleaving is model-checked; TLC-generated schedules (release orders included) and random ones are replayed on the real fork stages: multiset of results = sequential image, each element entered exactly once, no send on a closed channel (no panic), settle-1/2; thorough tier re-runs the schedules under the race detector with GOMAXPROCS 1, 2, 16.', note=PIPE_NOTE),
 'C10': dict(ref='5 (C10)', tech=PIPE_TECH, text='fork.Fold instance of Stage.tla (workers folding from Empty, collector combining par partials): worker counts 1..4, inputs of length 0..4 (also shorter than the worker count), monoids sum, product, max, min, bit-and, bit-or; gated Combine calls steer the distribution of elements over workers; predicates: exactly one value equal to the sequential left fold, each element combined once, then closed.', note=PIPE_NOTE),
 'C11': dict(ref='5 (C11)', tech=PIPE_TECH, text='Executions of the real Emit / Unfold on the virtual clock (capacities 0..2, frequencies 1..3 units, step functions succ/double/const, failing indices under Try and Lift, consumer paces incl. a keep-up consumer and a slow one, cancel at random points) judged by TLC: exact successive sequence, f called once per tick and never early, a consumer that keeps up gets one value per tick, both channels close and the goroutine exits after cancel.', note=PIPE_NOTE),
 'C12': dict(ref='5 (C12)', tech=PIPE_TECH, text='Executions of the real Join (0..3 inputs, capacities 0,1, tagged values, random interleavings of sends on different inputs, closes, receives and cancel) judged by TLC: per-input order kept, nothing invented or duplicated, the output closes (uncancelled) only after every input was closed and drained and then contains exactly all elements.', note=PIPE_NOTE),
 'C13': dict(ref='5 (C13)', tech=PIPE_TECH, text='Executions of the real Throttling on the virtual clock (ops 1..3, interval 2..3, capacities 0..2; random arrival patterns, saturation and idle-then-burst drivers) judged by TLC on the recorded virtual timestamps: order and completeness, no window of one interval with more than 2*ops+1+c deliveries before cancel, pacing bracket under saturation.', note=PIPE_NOTE),

 "C18": dict(ref="5 (C18)", tech="TLA+ model checking (TLC) of SkipList.tla + replay of every TLC-generated structure/transition/history into the real list + TLC trace validation of random histories",
   text="TLC explores every reachable skip-list structure over a small key universe and all node heights and shows that the implementation-shaped model refines an ordered map; every structure, transition and short history TLC generates is replayed through the real list (heights injected), and long random histories with real random heights are judged step by step by TLC against the map and printed-form predicates.",
   note="Trusted: TLC, the Go harness' parser of String(), the transcription of skip/Put/Remove into SkipList.tla (bound to the code by exact printed-form comparison, reported as SPEC-DRIFT). Bounds: keys<=5, levels<=4 exhaustive; random histories <=1200 ops over <=18 keys."),
}
PENDING_REASON = "machinery for this property is still under construction (DESIGN.md section 11); it will be claimed once its check is green on the unchanged tree"
def main():
    props = [json.loads(l)["id"] for l in open(os.path.join(VERIF, "properties.jsonl"))]
    checks, na = [], []
    for p in props:
        if p in CLAIMED:
            c = CLAIMED[p]
            checks.append({"property_id": p, "quick_cmd": "./check %s --tier quick" % p, "thorough_cmd": "./check %s --tier thorough" % p,
                "evidence_file": "/verif/evidence/%s.json" % p, "replay_cmd_template": "./check %s --replay {path}" % p, "engine": "tlc",
                "level_claimed": {"category": "model_checking", "text": c["text"], "design_ref": "DESIGN.md section " + c["ref"]},
                "level_note": c["note"], "technique": c["tech"]})
        else:
            na.append({"property_id": p, "reason": PENDING_REASON})
    m = {"version": 1, "setup_cmd": "./check setup",
         "hooks": {"guard": "verif", "enable": "go build/test -tags verif (the harness module under /verif/harness replaces the golem modules with /repo/*)",
                   "baseline_off_cmd": "for m in duct hseq optics pipe pure trait; do (cd /repo/$m && go test -mod=mod -json -vet=off -count=1 -timeout 25m ./...); done",
                   "source_commits": HOOKS, "add_only": True},
         "engines": [{"name": "tlc", "path": "/verif/spec", "serves_properties": sorted(CLAIMED), "kind_free_text": "TLA+ specifications checked with TLC 1.8.0; Go conformance harnesses under /verif/harness replay TLC-generated behaviours into the real code and record traces that TLC validates"}],
         "checks": checks, "not_applicable": na,
         "notes": "All verdicts come from executions of the code in /repo's working tree; see DESIGN.md."}
    json.dump(m, open(os.path.join(VERIF, "MANIFEST.json"), "w"), indent=1)
HOOKS = ["04a01f3"]
FIXES = ["6810e97", "060801a", "a639635", "b38c68d"]
if __name__ == "__main__":
    main()
