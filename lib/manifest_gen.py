"""Regenerates MANIFEST.json from the table below (single source of truth for the claimed checks)."""
import json, os, sys
VERIF = os.path.dirname(os.path.dirname(os.path.abspath(__file__)))
CLAIMED = {
 "C18": dict(ref="5 (C18)", tech="TLA+ model checking (TLC) of SkipList.tla + replay of every TLC-generated structure/transition/history into the real list + TLC trace validation of random histories",
   text="TLC explores every reachable skip-list structure over a small key universe and all node heights and shows that the implementation-shaped model refines an ordered map; every structure, transition and short history TLC generates is replayed through the real list (heights injected), and long random histories with real random heights are judged step by step by TLC against the map and printed-form predicates.",
   note="Trusted: TLC, the Go harness' parser of String(), the transcription of skip/Put/Remove into SkipList.tla (bound to the code by exact printed-form comparison, reported as SPEC-DRIFT). Bounds: keys<=5, levels<=4 exhaustive; random histories <=1200 ops over <=18 keys."),
}
PENDING_REASON = "machinery for this property is still under construction (DESIGN.md section 11); it will be claimed once its check is green on the unchanged tree"
def main():
    props = [json.loads(l)["id"] for l in open(os.path.join(VERIF, "properties.jsonl"))]
    checks, na = [], []
    for p in props:
        if p in CLAIMED:
            c = CLAIMED[p]
            checks.append({"property_id": p, "quick_cmd": "./check %s --tier quick" % p, "thorough_cmd": "./check %s --tier thorough" % p,
                "evidence_file": "/verif/evidence/%s.json" % p, "replay_cmd_template": "./check %s --replay {path}" % p, "engine": "tlc",
                "level_claimed": {"category": "model_checking", "text": c["text"], "design_ref": "DESIGN.md section " + c["ref"]},
                "level_note": c["note"], "technique": c["tech"]})
        else:
            na.append({"property_id": p, "reason": PENDING_REASON})
    m = {"version": 1, "setup_cmd": "./check setup",
         "hooks": {"guard": "verif", "enable": "go build/test -tags verif (the harness module under /verif/harness replaces the golem modules with /repo/*)",
                   "baseline_off_cmd": "for m in duct hseq optics pipe pure trait; do (cd /repo/$m && go test -mod=mod -json -vet=off -count=1 -timeout 25m ./...); done",
                   "source_commits": HOOKS, "add_only": True},
         "engines": [{"name": "tlc", "path": "/verif/spec", "serves_properties": sorted(CLAIMED), "kind_free_text": "TLA+ specifications checked with TLC 1.8.0; Go conformance harnesses under /verif/harness replay TLC-generated behaviours into the real code and record traces that TLC validates"}],
         "checks": checks, "not_applicable": na,
         "notes": "All verdicts come from executions of the code in /repo's working tree; see DESIGN.md."}
    json.dump(m, open(os.path.join(VERIF, "MANIFEST.json"), "w"), indent=1)
HOOKS = ["04a01f3"]
if __name__ == "__main__":
    main()
