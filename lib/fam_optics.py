"""C01-C04 - optics / hseq: TLC enumerates struct shapes and prints, for a seeded sample plus fixed boundary shapes,
what the property statements promise about each; this module turns those shapes into Go source (struct types, generic
instantiations of hseq/optics on them, selector-written accessors), builds it against common.REPO and lets the
static drivers in harness/opticsdrv compare the real library with TLC's expectations."""
import json, os, random, shutil, subprocess, threading, time
import common
from common import run_tlc, Scratch, Infra, log
import gen_optics as G

# ----------------------------------------------------------------------------------------------- TLC configurations
SHAPE_CONSTS = """CONSTANTS
  LeafTypes = {%(leaf)s}
  EmbKinds = {%(emb)s}
  NamedStructs = %(named)s
  NameMode = "%(names)s"
  TagMode = "%(tags)s"
  MaxFields = %(maxfields)d
  MaxDepth = %(maxdepth)d
  MaxSub = %(maxsub)d
  MaxTotal = %(maxtotal)d
  TypePrefix = ""
  Reuse = %(reuse)s
  WithBoundary = %(boundary)s
  Seed = %(seed)d
  Modulus = %(modulus)d
"""


def shape_cfg(c, seed, invariants):
    d = dict(c)
    d["leaf"] = ", ".join('"%s"' % t for t in c["leaf"])
    d["emb"] = ", ".join('"%s"' % t for t in c["emb"])
    d["named"] = "TRUE" if c.get("named") else "FALSE"
    d["boundary"] = "TRUE" if c.get("boundary") else "FALSE"
    d["reuse"] = "TRUE" if c.get("reuse") else "FALSE"
    d.setdefault("maxsub", 1)
    d.setdefault("tags", "none")
    d["seed"] = seed
    txt = SHAPE_CONSTS % d
    for k in c.get("extra", {}):
        txt += "  %s = %s\n" % (k, c["extra"][k])
    txt += "SPECIFICATION Spec\n" + "".join("INVARIANT %s\n" % i for i in invariants) + "CHECK_DEADLOCK FALSE\n"
    return txt


def tlc_parallel(jobs, workers_each):
    """jobs: list of (module, cfg_text, name, constants).  Runs them concurrently; returns list of TLCResult."""
    res = [None] * len(jobs)
    err = []

    def one(i):
        try:
            res[i] = run_tlc(jobs[i][0], jobs[i][1], workers=workers_each, timeout=1500, heap="3g")
        except Exception as e:  # noqa
            err.append(e)

    th = [threading.Thread(target=one, args=(i,)) for i in range(len(jobs))]
    [t.start() for t in th]
    [t.join() for t in th]
    if err:
        raise err[0]
    return res


# ----------------------------------------------------------------------------------------------- build / run
def build_packages(pkgs, dest):
    """pkgs: {name: {filename: text}} generated under gen/<name>.  Builds all test binaries with one `go test -c`
    (go builds the packages in parallel) and copies them to dest.  Returns {name: binary path}."""
    with common.build_lock():
        common.prune_gocache()
        w = common.prepare_harness()
        for name, files in pkgs.items():
            d = common.gen_dir(name)
            for f in os.listdir(d):
                os.remove(os.path.join(d, f))
            for fn, text in files.items():
                with open(os.path.join(d, fn), "w") as fh:
                    fh.write(text)
        outdir = os.path.join(w, "bin", "optics_%d" % os.getpid())
        shutil.rmtree(outdir, ignore_errors=True)
        os.makedirs(outdir)
        cmd = [common.GO, "test", "-c", "-p", "6", "-vet=off", "-tags", "verif", "-o", outdir + "/"] + ["./gen/" + n for n in pkgs]      # (-p 6: at most six compilers at a time - memory)
        t0 = time.time()
        for attempt in range(3):
            p = subprocess.run(cmd, cwd=w, env=common.GOENV, stdout=subprocess.PIPE, stderr=subprocess.STDOUT, text=True, timeout=1500)
            # another check may prune the shared build cache (common.prune_gocache) while this build reads it: try again
            if p.returncode == 0 or not ("gocache" in p.stdout and "no such file or directory" in p.stdout):
                break
        if p.returncode != 0:
            raise Infra("go build of generated optics packages failed:\n%s" % p.stdout[-6000:])
        out = {}
        for n in pkgs:
            src = os.path.join(outdir, n + ".test")
            if not os.path.exists(src):
                raise Infra("go test -c produced no binary for %s:\n%s" % (n, p.stdout[-2000:]))
            out[n] = os.path.join(dest, n + ".test")
            shutil.move(src, out[n])
        shutil.rmtree(outdir, ignore_errors=True)
        for n in pkgs:      # the sources are not needed any more; keep the work copy small
            shutil.rmtree(common.gen_dir(n), ignore_errors=True)
        return out, time.time() - t0


def run_packages(bins, inputs, d, test="TestRun", env=None):
    """Runs every binary (concurrently) with its expectation file; returns {name: [records]}."""
    out, err = {}, []

    def one(n):
        try:
            outp = os.path.join(d, n + ".out.jsonl")
            e = dict(VERIF_IN=inputs[n], VERIF_OUT=outp)
            e.update(env or {})
            p = common.run_bin(bins[n], ["-test.run", test, "-test.timeout", "30m"], env=e, timeout=2400)
            recs = []
            if os.path.exists(outp):
                for l in open(outp):
                    try:
                        recs.append(json.loads(l))
                    except Exception:
                        pass
            out[n] = (p, recs)
        except Exception as ex:  # noqa
            err.append(ex)

    th = [threading.Thread(target=one, args=(n,)) for n in bins]
    [t.start() for t in th]
    [t.join() for t in th]
    if err:
        raise err[0]
    return out


def sample_shapes(shapes, target, seed):
    """All boundary shapes + a seeded sample of the rest, at most `target` in total; stable order."""
    seen, uniq = set(), []
    for s in shapes:
        k = json.dumps(s["fields"], sort_keys=True)
        if k not in seen:
            seen.add(k)
            uniq.append(s)
    bnd = [s for s in uniq if s.get("boundary")]
    rest = [s for s in uniq if not s.get("boundary")]
    bnd.sort(key=lambda s: json.dumps(s["fields"], sort_keys=True))     # TLC's workers print in any order
    rest.sort(key=lambda s: json.dumps(s["fields"], sort_keys=True))
    rnd = random.Random(seed)
    k = max(0, target - len(bnd))
    if len(rest) > k:
        rest = rnd.sample(rest, k)
    out = bnd + rest
    for i, s in enumerate(out):
        s["sid"] = i + 1
    return out


def split(lst, k):
    k = max(1, min(k, len(lst)))
    return [lst[i::k] for i in range(k)]


# ----------------------------------------------------------------------------------------------- C03
C03_INV = ["C03_Listing", "C03_Lookup", "C03_InBounds", "C03_Select", "Emit"]


def c03_configs(tier):
    if tier == "quick":
        return [
            dict(name="layout", leaf=["int8", "int32", "int64", "struct{}"], emb=["val", "ptr"], names="pos", maxfields=3, maxdepth=3,
                 maxtotal=5, boundary=True, modulus=60),
            dict(name="palette", leaf=["bool", "int16", "string", "[0]int64", "[3]int8", "float64"], emb=["val"], names="uniq", maxfields=3,
                 maxdepth=2, maxtotal=4, modulus=20),
            dict(name="names", leaf=["int8", "int16"], emb=["val", "ptr"], names="pool", tags="some", maxfields=3, maxdepth=3,
                 maxtotal=3, modulus=120),
            dict(name="tags", leaf=["int8", "int16"], emb=["val", "ptr"], names="pos", tags="some", maxfields=3, maxdepth=3,
                 maxtotal=4, modulus=400),
            dict(name="named", leaf=["int8", "int64"], emb=["val", "ptr"], named=True, reuse=True, names="pos", maxfields=2, maxdepth=3, maxsub=2,
                 maxtotal=5, modulus=60),
        ]
    return [
        dict(name="layout", leaf=["int8", "int32", "int64", "struct{}"], emb=["val", "ptr"], names="pos", maxfields=3, maxdepth=3,
             maxtotal=6, boundary=True, modulus=50),
        dict(name="palette", leaf=["bool", "int16", "string", "[0]int64", "[3]int8", "[]byte", "any", "*int", "float64", "float32", "complex128", "fmt.Stringer",
                                   "map[string]int", "map[int]int", "<-chan int", "opticsdrv.Label"], emb=["val"], names="uniq",
             maxfields=3, maxdepth=2, maxtotal=4, modulus=25),
        dict(name="names", leaf=["int8", "int16"], emb=["val", "ptr"], names="pool", tags="none", maxfields=3, maxdepth=3,
             maxtotal=4, modulus=8),
        dict(name="tags", leaf=["int8"], emb=["val", "ptr"], names="pos", tags="all", maxfields=3, maxdepth=3,
             maxtotal=4, modulus=150),
        dict(name="named", leaf=["int8", "int64"], emb=["val", "ptr"], named=True, reuse=True, names="pos", maxfields=3, maxdepth=3, maxsub=2,
             maxtotal=5, modulus=60),
    ]


def enumerate_shapes(run, module, configs, invariants, label, extra_jobs=()):
    """One TLC run per configuration (MC invariants + Emit), all in parallel together with `extra_jobs` (further
    model-checking runs that print nothing); returns the printed shapes."""
    jobs = [(module, shape_cfg(c, run.seed, invariants), c["name"], c) for c in configs] + list(extra_jobs)
    res = tlc_parallel(jobs, max(2, common.NCPU // max(1, len(jobs))))
    shapes, total = [], 0
    for (mod, _, name, c), r in zip(jobs, res):
        if r.violated:
            raise Infra("model error: %s violates %s in configuration %s\n%s" % (mod, r.violated, name, r.out[-3000:]))
        consts = {k: v for k, v in c.items() if k != "extra"}
        run.add_mc("%s/%s" % (mod, name), r, consts)
        if mod != module:
            continue
        got = r.json_prints("shape")
        for s in got:
            s["cfg"] = name
        shapes += got
        total += r.distinct - 1
    run.notes["shapes_enumerated_by_tlc"] = total
    run.notes["shapes_printed_by_tlc"] = len(shapes)
    run.exhaustive = True
    if not shapes:
        raise Infra("%s printed no shapes" % module)
    return shapes


def check_c03(run, shapes=None):
    thorough = run.tier == "thorough"
    if shapes is None:
        shapes = enumerate_shapes(run, "HseqGen", c03_configs(run.tier), C03_INV, "c03")
        shapes = sample_shapes(shapes, 3000 if thorough else 700, run.seed)
    run.notes["shapes_compiled"] = len(shapes)
    groups = split(shapes, 24 if thorough else 8)
    rnd = random.Random(run.seed)
    pkgs, inputs = {}, {}
    with Scratch() as d:
        for gi, grp in enumerate(groups):
            name = "optics_c03_%d" % gi
            pkgs[name] = {"gen_test.go": G.c03_package(name, grp, rnd)}
            inputs[name] = os.path.join(d, name + ".in.jsonl")
            with open(inputs[name], "w") as f:
                for s in grp:
                    f.write(json.dumps(s) + "\n")
        bins, bt = build_packages(pkgs, d)
        run.notes["go_build_s"] = round(bt, 1)
        byid = {s["sid"]: s for s in shapes}
        stats = {}
        for n, (p, recs) in run_packages(bins, inputs, d).items():
            collect(run, n, p, recs, byid, stats, "hseq")
    run.notes["hseq_calls_compared"] = stats.get("calls", 0)
    run.notes["listing_entries_compared"] = stats.get("entries", 0)
    run.notes["newN_instantiations_run"] = stats.get("newN", 0)
    run.notes["fmapN_calls"] = stats.get("fmapN", 0)
    run.traces += stats.get("calls", 0)
    for s in shapes[:3]:
        run.sample({"shape": G.render_struct(s["fields"]), "listing": [[e["key"], e["id"], e["ty"], e["abs"]] for e in s["listing"]]})


def describe(s):
    if s is None:
        return "?"
    if "fields" in s:
        return "type T " + G.render_struct(s["fields"])
    return "type S %s; type T %s" % (G.render_struct(s["S"]["fields"]), G.render_struct(s["T"]["fields"]))


def collect(run, pkg, p, recs, byid, stats, libword):
    """Folds the records written by one harness binary into the run."""
    got_stats = False
    for r in recs:
        t = r.get("t")
        if t == "stats":
            got_stats = True
            for k, v in r.items():
                if isinstance(v, int):
                    stats[k] = stats.get(k, 0) + v
        elif t == "infra":
            s = byid.get(r.get("sid"))
            raise Infra("harness: %s (%s)" % (r.get("what"), describe(s)))
        elif t == "drift":
            s = byid.get(r.get("sid"))
            run.drift.append("%s on %s" % (r.get("what"), describe(s)))
        elif t == "pviol" and r["sid"] == 0:       # not about a generated shape (C02: non-struct containers)
            kinds = run.notes.setdefault("violating_observations_by_kind", {})
            kinds[r["kind"]] = kinds.get(r["kind"], 0) + 1
            if kinds[r["kind"]] <= 3:
                # the fixed derivations run in every C02 package: any shape will do to replay them
                run.violation({"kind": r["kind"]}, "%s: %s" % (r["kind"], r.get("detail", "")),
                              {"property": run.pid, "static": r, "shape": next(iter(byid.values()))})
        elif t == "pviol":
            s = byid.get(r["sid"])
            sig = {"kind": r["kind"]}
            if r.get("class"):
                sig["class"] = r["class"]
            kinds = run.notes.setdefault("violating_observations_by_kind", {})
            kinds[r["kind"]] = kinds.get(r["kind"], 0) + 1
            if kinds[r["kind"]] > 3:      # three replayable witnesses per kind are enough; the rest is counted
                continue
            q = r.get("req")
            if q and q.get("by") == "entry":
                how = "%s[%s, %s](hseq.New[T]()[%d])" % ("NewReflector" if r.get("api") == "spectrum" else "NewLens", q["cont"], q["types"][0], q["ent"] - 1)
            elif q:
                how = "%s%d[%s](%s)" % ({"product": "ForProduct", "spectrum": "ForSpectrum", "shape": "ForShape", "bimap": "BiMapX/ForProduct"}.get(r.get("api"), "ForProduct"), len(q["types"]),
                                        ", ".join([q["cont"]] + q["types"]), ", ".join('"%s"' % n for n in q["names"]))
            elif r.get("optic"):
                o = r["optic"]
                how = "%s %s %s" % (o["kind"], o.get("nest") or o.get("conv") or "", json.dumps(o["links"] or o["names"]))
            elif "list" in r:
                how = "Morphism over isos %s%s" % (r["list"], " (struct <-> map)" if r.get("map") else "")
            else:
                how = "%s %s" % (r.get("api", ""), json.dumps(r.get("q", "")))
            what = "%s: %s on `%s`: %s" % (r["kind"], how, describe(s), r.get("detail", ""))
            run.violation(sig, what, {"property": run.pid, "tier": run.tier, "shape": s, "finding": r})
    if p.returncode != 0 or not got_stats:
        raise Infra("generated harness %s died (rc=%s):\n%s" % (pkg, p.returncode, (p.stdout + p.stderr)[-3000:]))


# ----------------------------------------------------------------------------------------------- C01 / C02
def optics_configs(tier, prop):
    """Shape spaces for OpticsGen.  C01 stresses layouts (value embedding, alignment classes, zero sizes); C02 adds
    pointer embedding and name / type collisions across depths."""
    emb = ["val"] if prop == "C01" else ["val", "ptr"]
    if tier == "quick":
        return [
            dict(name="layout", leaf=["int8", "int32", "int64", "struct{}"], emb=["val", "ptr"], names="pos", maxfields=3, maxdepth=3,
                 maxtotal=5 if prop == "C01" else 4, boundary=True, modulus=60 if prop == "C01" else 12),
            dict(name="palette", leaf=["bool", "int16", "string", "[0]int64", "[3]int8", "[]byte", "float64"], emb=emb, names="uniq", maxfields=3,
                 maxdepth=2, maxtotal=4 if prop == "C01" else 3, modulus=110 if prop == "C01" else 16),
            dict(name="names", leaf=["int8", "int16"], emb=["val", "ptr"], names="pool", tags="some", maxfields=3, maxdepth=3,
                 maxtotal=3, modulus=140),
            dict(name="named", leaf=["int8", "int64"], emb=["val", "ptr"], named=True, reuse=True, names="pos", maxfields=2, maxdepth=3, maxsub=2,
                 maxtotal=4 if prop == "C01" else 4, modulus=30),
        ]
    return [
        dict(name="layout", leaf=["int8", "int32", "int64", "struct{}"], emb=["val", "ptr"], names="pos", maxfields=3, maxdepth=3,
             maxtotal=6, boundary=True, modulus=25),
        dict(name="palette", leaf=["bool", "int16", "string", "[0]int64", "[3]int8", "[]byte", "any", "*int", "float64", "float32", "complex128", "fmt.Stringer"], emb=emb, names="uniq",
             maxfields=3, maxdepth=2, maxtotal=4, modulus=60),
        dict(name="names", leaf=["int8"], emb=["val", "ptr"], names="pool", tags="all", maxfields=3, maxdepth=3,
             maxtotal=3, modulus=40),
        dict(name="named", leaf=["int8", "int64"], emb=["val", "ptr"], named=True, reuse=True, names="pos", maxfields=3, maxdepth=3, maxsub=2,
             maxtotal=5, modulus=40),
    ]


def check_optics(run, shapes=None):
    prop = run.pid
    thorough = run.tier == "thorough"
    inv = ["C01_LensExact", "Emit"] if prop == "C01" else ["C02_Sound", "C02_SoundRepaired", "C02_Reflector", "Emit"]
    if shapes is None:
        shapes = enumerate_shapes(run, "OpticsGen", optics_configs(run.tier, prop), inv, prop, extra_jobs=[memory_model(run)])
        shapes = sample_shapes(shapes, 3000 if thorough else 300, run.seed)
        if prop == "C02":
            model_defect(run)
    run.notes["shapes_compiled"] = len(shapes)
    groups = split(shapes, 24 if thorough else 8)     # (a package of 375 shapes takes the compiler 8 GB: with 8 of them at once the kernel killed it)
    pkgs, inputs, ninst = {}, {}, 0
    with Scratch() as d:
        for gi, grp in enumerate(groups):
            name = "optics_%s_%d" % (prop.lower(), gi)
            src, n = G.optics_package(name, grp, prop, thorough)
            ninst += n
            pkgs[name] = {"gen_test.go": src}
            inputs[name] = os.path.join(d, name + ".in.jsonl")
            with open(inputs[name], "w") as f:
                for s in grp:
                    f.write(json.dumps(s) + "\n")
        bins, bt = build_packages(pkgs, d)
        run.notes["go_build_s"] = round(bt, 1)
        byid = {s["sid"]: s for s in shapes}
        stats = {}
        for n, (p, recs) in run_packages(bins, inputs, d, env=dict(VERIF_PROP=prop, VERIF_SEED=run.seed)).items():
            collect(run, n, p, recs, byid, stats, "optics")
    run.notes["optic_components_instantiated"] = ninst
    run.notes["derivations_executed"] = stats.get("derivations", 0)
    run.notes["by_value_lenses_exercised"] = stats.get("lenses", 0)
    run.notes["put_transitions_executed"] = stats.get("transitions", 0)
    run.traces += stats.get("transitions", 0) + stats.get("derivations", 0)
    if prop == "C01":
        run.notes["tlc_scripts_replayed"] = stats.get("scripts", 0)
        run.notes["tlc_script_steps"] = stats.get("script-steps", 0)
        run.traces += stats.get("scripts", 0)
    else:
        for k in ("derive-panic", "derive-ptr", "derive-lens", "ptr-class-accepted", "ptr-class-panicked", "through-pointer-lenses",
                  "through-pointer-coincident", "foreign-calls", "foreign-classes-tried", "container-derivations"):
            run.notes[k.replace("-", "_")] = stats.get(k, 0)
        run.traces += stats.get("foreign-calls", 0)
    # I level: which variant of the derivation does the tree follow?
    du, dr = stats.get("differs-from-unrepaired-model", 0), stats.get("differs-from-repaired-model", 0)
    run.notes["derivation_variant_followed"] = ("either (valid requests only)" if du == 0 and dr == 0 else
                                                "unrepaired" if du == 0 else "repaired" if dr == 0 else "neither")
    if du and dr:
        run.drift.append("panic / no panic of %d (unrepaired model) resp. %d (repaired model) derivations differs from Optics!Derive" % (du, dr))
    for s in shapes[:2]:
        q = [x for x in s["reqs"] if x["want"]["out"] != "panic"][:1]
        run.sample({"shape": G.render_struct(s["fields"]), "request": q[0] if q else None})


MEM_CFG = """CONSTANTS
  LeafTypes = {%s}
  EmbKinds = {"val", "ptr"}
  NamedStructs = FALSE
  NameMode = "pos"
  TagMode = "none"
  MaxFields = 2
  MaxDepth = 2
  MaxSub = 1
  MaxTotal = %d
  TypePrefix = ""
  Reuse = FALSE
SPECIFICATION MSpec
INVARIANT MemExact
INVARIANT OwnTypeOnly
INVARIANT NoTornCell
CHECK_DEADLOCK FALSE
"""


def memory_model(run):
    """Optics as a transition system over the abstract byte memory: every Put / Get / Putt / Gett on small shapes."""
    leaf, tot = ('"int8", "int32", "struct{}"', 3) if run.tier == "quick" else ('"int8", "int16", "int64", "struct{}"', 3)
    return ("OpticsMemMC", MEM_CFG % (leaf, tot), "memory", {"leaf": leaf, "maxtotal": tot, "maxfields": 2, "maxdepth": 2})


def model_defect(run):
    """Documents (never judges) what TLC says about the unrepaired derivation: the two invariants are expected to fail."""
    c = dict(name="defect", leaf=["int8", "string"], emb=["val", "ptr"], names="pos", maxfields=2, maxdepth=3, maxtotal=3, modulus=1000000)
    for inv in ("C02_UnrepairedPtrEmb", "C02_UnrepairedAll"):
        r = run_tlc("OpticsMC", shape_cfg(c, run.seed, [inv]), workers=2, timeout=600)
        run.notes["tlc_on_unrepaired_" + inv] = ("violated after %d shapes (expected: the unrepaired derivation is unsound)" % r.distinct) if r.violated else "holds"


# ----------------------------------------------------------------------------------------------- C04
COMPOSE_CONSTS = """CONSTANTS
  LeafTypes = {%(leaf)s}
  EmbKinds = {"val"}
  NamedStructs = TRUE
  NameMode = "%(names)s"
  TagMode = "none"
  MaxFields = %(maxfields)d
  MaxDepth = %(maxdepth)d
  MaxSub = %(maxsub)d
  MaxTotal = %(maxtotal)d
  MaxFieldsT = %(maxfieldst)d
  MaxDepthT = %(maxdeptht)d
  MaxTotalT = %(maxtotalt)d
  MaxIsos = %(maxisos)d
  Reuse = FALSE
  WithBoundary = %(boundary)s
  Seed = %(seed)d
  Modulus = %(modulus)d
SPECIFICATION Spec
INVARIANT C04_Single
INVARIANT C04_Pair
INVARIANT Emit
CHECK_DEADLOCK FALSE
"""


def c04_configs(tier):
    if tier == "quick":
        return [
            dict(name="nested", leaf=["int8", "int64"], names="pos", maxfields=2, maxdepth=3, maxsub=1, maxtotal=4, maxfieldst=2, maxdeptht=2,
                 maxtotalt=2, maxisos=3, boundary=True, modulus=60),
            dict(name="flat", leaf=["bool", "int16", "string"], names="uniq", maxfields=3, maxdepth=2, maxsub=1, maxtotal=3, maxfieldst=2,
                 maxdeptht=1, maxtotalt=2, maxisos=3, boundary=False, modulus=40),
        ]
    return [
        dict(name="nested", leaf=["int8", "int64"], names="pos", maxfields=2, maxdepth=3, maxsub=2, maxtotal=5, maxfieldst=2, maxdeptht=2,
             maxtotalt=2, maxisos=3, boundary=True, modulus=100),
        dict(name="flat", leaf=["bool", "int16", "string", "[]byte"], names="uniq", maxfields=3, maxdepth=2, maxsub=1, maxtotal=4, maxfieldst=2,
             maxdeptht=1, maxtotalt=2, maxisos=3, boundary=False, modulus=150),
    ]


def check_c04(run, cases=None):
    thorough = run.tier == "thorough"
    if cases is None:
        jobs = []
        for c in c04_configs(run.tier):
            d = dict(c, leaf=", ".join('"%s"' % t for t in c["leaf"]), boundary="TRUE" if c["boundary"] else "FALSE", seed=run.seed)
            jobs.append(("OpticsComposeGen", COMPOSE_CONSTS % d, c["name"], c))
        res = tlc_parallel(jobs, max(2, common.NCPU // len(jobs)))
        cases, total = [], 0
        for (mod, _, name, c), r in zip(jobs, res):
            if r.violated:
                raise Infra("model error: %s violates %s in configuration %s\n%s" % (mod, r.violated, name, r.out[-3000:]))
            run.add_mc("%s/%s" % (mod, name), r, c)
            got = r.json_prints("pair")
            for x in got:
                x["cfg"] = name
            cases += got
            total += r.distinct
        run.notes["structure_pairs_enumerated_by_tlc"] = total
        run.notes["pairs_printed_by_tlc"] = len(cases)
        run.exhaustive = True
        if not cases:
            raise Infra("OpticsComposeGen printed no pairs")
        bnd = sorted([c for c in cases if c["boundary"]], key=lambda c: json.dumps([c["S"]["fields"], c["T"]["fields"]], sort_keys=True))
        rest = sorted([c for c in cases if not c["boundary"]], key=lambda c: json.dumps([c["S"]["fields"], c["T"]["fields"]], sort_keys=True))
        k = (400 if thorough else 60) - len(bnd)
        if len(rest) > k:
            rest = random.Random(run.seed).sample(rest, max(0, k))
        cases = bnd + rest
        for i, c in enumerate(cases):
            c["sid"] = i + 1
            c.pop("t", None)        # Go's decoder would take "t" for the field T
    run.notes["pairs_compiled"] = len(cases)
    groups = split(cases, 8 if thorough else 4)
    pkgs, inputs, ninst, kinds = {}, {}, 0, {}
    with Scratch() as d:
        for gi, grp in enumerate(groups):
            name = "optics_c04_%d" % gi
            src, n = G.compose_package(name, grp, thorough)
            ninst += sum(n.values())
            for k, v in n.items():
                kinds[k] = kinds.get(k, 0) + v
            pkgs[name] = {"gen_test.go": src}
            inputs[name] = os.path.join(d, name + ".in.jsonl")
            with open(inputs[name], "w") as f:
                for c in grp:
                    f.write(json.dumps(c) + "\n")
        bins, bt = build_packages(pkgs, d)
        run.notes["go_build_s"] = round(bt, 1)
        byid = {c["sid"]: c for c in cases}
        stats = {}
        for n, (p, recs) in run_packages(bins, inputs, d, env=dict(VERIF_TIER=run.tier, VERIF_SEED=run.seed)).items():
            collect(run, n, p, recs, byid, stats, "optics")
    run.notes["composed_optics_compiled"] = ninst
    run.notes["composed_optics_by_kind"] = dict(sorted(kinds.items()))
    for k in ("optics-lens", "optics-join", "optics-bimap", "optics-getter", "optics-setter", "optics-shape", "morphism-lists", "morphism-lists-wrapped", "morphism-lists-nested", "scripts", "script-steps"):
        run.notes[k.replace("-", "_") + "_executed"] = stats.get(k, 0)
    run.notes["transitions_executed"] = stats.get("transitions", 0)
    run.traces += stats.get("transitions", 0) + stats.get("scripts", 0)
    for c in cases[:2]:
        run.sample({"S": G.render_struct(c["S"]["fields"]), "T": G.render_struct(c["T"]["fields"]),
                    "optic": next((o for o in c["optics"] if o["kind"] == "join"), None)})


# ----------------------------------------------------------------------------------------------- dispatcher
def check(run, replay=None):
    if replay:
        return do_replay(run, replay)
    return {"C03": check_c03, "C01": check_optics, "C02": check_optics, "C04": check_c04}[run.pid](run)


def do_replay(run, path):
    rec = json.load(open(path))
    s = rec["payload"]["shape"]
    s["boundary"] = True
    if run.pid == "C04":
        return check_c04(run, cases=[s])
    return {"C03": check_c03, "C01": check_optics, "C02": check_optics}[run.pid](run, shapes=[s])
