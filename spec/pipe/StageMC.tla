---- MODULE StageMC ----
(* Exhaustive model of the stage family over the configurations listed in the JSON file named by CFG_FILE
   ({"cfgs":[...], "qstep": bool}); also the schedule generator (GenEmit prints one witness schedule per distinct
   quiescent state when QStep is set and `sched` is hidden by VIEW View). *)
EXTENDS Stage, Json, IOUtils
MCIn == JsonDeserialize(IOEnv.CFG_FILE)
Norm(c) == [c EXCEPT !.fail = P!Range(c.fail), !.pred = P!Range(c.pred)]
MCCfgs == {Norm(MCIn.cfgs[i]) : i \in DOMAIN MCIn.cfgs}
MCQStep == MCIn.qstep
GenEmit == (~ENABLED Lib) => PrintT(ToJson([t |-> "sched", cfg |-> cfg.id, cmds |-> sched]))
====
