---- MODULE Unbound ----
(* I layer: pipe.New (pipe/unbound.go) - the pump goroutine between the send side `in` and the receive side `eg`,
   backed by the in-memory queue mq (pipe/queue.go, modelled as a sequence; Queue.tla refines it to linked nodes):

       for { select {
         case <-ctx.Done():   drain `in` with non-blocking receives into mq (learns a close by the sender); flush; return
         case x, ok := <-in:  !ok -> closed = true; flush; return      else enq(x)
         case emit(eg, mq) <- head(mq):  deq                           (arm disabled by the nil-channel trick when mq is empty)
       } }
       deferred: if !closed { close(in) } ; close(eg)

   Same conventions as Stage.tla: cfg is a variable chosen from Cfgs, the environment moves freely or only at
   quiescence (QStep), `sched` records its moves, Obs is the PipeProps observation record. *)
EXTENDS Integers, Sequences, FiniteSets, TLC
P == INSTANCE PipeProps

CONSTANTS Cfgs, QStep, KeepSched
VARIABLES cfg, inb, inClosed, egb, egClosed, mq, pump, env, obs, sched
vars == <<cfg, inb, inClosed, egb, egClosed, mq, pump, env, obs, sched>>
View == <<cfg, inb, inClosed, egb, egClosed, mq, pump, env, obs>>

Input == cfg.inputs[1]
Cmd(c, i, o, x) == [c |-> c, i |-> i, o |-> o, x |-> x, d |-> 0]

Init == /\ cfg \in Cfgs
        /\ inb = <<>> /\ inClosed = FALSE /\ egb = <<>> /\ egClosed = FALSE /\ mq = <<>>
        /\ pump = [pc |-> "select", sc |-> FALSE]
        /\ env = [spend |-> FALSE, sidx |-> 1, closedIn |-> FALSE, rp |-> FALSE, cancelled |-> FALSE]
        /\ obs = [sent |-> <<>>, got |-> <<>>, seen |-> FALSE, sentAtCancel |-> <<>>, gotAtCancel |-> 0, panic |-> FALSE]
        /\ sched = <<>>

(* ---- the send side: a value can be taken from `in` when it is buffered or a sender is parked on it (capacity 0);
        taking from a full buffer lets a parked sender complete in the same step (as the runtime does) *)
CanTakeIn == inb # <<>> \/ (cfg.cap = 0 /\ env.spend)
TakeIn == IF inb # <<>>
          THEN /\ mq' = Append(mq, Head(inb))
               /\ IF env.spend /\ Len(inb) = cfg.cap
                  THEN /\ inb' = Append(Tail(inb), Input[env.sidx])
                       /\ env' = [env EXCEPT !.spend = FALSE, !.sidx = @ + 1] /\ obs' = [obs EXCEPT !.sent = Append(@, Input[env.sidx])]
                  ELSE inb' = Tail(inb) /\ UNCHANGED <<env, obs>>
          ELSE /\ mq' = Append(mq, Input[env.sidx]) /\ UNCHANGED inb
               /\ env' = [env EXCEPT !.spend = FALSE, !.sidx = @ + 1] /\ obs' = [obs EXCEPT !.sent = Append(@, Input[env.sidx])]
InEnded == inb = <<>> /\ inClosed
(* ---- the receive side *)
CanEmit == mq # <<>> /\ (Len(egb) < cfg.cap \/ (cfg.cap = 0 /\ env.rp))
Emit == IF Len(egb) < cfg.cap THEN egb' = Append(egb, Head(mq)) /\ mq' = Tail(mq) /\ UNCHANGED <<env, obs>>
        ELSE mq' = Tail(mq) /\ env' = [env EXCEPT !.rp = FALSE] /\ obs' = [obs EXCEPT !.got = Append(@, Head(mq))] /\ UNCHANGED egb

Goto(l) == pump' = [pump EXCEPT !.pc = l]
PDone == pump.pc = "select" /\ env.cancelled /\ Goto("drain") /\ UNCHANGED <<inb, inClosed, egb, egClosed, mq, env, obs>>
PRecv == pump.pc = "select" /\ CanTakeIn /\ TakeIn /\ UNCHANGED <<inClosed, egb, egClosed, pump>>
PRecvClosed == pump.pc = "select" /\ InEnded /\ pump' = [pc |-> "flush", sc |-> TRUE] /\ UNCHANGED <<inb, inClosed, egb, egClosed, mq, env, obs>>
PEmit == pump.pc = "select" /\ CanEmit /\ Emit /\ UNCHANGED <<inb, inClosed, egClosed, pump>>
\* the non-blocking drain loop after ctx.Done
PDrainTake == pump.pc = "drain" /\ CanTakeIn /\ TakeIn /\ UNCHANGED <<inClosed, egb, egClosed, pump>>
PDrainClosed == pump.pc = "drain" /\ InEnded /\ pump' = [pc |-> "flush", sc |-> TRUE] /\ UNCHANGED <<inb, inClosed, egb, egClosed, mq, env, obs>>
PDrainEnd == pump.pc = "drain" /\ ~CanTakeIn /\ ~InEnded /\ Goto("flush") /\ UNCHANGED <<inb, inClosed, egb, egClosed, mq, env, obs>>
\* for mq.head != nil { eg <- head(mq); deq(mq) }      (blocking sends)
PFlush == pump.pc = "flush" /\ CanEmit /\ Emit /\ UNCHANGED <<inb, inClosed, egClosed, pump>>
PFlushEnd == pump.pc = "flush" /\ mq = <<>> /\ Goto("exit_in") /\ UNCHANGED <<inb, inClosed, egb, egClosed, mq, env, obs>>
\* deferred: if !closed { close(in) }  -  a sender parked on `in` panics with "send on closed channel" (its own goroutine)
PExitIn == /\ pump.pc = "exit_in" /\ Goto("exit_eg") /\ UNCHANGED <<inb, egb, egClosed, mq>>
           /\ IF pump.sc THEN UNCHANGED <<inClosed, env, obs>>
              ELSE IF inClosed THEN obs' = [obs EXCEPT !.panic = TRUE] /\ UNCHANGED <<inClosed, env>>     \* close of closed channel
              ELSE inClosed' = TRUE /\ env' = [env EXCEPT !.spend = FALSE] /\ UNCHANGED obs
PExitEg == pump.pc = "exit_eg" /\ egClosed' = TRUE /\ Goto("done") /\ UNCHANGED <<inb, inClosed, egb, mq, env, obs>>
Pump == PDone \/ PRecv \/ PRecvClosed \/ PEmit \/ PDrainTake \/ PDrainClosed \/ PDrainEnd \/ PFlush \/ PFlushEnd \/ PExitIn \/ PExitEg

(* ---- completions of the environment's parked operations *)
SendBuf == env.spend /\ ~inClosed /\ Len(inb) < cfg.cap /\ inb' = Append(inb, Input[env.sidx])
           /\ env' = [env EXCEPT !.spend = FALSE, !.sidx = @ + 1] /\ obs' = [obs EXCEPT !.sent = Append(@, Input[env.sidx])]
           /\ UNCHANGED <<inClosed, egb, egClosed, mq, pump>>
RecvBuf == env.rp /\ egb # <<>> /\ egb' = Tail(egb) /\ env' = [env EXCEPT !.rp = FALSE] /\ obs' = [obs EXCEPT !.got = Append(@, Head(egb))]
           /\ UNCHANGED <<inb, inClosed, egClosed, mq, pump>>
RecvClosed == env.rp /\ egb = <<>> /\ egClosed /\ env' = [env EXCEPT !.rp = FALSE] /\ obs' = [obs EXCEPT !.seen = TRUE]
           /\ UNCHANGED <<inb, inClosed, egb, egClosed, mq, pump>>
Lib == (Pump \/ SendBuf \/ RecvBuf \/ RecvClosed) /\ UNCHANGED <<cfg, sched>>

(* ---- environment.  Once it has cancelled the context the send side is the library's (it closes it): no send, no close *)
EnvOK == ~QStep \/ ~ENABLED Lib
Log(c) == sched' = IF KeepSched THEN Append(sched, c) ELSE sched     \* the history variable is switched off for liveness checking
EnvSend == EnvOK /\ ~env.spend /\ ~env.closedIn /\ ~env.cancelled /\ env.sidx <= Len(Input) /\ env' = [env EXCEPT !.spend = TRUE]
           /\ Log(Cmd("send", 0, "", 0)) /\ UNCHANGED <<cfg, inb, inClosed, egb, egClosed, mq, pump, obs>>
EnvClose == EnvOK /\ ~env.spend /\ ~env.closedIn /\ ~env.cancelled /\ env' = [env EXCEPT !.closedIn = TRUE] /\ inClosed' = TRUE
           /\ Log(Cmd("close", 0, "", 0)) /\ UNCHANGED <<cfg, inb, egb, egClosed, mq, pump, obs>>
EnvRecv == EnvOK /\ ~env.rp /\ ~obs.seen /\ env' = [env EXCEPT !.rp = TRUE]
           /\ Log(Cmd("recv", 0, "out", 0)) /\ UNCHANGED <<cfg, inb, inClosed, egb, egClosed, mq, pump, obs>>
EnvCancel == EnvOK /\ ~env.cancelled /\ ~env.spend /\ env' = [env EXCEPT !.cancelled = TRUE]
           /\ obs' = [obs EXCEPT !.sentAtCancel = obs.sent, !.gotAtCancel = Len(obs.got)]
           /\ Log(Cmd("cancel", 0, "", 0)) /\ UNCHANGED <<cfg, inb, inClosed, egb, egClosed, mq, pump>>
Env == EnvSend \/ EnvClose \/ EnvRecv \/ EnvCancel
Next == Lib \/ Env
Spec == Init /\ [][Next]_vars
\* liveness: with a receiver that keeps receiving, a cancelled (or sender-closed) channel pair is eventually closed on the
\* receive side, everything sent before having been delivered (LosslessAfterCancel / Complete say what was delivered)
FairSpec == Spec /\ WF_vars(Lib) /\ WF_vars(EnvRecv)
EventuallyClosed == ((env.cancelled \/ env.closedIn) /\ ~env.spend) ~> obs.seen

(* ---- the observation record of PipeProps *)
Obs == [sent |-> <<obs.sent>>, pend |-> <<IF env.spend THEN <<Input[env.sidx]>> ELSE <<>> >>, closed |-> <<env.closedIn>>,
        sentAt |-> <<[i \in 1..Len(obs.sent) |-> 0]>>,
        cancelled |-> env.cancelled, cancelAt |-> 0, lastEnvAt |-> 0, sentAtCancel |-> <<obs.sentAtCancel>>, gotAtCancel |-> [o \in {"out"} |-> obs.gotAtCancel],
        got |-> [o \in {"out"} |-> obs.got], gotAt |-> [o \in {"out"} |-> [i \in 1..Len(obs.got) |-> 0]], recvAt |-> [o \in {"out"} |-> <<>>],
        seen |-> [o \in {"out"} |-> obs.seen], rp |-> [o \in {"out"} |-> env.rp], calls |-> <<>>, pending |-> 0,
        inLen |-> <<Len(inb)>>, live |-> IF pump.pc = "done" THEN 0 ELSE 1, now |-> 0, panic |-> obs.panic,
        quiet |-> ~ENABLED Lib, outs |-> {"out"}]
PrefixInv == P!Prefix(cfg, Obs)
NeverBlocksSenderInv == P!NeverBlocksSender(cfg, Obs)
LosslessAfterCancelInv == P!LosslessAfterCancel(cfg, Obs)
CompleteInv == P!Complete(cfg, Obs)
Settle1Inv == P!Settle1(cfg, Obs)
NewSettleInv == P!NewSettle(cfg, Obs)
NewDeliversInv == P!NewDelivers(cfg, Obs)
NoPanicInv == P!NoPanic(cfg, Obs)
\* structural: everything sent is somewhere, in order (in buffer, queue, out buffer, received)
Conservation == obs.got \o egb \o mq \o inb = obs.sent
====
