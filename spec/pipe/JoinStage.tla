---- MODULE JoinStage ----
(* I layer: pipe.Join(in...) - one copier goroutine per input and a closer:
     join(c): defer wg.Done(); for x := range c { select { out <- x | <-ctx.Done(): return } }
     closer:  wg.Wait(); close(out)                          out has capacity len(in) *)
EXTENDS Integers, Sequences, FiniteSets, TLC
P == INSTANCE PipeProps

CONSTANTS Cfgs, QStep, KeepSched
VARIABLES cfg, inb, outb, closed, cp, cl, env, obs, sched
vars == <<cfg, inb, outb, closed, cp, cl, env, obs, sched>>
View == <<cfg, inb, outb, closed, cp, cl, env, obs>>

K == Len(cfg.inputs)
I == 1..K
Cmd(c, i, o, x) == [c |-> c, i |-> i, o |-> o, x |-> x, d |-> 0]

Init == /\ cfg \in Cfgs
        /\ inb = [i \in I |-> <<>>] /\ outb = <<>> /\ closed = [in |-> [i \in I |-> FALSE], out |-> FALSE]
        /\ cp = [i \in I |-> [pc |-> "recv", x |-> 0]] /\ cl = "wait"
        /\ env = [spend |-> [i \in I |-> FALSE], sidx |-> [i \in I |-> 1], closedIn |-> [i \in I |-> FALSE], rp |-> FALSE, cancelled |-> FALSE]
        /\ obs = [sent |-> [i \in I |-> <<>>], got |-> <<>>, seen |-> FALSE, sentAtCancel |-> [i \in I |-> <<>>], gotAtCancel |-> 0]
        /\ sched = <<>>

Val(i) == cfg.inputs[i][env.sidx[i]]
JRecvBuf(i) == cp[i].pc = "recv" /\ inb[i] # <<>> /\ cp' = [cp EXCEPT ![i] = [pc |-> "sendsel", x |-> Head(inb[i])]] /\ inb' = [inb EXCEPT ![i] = Tail(@)]
               /\ UNCHANGED <<outb, closed, cl, env, obs>>
JRecvHand(i) == cp[i].pc = "recv" /\ cfg.cap = 0 /\ env.spend[i] /\ cp' = [cp EXCEPT ![i] = [pc |-> "sendsel", x |-> Val(i)]]
               /\ env' = [env EXCEPT !.spend[i] = FALSE, !.sidx[i] = @ + 1] /\ obs' = [obs EXCEPT !.sent[i] = Append(@, Val(i))]
               /\ UNCHANGED <<inb, outb, closed, cl>>
JRecvClosed(i) == cp[i].pc = "recv" /\ inb[i] = <<>> /\ closed.in[i] /\ cp' = [cp EXCEPT ![i].pc = "done"] /\ UNCHANGED <<inb, outb, closed, cl, env, obs>>
JSendBuf(i) == cp[i].pc = "sendsel" /\ Len(outb) < K /\ outb' = Append(outb, cp[i].x) /\ cp' = [cp EXCEPT ![i].pc = "recv"] /\ UNCHANGED <<inb, closed, cl, env, obs>>
JCancel(i) == cp[i].pc = "sendsel" /\ env.cancelled /\ cp' = [cp EXCEPT ![i].pc = "done"] /\ UNCHANGED <<inb, outb, closed, cl, env, obs>>
CWait == cl = "wait" /\ (\A i \in I : cp[i].pc = "done") /\ cl' = "close" /\ UNCHANGED <<inb, outb, closed, cp, env, obs>>
CClose == cl = "close" /\ closed' = [closed EXCEPT !.out = TRUE] /\ cl' = "done" /\ UNCHANGED <<inb, outb, cp, env, obs>>
SendBuf(i) == env.spend[i] /\ Len(inb[i]) < cfg.cap /\ inb' = [inb EXCEPT ![i] = Append(@, Val(i))]
              /\ env' = [env EXCEPT !.spend[i] = FALSE, !.sidx[i] = @ + 1] /\ obs' = [obs EXCEPT !.sent[i] = Append(@, Val(i))] /\ UNCHANGED <<outb, closed, cp, cl>>
RecvBuf == env.rp /\ outb # <<>> /\ outb' = Tail(outb) /\ env' = [env EXCEPT !.rp = FALSE] /\ obs' = [obs EXCEPT !.got = Append(@, Head(outb))] /\ UNCHANGED <<inb, closed, cp, cl>>
RecvClosed == env.rp /\ outb = <<>> /\ closed.out /\ env' = [env EXCEPT !.rp = FALSE] /\ obs' = [obs EXCEPT !.seen = TRUE] /\ UNCHANGED <<inb, outb, closed, cp, cl>>
Lib == ((\E i \in I : JRecvBuf(i) \/ JRecvHand(i) \/ JRecvClosed(i) \/ JSendBuf(i) \/ JCancel(i) \/ SendBuf(i)) \/ CWait \/ CClose \/ RecvBuf \/ RecvClosed)
       /\ UNCHANGED <<cfg, sched>>

EnvOK == ~QStep \/ ~ENABLED Lib
Log(c) == sched' = IF KeepSched THEN Append(sched, c) ELSE sched     \* the history variable is switched off for liveness checking
EnvSend(i) == EnvOK /\ ~env.spend[i] /\ ~env.closedIn[i] /\ env.sidx[i] <= Len(cfg.inputs[i]) /\ env' = [env EXCEPT !.spend[i] = TRUE]
              /\ Log(Cmd("send", i - 1, "", 0)) /\ UNCHANGED <<cfg, inb, outb, closed, cp, cl, obs>>
EnvClose(i) == EnvOK /\ ~env.spend[i] /\ ~env.closedIn[i] /\ env' = [env EXCEPT !.closedIn[i] = TRUE] /\ closed' = [closed EXCEPT !.in[i] = TRUE]
              /\ Log(Cmd("close", i - 1, "", 0)) /\ UNCHANGED <<cfg, inb, outb, cp, cl, obs>>
EnvRecv == EnvOK /\ ~env.rp /\ ~obs.seen /\ env' = [env EXCEPT !.rp = TRUE] /\ Log(Cmd("recv", 0, "out", 0)) /\ UNCHANGED <<cfg, inb, outb, closed, cp, cl, obs>>
EnvCancel == EnvOK /\ ~env.cancelled /\ env' = [env EXCEPT !.cancelled = TRUE] /\ obs' = [obs EXCEPT !.sentAtCancel = obs.sent, !.gotAtCancel = Len(obs.got)]
              /\ Log(Cmd("cancel", 0, "", 0)) /\ UNCHANGED <<cfg, inb, outb, closed, cp, cl>>
Env == (\E i \in I : EnvSend(i) \/ EnvClose(i)) \/ EnvRecv \/ EnvCancel
Next == Lib \/ Env
Spec == Init /\ [][Next]_vars

O1(x) == [o \in {"out"} |-> x]
Obs == [sent |-> obs.sent, pend |-> [i \in I |-> IF env.spend[i] THEN <<Val(i)>> ELSE <<>>], closed |-> env.closedIn,
        sentAt |-> [i \in I |-> [j \in 1..Len(obs.sent[i]) |-> 0]],
        cancelled |-> env.cancelled, cancelAt |-> 0, lastEnvAt |-> 0, sentAtCancel |-> obs.sentAtCancel, gotAtCancel |-> O1(obs.gotAtCancel),
        got |-> O1(obs.got), gotAt |-> O1([j \in 1..Len(obs.got) |-> 0]), recvAt |-> O1(<<>>), seen |-> O1(obs.seen), rp |-> O1(env.rp), calls |-> <<>>, pending |-> 0,
        inLen |-> [i \in I |-> Len(inb[i])], live |-> Cardinality({i \in I : cp[i].pc # "done"}) + (IF cl = "done" THEN 0 ELSE 1), now |-> 0, panic |-> FALSE,
        quiet |-> ~ENABLED Lib, outs |-> {"out"}]
JoinPerInputInv == P!JoinPerInput(cfg, Obs)
JoinNothingInventedInv == P!JoinNothingInvented(cfg, Obs)
JoinCompleteInv == P!JoinComplete(cfg, Obs)
JoinNoStallInv == P!JoinNoStall(cfg, Obs)
Settle1Inv == P!Settle1(cfg, Obs)
Settle2Inv == P!Settle2(cfg, Obs)
\* liveness under weak fairness of the library's steps: cancelled and every input closed (no sender waiting) leads to
\* "no forwarder and no closer left" - whether or not anybody receives from the output again
FairSpec == Spec /\ WF_vars(Lib)
EventuallyGone == (env.cancelled /\ \A i \in I : env.closedIn[i] /\ ~env.spend[i]) ~> (Obs.live = 0)
\* ... and without a cancel: every input closed and a receiver that keeps receiving leads to the output being closed
FairRecvSpec == Spec /\ WF_vars(Lib) /\ WF_vars(EnvRecv)
EventuallyClosed == (\A i \in I : env.closedIn[i] /\ ~env.spend[i]) ~> obs.seen
====
