---- MODULE Throttle ----
(* I layer: pipe.Throttling(in, ops, interval) on a virtual clock.
     pacer: for { for i := 0; i < ops; i++ { select { ctl <- token | <-ctx.Done(): return } }; select { <-time.After(interval) | <-ctx.Done(): return } }   defer close(ctl)
     data:  for a := range in { select { <-ctl | <-ctx.Done(): return }; select { out <- a | <-ctx.Done(): return } }                                    defer close(out)
   ctl has capacity ops; out has the capacity of in. *)
EXTENDS Integers, Sequences, FiniteSets, TLC
P == INSTANCE PipeProps

CONSTANTS Cfgs, QStep, KeepSched, MaxT
VARIABLES cfg, inb, outb, closed, ctl, pc, da, env, obs, now, sched
vars == <<cfg, inb, outb, closed, ctl, pc, da, env, obs, now, sched>>
View == <<cfg, inb, outb, closed, ctl, pc, da, env, obs, now>>
\* for the invariants that do not look at when sends completed / receives were issued / the environment last moved
ViewLite == <<cfg, inb, outb, closed, ctl, pc, da, env, [obs EXCEPT !.recvAt = <<>>, !.sentAt = <<>>, !.lastEnvAt = 0], now>>

Input == cfg.inputs[1]
Cmd(c, i, o, x, d) == [c |-> c, i |-> i, o |-> o, x |-> x, d |-> d]

Init == /\ cfg \in Cfgs
        /\ inb = <<>> /\ outb = <<>> /\ closed = [in |-> FALSE, out |-> FALSE, ctl |-> FALSE] /\ ctl = 0
        /\ pc = [p |-> "push", i |-> 0, wake |-> 0, d |-> "recv"] /\ da = 0
        /\ env = [spend |-> FALSE, sidx |-> 1, closedIn |-> FALSE, rp |-> FALSE, cancelled |-> FALSE]
        /\ obs = [sent |-> <<>>, sentAt |-> <<>>, got |-> <<>>, gotAt |-> <<>>, recvAt |-> <<>>, seen |-> FALSE,
                  cancelAt |-> 0, lastEnvAt |-> 0, sentAtCancel |-> <<>>, gotAtCancel |-> 0]
        /\ now = 0 /\ sched = <<>>

(* pacer *)
PPush == pc.p = "push" /\ pc.i < cfg.ops /\ ctl < cfg.ops /\ ctl' = ctl + 1 /\ pc' = [pc EXCEPT !.i = @ + 1] /\ UNCHANGED <<inb, outb, closed, da, env, obs>>
PPushDone == pc.p = "push" /\ pc.i = cfg.ops /\ pc' = [pc EXCEPT !.p = "wait", !.wake = now + cfg.interval, !.i = 0] /\ UNCHANGED <<inb, outb, closed, ctl, da, env, obs>>
PTimer == pc.p = "wait" /\ now >= pc.wake /\ pc' = [pc EXCEPT !.p = "push"] /\ UNCHANGED <<inb, outb, closed, ctl, da, env, obs>>
PCancel == pc.p \in {"push", "wait"} /\ env.cancelled /\ pc' = [pc EXCEPT !.p = "done"] /\ closed' = [closed EXCEPT !.ctl = TRUE] /\ UNCHANGED <<inb, outb, ctl, da, env, obs>>
(* data goroutine *)
DRecvBuf == pc.d = "recv" /\ inb # <<>> /\ da' = Head(inb) /\ inb' = Tail(inb) /\ pc' = [pc EXCEPT !.d = "token"] /\ UNCHANGED <<outb, closed, ctl, env, obs>>
DRecvHand == pc.d = "recv" /\ cfg.cap = 0 /\ env.spend /\ da' = Input[env.sidx] /\ pc' = [pc EXCEPT !.d = "token"]
             /\ env' = [env EXCEPT !.spend = FALSE, !.sidx = @ + 1] /\ obs' = [obs EXCEPT !.sent = Append(@, Input[env.sidx]), !.sentAt = Append(@, now)]
             /\ UNCHANGED <<inb, outb, closed, ctl>>
DRecvClosed == pc.d = "recv" /\ inb = <<>> /\ closed.in /\ pc' = [pc EXCEPT !.d = "done"] /\ closed' = [closed EXCEPT !.out = TRUE] /\ UNCHANGED <<inb, outb, ctl, da, env, obs>>
\* <-ctl : a token, or the zero value of the closed control channel
DToken == pc.d = "token" /\ (ctl > 0 \/ closed.ctl) /\ ctl' = (IF ctl > 0 THEN ctl - 1 ELSE 0) /\ pc' = [pc EXCEPT !.d = "send"] /\ UNCHANGED <<inb, outb, closed, da, env, obs>>
DSendBuf == pc.d = "send" /\ Len(outb) < cfg.cap /\ outb' = Append(outb, da) /\ pc' = [pc EXCEPT !.d = "recv"] /\ UNCHANGED <<inb, closed, ctl, da, env, obs>>
DSendHand == pc.d = "send" /\ cfg.cap = 0 /\ env.rp /\ pc' = [pc EXCEPT !.d = "recv"] /\ env' = [env EXCEPT !.rp = FALSE]
             /\ obs' = [obs EXCEPT !.got = Append(@, da), !.gotAt = Append(@, now)] /\ UNCHANGED <<inb, outb, closed, ctl, da>>
DCancel == pc.d \in {"token", "send"} /\ env.cancelled /\ pc' = [pc EXCEPT !.d = "done"] /\ closed' = [closed EXCEPT !.out = TRUE] /\ UNCHANGED <<inb, outb, ctl, da, env, obs>>
(* completions of the environment's parked operations *)
SendBuf == env.spend /\ Len(inb) < cfg.cap /\ inb' = Append(inb, Input[env.sidx]) /\ env' = [env EXCEPT !.spend = FALSE, !.sidx = @ + 1]
           /\ obs' = [obs EXCEPT !.sent = Append(@, Input[env.sidx]), !.sentAt = Append(@, now)] /\ UNCHANGED <<outb, closed, ctl, pc, da>>
RecvBuf == env.rp /\ outb # <<>> /\ outb' = Tail(outb) /\ env' = [env EXCEPT !.rp = FALSE]
           /\ obs' = [obs EXCEPT !.got = Append(@, Head(outb)), !.gotAt = Append(@, now)] /\ UNCHANGED <<inb, closed, ctl, pc, da>>
RecvClosed == env.rp /\ outb = <<>> /\ closed.out /\ env' = [env EXCEPT !.rp = FALSE] /\ obs' = [obs EXCEPT !.seen = TRUE] /\ UNCHANGED <<inb, outb, closed, ctl, pc, da>>
Lib == (PPush \/ PPushDone \/ PTimer \/ PCancel \/ DRecvBuf \/ DRecvHand \/ DRecvClosed \/ DToken \/ DSendBuf \/ DSendHand \/ DCancel
        \/ SendBuf \/ RecvBuf \/ RecvClosed) /\ UNCHANGED <<cfg, now, sched>>

Quiet == ~ENABLED Lib
EnvOK == ~QStep \/ Quiet
Log(c) == sched' = IF KeepSched THEN Append(sched, c) ELSE sched     \* the history variable is switched off for liveness checking
Touch(o) == [o EXCEPT !.lastEnvAt = now]
EnvSend == EnvOK /\ ~env.spend /\ ~env.closedIn /\ env.sidx <= Len(Input) /\ env' = [env EXCEPT !.spend = TRUE] /\ obs' = Touch(obs)
           /\ Log(Cmd("send", 0, "", 0, 0)) /\ UNCHANGED <<cfg, inb, outb, closed, ctl, pc, da, now>>
EnvClose == EnvOK /\ ~env.spend /\ ~env.closedIn /\ env' = [env EXCEPT !.closedIn = TRUE] /\ closed' = [closed EXCEPT !.in = TRUE] /\ obs' = Touch(obs)
           /\ Log(Cmd("close", 0, "", 0, 0)) /\ UNCHANGED <<cfg, inb, outb, ctl, pc, da, now>>
EnvRecv == EnvOK /\ ~env.rp /\ ~obs.seen /\ env' = [env EXCEPT !.rp = TRUE] /\ obs' = [Touch(obs) EXCEPT !.recvAt = Append(@, now)]
           /\ Log(Cmd("recv", 0, "out", 0, 0)) /\ UNCHANGED <<cfg, inb, outb, closed, ctl, pc, da, now>>
EnvCancel == EnvOK /\ ~env.cancelled /\ env' = [env EXCEPT !.cancelled = TRUE]
           /\ obs' = [Touch(obs) EXCEPT !.cancelAt = now, !.sentAtCancel = obs.sent, !.gotAtCancel = Len(obs.got)]
           /\ Log(Cmd("cancel", 0, "", 0, 0)) /\ UNCHANGED <<cfg, inb, outb, closed, ctl, pc, da, now>>
EnvTick == Quiet /\ now < MaxT /\ now' = now + 1 /\ Log(Cmd("advance", 0, "", 0, 1)) /\ UNCHANGED <<cfg, inb, outb, closed, ctl, pc, da, env, obs>>
Env == EnvSend \/ EnvClose \/ EnvRecv \/ EnvCancel \/ EnvTick
Next == Lib \/ Env
Spec == Init /\ [][Next]_vars

O1(x) == [o \in {"out"} |-> x]
Obs == [sent |-> <<obs.sent>>, pend |-> <<IF env.spend THEN <<Input[env.sidx]>> ELSE <<>> >>, closed |-> <<env.closedIn>>, sentAt |-> <<obs.sentAt>>,
        cancelled |-> env.cancelled, cancelAt |-> obs.cancelAt, lastEnvAt |-> obs.lastEnvAt, sentAtCancel |-> <<obs.sentAtCancel>>, gotAtCancel |-> O1(obs.gotAtCancel),
        got |-> O1(obs.got), gotAt |-> O1(obs.gotAt), recvAt |-> O1(obs.recvAt), seen |-> O1(obs.seen), rp |-> O1(env.rp), calls |-> <<>>, pending |-> 0,
        inLen |-> <<Len(inb)>>, live |-> (IF pc.p = "done" THEN 0 ELSE 1) + (IF pc.d = "done" THEN 0 ELSE 1), now |-> now, panic |-> FALSE,
        quiet |-> Quiet, outs |-> {"out"}]
PrefixInv == P!Prefix(cfg, Obs)
CompleteInv == P!Complete(cfg, Obs)
ThrottleWindowInv == P!ThrottleWindow(cfg, Obs)
ThrottlePacedInv == P!ThrottlePaced(cfg, Obs)
Settle1Inv == P!Settle1(cfg, Obs)
Settle2Inv == P!Settle2(cfg, Obs)
NoEarlyCloseInv == P!NoEarlyClose(cfg, Obs)
\* liveness under weak fairness of the library's steps (no clock needed: both goroutines have a ctx.Done arm wherever they wait):
\* cancelled and the input closed leads to "pacer and worker gone"
FairSpec == Spec /\ WF_vars(Lib)
EventuallyGone == (env.cancelled /\ env.closedIn /\ ~env.spend) ~> (Obs.live = 0)
\* the bound of the statement is tight in the model: one less is violated (checked separately as a vacuity guard)
TighterWindow == LET t == obs.gotAt IN \A j \in 1..Len(t) : Cardinality({i \in 1..Len(t) : t[j] <= t[i] /\ t[i] < t[j] + cfg.interval}) <= P!Bound(cfg) - 1
====
