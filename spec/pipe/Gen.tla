---- MODULE Gen ----
(* I layer: the generators pipe.Emit and pipe.Unfold (fork.Emit / fork.Unfold delegate to them) on a virtual clock.

   Emit(cap, freq, f):   for i := 0; ; i++ { time.Sleep(freq); v, err := f(i);
                                             err: if !catch(err) return else continue;  select { out <- v | <-ctx.Done(): return } }
   Unfold(cap, seed, f): for { select { out <- seed | <-ctx.Done(): return }; seed, err = f(seed); err: if !catch(err) return else continue }
   both: defer close(out); defer close(exx)        (exx is closed first)
   catch:  Lift / Pure: exx <- err (capacity 1); return false      Try: select { exx <- err: true | <-ctx.Done(): false }

   Time is a counter that advances only when no goroutine can move (testing/synctest's rule, also when QStep is off). *)
EXTENDS Integers, Sequences, FiniteSets, TLC
P == INSTANCE PipeProps

CONSTANTS Cfgs, QStep, KeepSched, MaxT, MaxCalls
VARIABLES cfg, ch, g, env, obs, now, sched
vars == <<cfg, ch, g, env, obs, now, sched>>
View == <<cfg, ch, g, env, obs, now>>
\* for the invariants that do not look at when receives were issued / when the environment last moved
ViewLite == <<cfg, ch, g, env, [obs EXCEPT !.recvAt = [o \in DOMAIN obs.recvAt |-> <<>>], !.lastEnvAt = 0], now>>

Outs == IF cfg.stderr THEN {"out"} ELSE {"out", "exx"}
Bad(x) == cfg.mode # "pure" /\ x \in cfg.fail
Cmd(c, i, o, x, d) == [c |-> c, i |-> i, o |-> o, x |-> x, d |-> d]
ExxCap == IF cfg.mode = "try" THEN cfg.cap ELSE 1

Init == /\ cfg \in Cfgs
        /\ ch = [c \in {"out", "exx"} |-> [buf |-> <<>>, cap |-> IF c = "out" THEN cfg.cap ELSE ExxCap, closed |-> FALSE]]
        /\ g = [pc |-> IF cfg.kind = "Emit" THEN "sleep" ELSE "sendsel", i |-> 0, seed |-> cfg.seed, val |-> cfg.seed, wake |-> cfg.freq, err |-> 0]
        /\ env = [rp |-> [o \in Outs |-> FALSE], cancelled |-> FALSE]
        /\ obs = [got |-> [o \in Outs |-> <<>>], gotAt |-> [o \in Outs |-> <<>>], recvAt |-> [o \in Outs |-> <<>>], seen |-> [o \in Outs |-> FALSE],
                  calls |-> <<>>, cancelAt |-> 0, lastEnvAt |-> 0, gotAtCancel |-> [o \in Outs |-> 0]]
        /\ now = 0 /\ sched = <<>>

Room(c) == Len(ch[c].buf) < ch[c].cap
Parked(o) == o \in Outs /\ env.rp[o]
\* with StdErr attached the error channel always has a reader (the library's logging goroutine)
CanSend(c) == Room(c) \/ (ch[c].cap = 0 /\ (Parked(c) \/ (c = "exx" /\ cfg.stderr)))
DoSend(c, v) == IF Room(c) /\ ~(c = "exx" /\ cfg.stderr) THEN ch' = [ch EXCEPT ![c].buf = Append(@, v)] /\ UNCHANGED <<env, obs>>
                ELSE IF Parked(c) THEN /\ env' = [env EXCEPT !.rp[c] = FALSE]
                                       /\ obs' = [obs EXCEPT !.got[c] = Append(@, v), !.gotAt[c] = Append(@, now)] /\ UNCHANGED ch
                ELSE UNCHANGED <<ch, env, obs>>

Returned(r) ==
  IF cfg.kind = "Emit" THEN (IF Bad(r.i) THEN [r EXCEPT !.pc = "catch", !.err = r.i] ELSE [r EXCEPT !.val = P!EmitVal(r.i), !.pc = "sendsel"])
  ELSE (IF Bad(r.seed) THEN [r EXCEPT !.pc = "catch", !.err = r.seed, !.seed = r.seed + 100, !.val = r.seed + 100]   \* seed, err = f(seed)
        ELSE [r EXCEPT !.seed = P!StepFn(cfg.step, r.seed), !.val = P!StepFn(cfg.step, r.seed), !.pc = "sendsel"])
\* what follows a completed iteration
NextIter(r) == IF cfg.kind = "Emit" THEN [r EXCEPT !.i = @ + 1, !.pc = "sleep", !.wake = now + cfg.freq] ELSE r

GWake == g.pc = "sleep" /\ now >= g.wake /\ g' = [g EXCEPT !.pc = "call"] /\ UNCHANGED <<ch, env, obs>>
GCall == /\ g.pc = "call"
         /\ obs' = [obs EXCEPT !.calls = Append(@, [a |-> 0, x |-> IF cfg.kind = "Emit" THEN g.i ELSE g.seed, at |-> now])]
         /\ g' = IF cfg.gate THEN [g EXCEPT !.pc = "incall"] ELSE Returned(g)
         /\ UNCHANGED <<ch, env>>
GSend == g.pc = "sendsel" /\ CanSend("out") /\ DoSend("out", g.val)
         /\ g' = IF cfg.kind = "Emit" THEN NextIter(g) ELSE [g EXCEPT !.pc = "call"]
GSendDone == g.pc = "sendsel" /\ env.cancelled /\ g' = [g EXCEPT !.pc = "close_exx"] /\ UNCHANGED <<ch, env, obs>>
GCatchLift == g.pc = "catch" /\ cfg.mode # "try" /\ CanSend("exx") /\ DoSend("exx", g.err) /\ g' = [g EXCEPT !.pc = "close_exx"]
GCatchTry == g.pc = "catch" /\ cfg.mode = "try" /\ CanSend("exx") /\ DoSend("exx", g.err)
             /\ g' = IF cfg.kind = "Emit" THEN NextIter(g) ELSE [g EXCEPT !.pc = "sendsel"]
GCatchDone == g.pc = "catch" /\ cfg.mode = "try" /\ env.cancelled /\ g' = [g EXCEPT !.pc = "close_exx"] /\ UNCHANGED <<ch, env, obs>>
GClose == \E c \in {"exx", "out"} : g.pc = "close_" \o c /\ ch' = [ch EXCEPT ![c].closed = TRUE]
             /\ g' = [g EXCEPT !.pc = IF c = "exx" THEN "close_out" ELSE "done"] /\ UNCHANGED <<env, obs>>
Gor == GWake \/ GCall \/ GSend \/ GSendDone \/ GCatchLift \/ GCatchTry \/ GCatchDone \/ GClose

CRecvBuf(o) == env.rp[o] /\ ch[o].buf # <<>> /\ ch' = [ch EXCEPT ![o].buf = Tail(@)] /\ env' = [env EXCEPT !.rp[o] = FALSE]
            /\ obs' = [obs EXCEPT !.got[o] = Append(@, Head(ch[o].buf)), !.gotAt[o] = Append(@, now)] /\ UNCHANGED g
CRecvClosed(o) == env.rp[o] /\ ch[o].buf = <<>> /\ ch[o].closed /\ env' = [env EXCEPT !.rp[o] = FALSE]
            /\ obs' = [obs EXCEPT !.seen[o] = TRUE] /\ UNCHANGED <<ch, g>>
Lib == (Gor \/ (\E o \in Outs : CRecvBuf(o) \/ CRecvClosed(o))) /\ UNCHANGED <<cfg, now, sched>>

Quiet == ~ENABLED Lib
EnvOK == ~QStep \/ Quiet
Log(c) == sched' = IF KeepSched THEN Append(sched, c) ELSE sched     \* the history variable is switched off for liveness checking
Touch(o) == [o EXCEPT !.lastEnvAt = now]
EnvRecv(o) == EnvOK /\ ~env.rp[o] /\ ~obs.seen[o] /\ env' = [env EXCEPT !.rp[o] = TRUE]
           /\ obs' = [Touch(obs) EXCEPT !.recvAt[o] = Append(@, now)]
           /\ Log(Cmd("recv", 0, o, 0, 0)) /\ UNCHANGED <<cfg, ch, g, now>>
EnvCancel == EnvOK /\ ~env.cancelled /\ env' = [env EXCEPT !.cancelled = TRUE]
           /\ obs' = [Touch(obs) EXCEPT !.cancelAt = now, !.gotAtCancel = [o \in Outs |-> Len(obs.got[o])]]
           /\ Log(Cmd("cancel", 0, "", 0, 0)) /\ UNCHANGED <<cfg, ch, g, now>>
EnvRelease == EnvOK /\ g.pc = "incall" /\ g' = Returned(g) /\ obs' = Touch(obs)
           /\ Log(Cmd("release", 0, "", -1, 0)) /\ UNCHANGED <<cfg, ch, env, now>>
EnvTick == Quiet /\ now < MaxT /\ now' = now + 1 /\ Log(Cmd("advance", 0, "", 0, 1)) /\ UNCHANGED <<cfg, ch, g, env, obs>>
Env == (\E o \in Outs : EnvRecv(o)) \/ EnvCancel \/ EnvRelease \/ EnvTick
Next == Lib \/ Env
Spec == Init /\ [][Next]_vars

Obs == [sent |-> <<>>, pend |-> <<>>, closed |-> <<>>, sentAt |-> <<>>,
        cancelled |-> env.cancelled, cancelAt |-> obs.cancelAt, lastEnvAt |-> obs.lastEnvAt, sentAtCancel |-> <<>>, gotAtCancel |-> obs.gotAtCancel,
        got |-> obs.got, gotAt |-> obs.gotAt, recvAt |-> obs.recvAt, seen |-> obs.seen, rp |-> env.rp,
        calls |-> obs.calls, pending |-> IF g.pc = "incall" THEN 1 ELSE 0,
        inLen |-> <<>>, live |-> (IF g.pc = "done" THEN 0 ELSE 1) + (IF cfg.stderr /\ ~ch["exx"].closed THEN 1 ELSE 0), now |-> now, panic |-> FALSE, quiet |-> Quiet, outs |-> Outs]
\* the generators never end by themselves: the explored space is cut by a state constraint (not by disabling the call)
Bounded == Len(obs.calls) <= MaxCalls
GenExactInv == P!GenExact(cfg, Obs)
EmitPacedInv == P!EmitPaced(cfg, Obs)
EmitKeepUpInv == P!EmitKeepUp(cfg, Obs)
GenSettleInv == P!GenSettle(cfg, Obs)
Settle2Inv == P!Settle2(cfg, Obs)
LiftClosesInv == P!LiftCloses(cfg, Obs)
GenNoEarlyCloseInv == P!GenNoEarlyClose(cfg, Obs)
====
