---- MODULE Stage ----
(* I layer: implementation-shaped model of the `for a := range in {...}` stage family of pipe/pipe.go
   (sequential; deferred closes) and pipe/fork/fork.go (cfg.forked: `par` workers + wg.Wait closer / collector
   goroutine): Map FMap Filter ForEach Void Fold Partition Take TakeWhile, in the modes pure / lift / try, optionally
   with pipe.StdErr attached to the error channel.  One action per blocking point of the Go code (DESIGN.md
   appendix B); user functions are harness code: entering one is logged (and, if cfg.gate, the call is held until the
   environment releases it).  The environment (producer, one consumer per returned channel, canceller, releaser)
   moves freely, or only at quiescence when QStep is set (that restriction yields replayable schedules).

   The configuration is a *variable* chosen in Init from Cfgs (and never changed) so that one TLC run covers a list of
   configurations and the trace specification can follow traces of different configurations in one batch. *)
EXTENDS Integers, Sequences, FiniteSets, TLC
P == INSTANCE PipeProps

CONSTANTS Cfgs,      \* set of configuration records (PipeProps cfg)
          QStep,     \* TRUE: environment moves only when the library cannot move
          KeepSched  \* TRUE: record the environment's moves in `sched` (schedule generation)
VARIABLES cfg, ch, wk, cl, se, env, obs, sched
vars == <<cfg, ch, wk, cl, se, env, obs, sched>>
View == <<cfg, ch, wk, cl, se, env, obs>>

W == 1..cfg.par
HasErr == cfg.kind \in {"Map", "FMap"}
Outs == CASE HasErr -> (IF cfg.stderr THEN {"out"} ELSE {"out", "exx"})
          [] cfg.kind = "Partition" -> {"out", "rout"}
          [] cfg.kind \in {"ForEach", "Void", "Fold"} -> {"res"}
          [] OTHER -> {"out"}
Chans == {"in", "out", "exx", "rout", "res", "vals"}
Forked == cfg.forked /\ cfg.kind \notin {"Take", "TakeWhile"}     \* fork.Take / TakeWhile delegate to pipe
CapOf(c) == CASE c = "in" -> cfg.cap
              [] c \in {"out", "rout"} -> IF Forked THEN cfg.par ELSE cfg.cap
              [] c = "exx" -> IF Forked THEN cfg.par ELSE IF cfg.mode = "try" THEN cfg.cap ELSE 1
              [] c = "res" -> IF cfg.kind = "Fold" THEN 1 ELSE 0
              [] c = "vals" -> cfg.par
Input == cfg.inputs[1]
Bad(x) == cfg.mode # "pure" /\ x \in cfg.fail
Yes(x) == x \in P!YesSet(cfg)
Empty == P!MEmpty(cfg.monoid)
Combine(a, x) == P!MOp(cfg.monoid, a, x)

Cmd(c, i, o, x) == [c |-> c, i |-> i, o |-> o, x |-> x, d |-> 0]

Init == /\ cfg \in Cfgs
        /\ ch = [c \in Chans |-> [buf |-> <<>>, cap |-> CapOf(c), closed |-> FALSE]]
        /\ wk = [w \in W |-> [pc |-> IF cfg.kind = "Take" /\ cfg.n <= 0 THEN "exit_stop" ELSE "recv",
                              a |-> 0, v |-> 0, tgt |-> "out", n |-> cfg.n, acc |-> Empty, k |-> 1]]
        /\ cl = [pc |-> IF Forked THEN "wait" ELSE "none", acc |-> 0, i |-> 0, x |-> 0]
        /\ se = IF HasErr /\ cfg.stderr THEN "recv" ELSE "none"
        /\ env = [spend |-> FALSE, sidx |-> 1, closedIn |-> FALSE, rp |-> [o \in Outs |-> FALSE], cancelled |-> FALSE]
        /\ obs = [sent |-> <<>>, got |-> [o \in Outs |-> <<>>], seen |-> [o \in Outs |-> FALSE], calls |-> <<>>,
                  sentAtCancel |-> <<>>, gotAtCancel |-> [o \in Outs |-> 0], panic |-> FALSE]
        /\ sched = <<>>

(* ------------------------------------------------------------------ channel helpers *)
Room(c) == Len(ch[c].buf) < ch[c].cap
Parked(o) == o \in Outs /\ env.rp[o]
StdErrTakes(c) == c = "exx" /\ se = "recv"
\* a send by a library goroutine: into the buffer, handed to the parked consumer, or handed to the StdErr goroutine
CanSend(c) == ch[c].closed \/ Room(c) \/ (ch[c].cap = 0 /\ (Parked(c) \/ StdErrTakes(c)))
DoSend(c, v) ==
  IF ch[c].closed THEN obs' = [obs EXCEPT !.panic = TRUE] /\ UNCHANGED <<ch, env>>        \* send on closed channel
  ELSE IF Room(c) THEN ch' = [ch EXCEPT ![c].buf = Append(@, v)] /\ UNCHANGED <<env, obs>>
  ELSE IF Parked(c) THEN /\ env' = [env EXCEPT !.rp[c] = FALSE] /\ obs' = [obs EXCEPT !.got[c] = Append(@, v)] /\ UNCHANGED ch
  ELSE UNCHANGED <<ch, env, obs>>                                                         \* swallowed by StdErr

(* ------------------------------------------------------------------ workers *)
\* where a worker goes when it leaves its loop: "eof" (input ended), "cancel" (ctx.Done), "stop" (Lift failure, Take done, TakeWhile refusal)
ExitPc(why) ==
  IF Forked THEN (IF cfg.kind = "Fold" THEN "valsend" ELSE "done")
  ELSE CASE HasErr -> "close_exx"
         [] cfg.kind = "Partition" -> "close_out"
         [] cfg.kind = "Fold" -> IF why = "eof" THEN "ressend" ELSE "close_res"     \* the value is emitted only at the end of the input
         [] cfg.kind \in {"ForEach", "Void"} -> "close_res"
         [] OTHER -> "close_out"
NormPc(pc) == IF pc = "exit_stop" THEN ExitPc("stop") ELSE pc
Goto(w, l) == wk' = [wk EXCEPT ![w].pc = l]
AfterRecv(w, x) ==
  CASE cfg.kind = "Void" -> [wk EXCEPT ![w].a = x, ![w].pc = "nbdone"]
    [] cfg.kind = "Take" -> [wk EXCEPT ![w].a = x, ![w].v = x, ![w].tgt = "out", ![w].pc = "sendsel"]
    [] OTHER -> [wk EXCEPT ![w].a = x, ![w].pc = "call"]
\* the worker's record when its user call returns
Returned(r) ==
  LET x == r.a IN
  CASE cfg.kind = "Map" -> IF Bad(x) THEN [r EXCEPT !.pc = "catch"] ELSE [r EXCEPT !.v = P!F(x), !.tgt = "out", !.pc = "sendsel"]
    [] cfg.kind = "FMap" -> IF Bad(x) THEN [r EXCEPT !.pc = "catch"] ELSE [r EXCEPT !.k = 1, !.pc = "emit"]
    [] cfg.kind = "Filter" -> IF Yes(x) THEN [r EXCEPT !.v = x, !.tgt = "out", !.pc = "sendsel"] ELSE [r EXCEPT !.pc = "recv"]
    [] cfg.kind = "Partition" -> [r EXCEPT !.v = x, !.tgt = IF Yes(x) THEN "out" ELSE "rout", !.pc = "sendsel"]
    [] cfg.kind = "TakeWhile" -> IF Yes(x) THEN [r EXCEPT !.v = x, !.tgt = "out", !.pc = "sendsel"] ELSE [r EXCEPT !.pc = ExitPc("stop")]
    [] cfg.kind = "ForEach" -> [r EXCEPT !.pc = "nbdone"]
    [] cfg.kind = "Fold" -> [r EXCEPT !.acc = Combine(@, x), !.pc = "nbdone"]

WInit(w) == wk[w].pc = "exit_stop" /\ Goto(w, ExitPc("stop")) /\ UNCHANGED <<ch, cl, se, env, obs>>
WRecvBuf(w) == wk[w].pc = "recv" /\ ch["in"].buf # <<>>
               /\ wk' = AfterRecv(w, Head(ch["in"].buf)) /\ ch' = [ch EXCEPT !["in"].buf = Tail(@)] /\ UNCHANGED <<cl, se, env, obs>>
WRecvHand(w) == wk[w].pc = "recv" /\ cfg.cap = 0 /\ env.spend
               /\ wk' = AfterRecv(w, Input[env.sidx]) /\ env' = [env EXCEPT !.spend = FALSE, !.sidx = @ + 1]
               /\ obs' = [obs EXCEPT !.sent = Append(@, Input[env.sidx])] /\ UNCHANGED <<ch, cl, se>>
WRecvClosed(w) == wk[w].pc = "recv" /\ ch["in"].buf = <<>> /\ ch["in"].closed /\ Goto(w, ExitPc("eof")) /\ UNCHANGED <<ch, cl, se, env, obs>>
WCall(w) == /\ wk[w].pc = "call"
            /\ obs' = [obs EXCEPT !.calls = Append(@, [a |-> IF cfg.kind = "Fold" THEN wk[w].acc ELSE 0, x |-> wk[w].a, at |-> 0])]
            /\ wk' = IF cfg.gate THEN [wk EXCEPT ![w].pc = "incall"] ELSE [wk EXCEPT ![w] = Returned(@)]
            /\ UNCHANGED <<ch, cl, se, env>>
\* select { tgt <- v | <-ctx.Done() }
WSend(w) == wk[w].pc = "sendsel" /\ CanSend(wk[w].tgt) /\ DoSend(wk[w].tgt, wk[w].v) /\ UNCHANGED <<cl, se>>
            /\ wk' = IF cfg.kind = "Take"
                     THEN [wk EXCEPT ![w].n = @ - 1, ![w].pc = IF wk[w].n - 1 = 0 THEN ExitPc("stop") ELSE "recv"]
                     ELSE [wk EXCEPT ![w].pc = "recv"]
WSendDone(w) == wk[w].pc = "sendsel" /\ env.cancelled /\ Goto(w, ExitPc("cancel")) /\ UNCHANGED <<ch, cl, se, env, obs>>
\* the FMap arrow (harness code on the worker's goroutine): the images one by one, each under select with ctx.Done
WEmit(w) == wk[w].pc = "emit" /\ wk[w].k <= Len(P!G(wk[w].a)) /\ CanSend("out") /\ DoSend("out", P!G(wk[w].a)[wk[w].k])
            /\ wk' = [wk EXCEPT ![w].k = @ + 1] /\ UNCHANGED <<cl, se>>
WEmitEnd(w) == wk[w].pc = "emit" /\ (wk[w].k > Len(P!G(wk[w].a)) \/ env.cancelled) /\ Goto(w, "nbdone") /\ UNCHANGED <<ch, cl, se, env, obs>>
\* select { case <-ctx.Done(): return; default: }
WNbDone(w) == wk[w].pc = "nbdone" /\ Goto(w, IF env.cancelled THEN ExitPc("cancel") ELSE "recv") /\ UNCHANGED <<ch, cl, se, env, obs>>
\* f.catch(ctx, err, exx): Lift = plain send then stop;  Try = select { exx <- err | <-ctx.Done() }
WCatchLift(w) == wk[w].pc = "catch" /\ cfg.mode # "try" /\ CanSend("exx") /\ DoSend("exx", wk[w].a) /\ Goto(w, ExitPc("stop")) /\ UNCHANGED <<cl, se>>
WCatchTry(w) == wk[w].pc = "catch" /\ cfg.mode = "try" /\ CanSend("exx") /\ DoSend("exx", wk[w].a) /\ Goto(w, "recv") /\ UNCHANGED <<cl, se>>
WCatchDone(w) == wk[w].pc = "catch" /\ cfg.mode = "try" /\ env.cancelled /\ Goto(w, ExitPc("cancel")) /\ UNCHANGED <<ch, cl, se, env, obs>>
\* deferred closes of the sequential stages, one step each, LIFO
WClose(w) == \E c \in {"exx", "out", "rout", "res"} : wk[w].pc = "close_" \o c
             /\ ch' = [ch EXCEPT ![c].closed = TRUE]
             /\ Goto(w, CASE c = "exx" -> "close_out"
                          [] c = "out" /\ cfg.kind = "Partition" -> "close_rout"
                          [] OTHER -> "done")
             /\ UNCHANGED <<cl, se, env, obs>>
\* pipe.Fold: `done <- acc` (capacity 1: always room) ; fork.Fold worker: deferred `vals <- acc`
WResSend(w) == wk[w].pc = "ressend" /\ ch' = [ch EXCEPT !["res"].buf = Append(@, wk[w].acc)] /\ Goto(w, "close_res") /\ UNCHANGED <<cl, se, env, obs>>
WValSend(w) == wk[w].pc = "valsend" /\ Room("vals") /\ ch' = [ch EXCEPT !["vals"].buf = Append(@, wk[w].acc)] /\ Goto(w, "done") /\ UNCHANGED <<cl, se, env, obs>>
Worker(w) == WInit(w) \/ WRecvBuf(w) \/ WRecvHand(w) \/ WRecvClosed(w) \/ WCall(w) \/ WSend(w) \/ WSendDone(w) \/ WEmit(w) \/ WEmitEnd(w)
             \/ WNbDone(w) \/ WCatchLift(w) \/ WCatchTry(w) \/ WCatchDone(w) \/ WClose(w) \/ WResSend(w) \/ WValSend(w)

(* ------------------------------------------------------------------ fork: closer / collector goroutine *)
AllDone == \A w \in W : wk[w].pc = "done"
CloseSeq == CASE HasErr -> <<"out", "exx">>
              [] cfg.kind = "Partition" -> <<"out", "rout">>
              [] cfg.kind \in {"ForEach", "Void", "Fold"} -> <<"res">>
              [] OTHER -> <<"out">>
CWait == cl.pc = "wait" /\ AllDone /\ UNCHANGED <<ch, wk, se, env, obs>>
         /\ cl' = IF cfg.kind = "Fold" THEN [cl EXCEPT !.pc = "collect", !.acc = Empty, !.i = 1]
                                       ELSE [cl EXCEPT !.pc = "closing", !.i = 1]
CClose == cl.pc = "closing" /\ cl.i <= Len(CloseSeq) /\ ch' = [ch EXCEPT ![CloseSeq[cl.i]].closed = TRUE]
          /\ cl' = [cl EXCEPT !.i = @ + 1, !.pc = IF cl.i = Len(CloseSeq) THEN "done" ELSE "closing"] /\ UNCHANGED <<wk, se, env, obs>>
\* collector: for i := 1..par { acc = m.Combine(acc, <-vals) }     (Combine is user code: logged, and held if cfg.gate)
CTake == cl.pc = "collect" /\ cl.i <= cfg.par /\ ch["vals"].buf # <<>>
         /\ LET x == Head(ch["vals"].buf) IN
            /\ cl' = IF cfg.gate THEN [cl EXCEPT !.x = x, !.pc = "incall"] ELSE [cl EXCEPT !.acc = Combine(@, x), !.i = @ + 1]
            /\ obs' = [obs EXCEPT !.calls = Append(@, [a |-> cl.acc, x |-> x, at |-> 0])]
         /\ ch' = [ch EXCEPT !["vals"].buf = Tail(@)] /\ UNCHANGED <<wk, se, env>>
CEmitRes == cl.pc = "collect" /\ cl.i > cfg.par /\ ch' = [ch EXCEPT !["res"].buf = Append(@, cl.acc)] /\ cl' = [cl EXCEPT !.pc = "closing", !.i = 1]
         /\ UNCHANGED <<wk, se, env, obs>>
Closer == CWait \/ CClose \/ CTake \/ CEmitRes

(* ------------------------------------------------------------------ pipe.StdErr goroutine: for err = range exx *)
SERecv == se = "recv" /\ ch["exx"].buf # <<>> /\ ch' = [ch EXCEPT !["exx"].buf = Tail(@)] /\ UNCHANGED <<wk, cl, se, env, obs>>
SEExit == se = "recv" /\ ch["exx"].buf = <<>> /\ ch["exx"].closed /\ se' = "done" /\ UNCHANGED <<ch, wk, cl, env, obs>>

(* ------------------------------------------------------------------ completions of the environment's parked operations *)
PSendBuf == env.spend /\ Room("in") /\ ch' = [ch EXCEPT !["in"].buf = Append(@, Input[env.sidx])]
            /\ env' = [env EXCEPT !.spend = FALSE, !.sidx = @ + 1] /\ obs' = [obs EXCEPT !.sent = Append(@, Input[env.sidx])] /\ UNCHANGED <<wk, cl, se>>
CRecvBuf(o) == env.rp[o] /\ ch[o].buf # <<>> /\ ch' = [ch EXCEPT ![o].buf = Tail(@)] /\ env' = [env EXCEPT !.rp[o] = FALSE]
            /\ obs' = [obs EXCEPT !.got[o] = Append(@, Head(ch[o].buf))] /\ UNCHANGED <<wk, cl, se>>
CRecvClosed(o) == env.rp[o] /\ ch[o].buf = <<>> /\ ch[o].closed /\ env' = [env EXCEPT !.rp[o] = FALSE]
            /\ obs' = [obs EXCEPT !.seen[o] = TRUE] /\ UNCHANGED <<ch, wk, cl, se>>
LibStep == (\E w \in W : Worker(w)) \/ Closer \/ PSendBuf \/ (\E o \in Outs : CRecvBuf(o) \/ CRecvClosed(o))
Lib == (LibStep \/ SERecv \/ SEExit) /\ UNCHANGED <<cfg, sched>>

(* ------------------------------------------------------------------ environment commands *)
EnvOK == ~QStep \/ ~ENABLED Lib
Log(c) == sched' = IF KeepSched THEN Append(sched, c) ELSE sched     \* the history variable is switched off for liveness checking
EnvSend == EnvOK /\ ~env.spend /\ ~env.closedIn /\ env.sidx <= Len(Input) /\ env' = [env EXCEPT !.spend = TRUE]
           /\ Log(Cmd("send", 0, "", 0)) /\ UNCHANGED <<cfg, ch, wk, cl, se, obs>>
EnvClose == EnvOK /\ ~env.spend /\ ~env.closedIn /\ env' = [env EXCEPT !.closedIn = TRUE] /\ ch' = [ch EXCEPT !["in"].closed = TRUE]
           /\ Log(Cmd("close", 0, "", 0)) /\ UNCHANGED <<cfg, wk, cl, se, obs>>
EnvRecv(o) == EnvOK /\ ~env.rp[o] /\ ~obs.seen[o] /\ env' = [env EXCEPT !.rp[o] = TRUE]
           /\ Log(Cmd("recv", 0, o, 0)) /\ UNCHANGED <<cfg, ch, wk, cl, se, obs>>
EnvCancel == EnvOK /\ ~env.cancelled /\ env' = [env EXCEPT !.cancelled = TRUE]
           /\ obs' = [obs EXCEPT !.sentAtCancel = obs.sent, !.gotAtCancel = [o \in Outs |-> Len(obs.got[o])]]
           /\ Log(Cmd("cancel", 0, "", 0)) /\ UNCHANGED <<cfg, ch, wk, cl, se>>
EnvRelease(w) == EnvOK /\ wk[w].pc = "incall" /\ wk' = [wk EXCEPT ![w] = Returned(@)]
           /\ Log(Cmd("release", 0, "", wk[w].a)) /\ UNCHANGED <<cfg, ch, cl, se, env, obs>>
EnvReleaseC == EnvOK /\ cl.pc = "incall" /\ cl' = [cl EXCEPT !.acc = Combine(@, cl.x), !.i = @ + 1, !.pc = "collect"]
           /\ Log(Cmd("release", 0, "", -1)) /\ UNCHANGED <<cfg, ch, wk, se, env, obs>>
Env == EnvSend \/ EnvClose \/ (\E o \in Outs : EnvRecv(o)) \/ EnvCancel \/ (\E w \in W : EnvRelease(w)) \/ EnvReleaseC
Next == Lib \/ Env
Spec == Init /\ [][Next]_vars
\* fairness: the library's goroutines are scheduled; a held user call is eventually released (the harness does that)
FairSpec == Spec /\ WF_vars(Lib) /\ WF_vars((\E w \in W : EnvRelease(w)) \/ EnvReleaseC)

(* ------------------------------------------------------------------ the observation record of PipeProps, as a state function *)
LiveCount == Cardinality({w \in W : wk[w].pc # "done"}) + (IF cl.pc \in {"none", "done"} THEN 0 ELSE 1) + (IF se = "recv" THEN 1 ELSE 0)
Pending == Cardinality({w \in W : wk[w].pc = "incall"}) + (IF cl.pc = "incall" THEN 1 ELSE 0)
Obs == [sent |-> <<obs.sent>>, pend |-> <<IF env.spend THEN <<Input[env.sidx]>> ELSE <<>> >>, closed |-> <<env.closedIn>>,
        sentAt |-> <<[i \in 1..Len(obs.sent) |-> 0]>>,
        cancelled |-> env.cancelled, cancelAt |-> 0, lastEnvAt |-> 0, sentAtCancel |-> <<obs.sentAtCancel>>, gotAtCancel |-> obs.gotAtCancel,
        got |-> obs.got, gotAt |-> [o \in Outs |-> [i \in 1..Len(obs.got[o]) |-> 0]], recvAt |-> [o \in Outs |-> <<>>],
        seen |-> obs.seen, rp |-> env.rp, calls |-> obs.calls, pending |-> Pending,
        inLen |-> <<Len(ch["in"].buf)>>, live |-> LiveCount, now |-> 0, panic |-> obs.panic,
        quiet |-> ~ENABLED Lib, outs |-> Outs]

\* the predicates of PipeProps that concern this family, as invariants of the model
PrefixInv == P!Prefix(cfg, Obs)
FoldResInv == P!FoldRes(cfg, Obs)
CompleteInv == P!Complete(cfg, Obs)
TakeBoundInv == P!TakeBound(cfg, Obs)
CallsPrefixInv == P!CallsPrefix(cfg, Obs)
CallsCompleteInv == P!CallsComplete(cfg, Obs)
NoPanicInv == P!NoPanic(cfg, Obs)
Settle1Inv == P!Settle1(cfg, Obs)
Settle2Inv == P!Settle2(cfg, Obs)
LiftClosesInv == P!LiftCloses(cfg, Obs)
NoEarlyCloseInv == P!NoEarlyClose(cfg, Obs)
NoStallInv == P!NoStall(cfg, Obs)
DoneMeansDoneInv == P!DoneMeansDone(cfg, Obs)
\* liveness (under fairness of the library): once cancelled with the input closed and no call held, the stage is gone for good
Gone == LiveCount = 0
EventuallyGone == (env.cancelled /\ env.closedIn) ~> Gone
====
