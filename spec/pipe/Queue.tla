---- MODULE Queue ----
(* pipe/queue.go: the linked queue behind pipe.New (head, tail, next pointers, nodes recycled through a pool), as coded:
     enq(x):  val := pool.Get(); val.value = x; val.next = nil; if tail != nil { tail.next = val }; tail = val; if head == nil { head = val }
     deq():   val := head; head = val.next; if val == tail { tail = nil }; pool.Put(val); return val.value
     head():  zero value when empty, else head.value          emit(ch): nil channel when empty (disables the select arm)
   Refinement: the walk from head along next is the abstract sequence `mq` of Unbound.tla; TLC checks it for every history of
   enq / deq over a bounded number of nodes, including the queue draining to empty and refilling with recycled nodes. *)
EXTENDS Integers, Sequences, FiniteSets, TLC
CONSTANTS Nodes,    \* node identities (the pool hands out any free one, or a fresh one)
          Vals, MaxLen
NIL == 0
VARIABLES head, tail, next, value, free, abs
vars == <<head, tail, next, value, free, abs>>

Init == head = NIL /\ tail = NIL /\ next = [n \in Nodes |-> NIL] /\ value = [n \in Nodes |-> 0] /\ free = Nodes /\ abs = <<>>
Enq(x) == /\ Len(abs) < MaxLen
          /\ \E n \in free :
               /\ value' = [value EXCEPT ![n] = x]
               /\ next' = IF tail # NIL THEN [next EXCEPT ![n] = NIL, ![tail] = n] ELSE [next EXCEPT ![n] = NIL]
               /\ tail' = n
               /\ head' = IF head = NIL THEN n ELSE head
               /\ free' = free \ {n}
          /\ abs' = Append(abs, x)
Deq == /\ head # NIL
       /\ head' = next[head]
       /\ tail' = IF head = tail THEN NIL ELSE tail
       /\ free' = free \cup {head}
       /\ abs' = Tail(abs)
       /\ UNCHANGED <<next, value>>
Next == (\E x \in Vals : Enq(x)) \/ Deq
Spec == Init /\ [][Next]_vars

RECURSIVE Walk(_)
Walk(n) == IF n = NIL THEN <<>> ELSE <<value[n]>> \o Walk(next[n])
RECURSIVE Linked(_)
Linked(n) == IF n = NIL THEN {} ELSE {n} \cup Linked(next[n])
Refines == Walk(head) = abs
HeadValue == (IF head = NIL THEN 0 ELSE value[head]) = (IF abs = <<>> THEN 0 ELSE Head(abs))
EmptyIff == (head = NIL) = (abs = <<>>)
TailIsLast == IF abs = <<>> THEN tail = NIL ELSE (tail \in Linked(head) /\ next[tail] = NIL)
PoolDisjoint == Linked(head) \cap free = {}
====
