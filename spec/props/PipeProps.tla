---- MODULE PipeProps ----
(* P layer of the pipe / fork family (properties C05 - C13): the property statements written once as predicates
   over  cfg  (which stage, which harness-owned user functions)  and  obs  (what a user of the stage can observe).
   The same predicates are (a) invariants of the implementation-shaped models (Stage, Gen, JoinStage, Throttle,
   Unbound) where obs is a state function, and (b) the judge of executions recorded from the real code
   (PipeTraceP), where obs is folded from the recorded windows.  Only (b) produces verdicts.

   cfg : [kind, mode, forked, par, cap, inputs (Seq of Seq), fail (set), pred (set), n, freq, ops, interval,
          monoid, step, seed, gate, stderr]
   obs : [sent, pend, closed  : one entry per input channel (values whose send completed / a parked send / close issued),
          sentAt              : per input, completion times,
          cancelled, cancelAt, sentAtCancel (per input), gotAtCancel (per output: how many had been received),
          lastEnvAt           : time of the environment's last move other than letting time pass,
          got, gotAt, recvAt  : per output: values received, when, and when each receive was issued,
          seen, rp            : per output: close observed / a receive is parked,
          calls               : Seq of [a, x, at]  entries into harness-owned user functions, in order,
          pending             : number of user calls currently held at their gate,
          inLen (per input), live (library goroutines), now, panic, quiet (library cannot move), outs (set)]      *)
EXTENDS Integers, Sequences, FiniteSets, TLC

(* ------------------------------------------------------------------------------------ sequences and bags *)
IsPrefix(p, s) == Len(p) <= Len(s) /\ SubSeq(s, 1, Len(p)) = p
Range(s) == {s[i] : i \in DOMAIN s}
FirstN(s, n) == SubSeq(s, 1, IF n < Len(s) THEN (IF n < 0 THEN 0 ELSE n) ELSE Len(s))
RECURSIVE Flat(_)
Flat(ss) == IF ss = <<>> THEN <<>> ELSE Head(ss) \o Flat(Tail(ss))
Count(s, x) == Cardinality({i \in DOMAIN s : s[i] = x})
BagEq(a, b) == Len(a) = Len(b) /\ \A x \in Range(a) \cup Range(b) : Count(a, x) = Count(b, x)
SubBag(a, b) == \A x \in Range(a) : Count(a, x) <= Count(b, x)
Sel(s, P(_)) == SelectSeq(s, P)

(* ------------------------------------------------------------------------------------ harness-owned user functions *)
F(x) == 10 * x
\* the FMap arrow: nothing for multiples of 3, two values for the other odd numbers, one value otherwise
G(x) == IF x % 3 = 0 THEN <<>> ELSE IF x % 2 = 1 THEN <<10 * x, 10 * x + 1>> ELSE <<10 * x>>
EmitVal(i) == 100 + i
StepFn(step, s) == CASE step = "double" -> (2 * s) % 1009 [] step = "const" -> s [] OTHER -> s + 1
Bit(a, k) == (a \div k) % 2
And3(a, b) == Bit(a, 1) * Bit(b, 1) + 2 * Bit(a, 2) * Bit(b, 2) + 4 * Bit(a, 4) * Bit(b, 4)
OrB(x, y) == IF x + y > 0 THEN 1 ELSE 0
Or3(a, b) == OrB(Bit(a, 1), Bit(b, 1)) + 2 * OrB(Bit(a, 2), Bit(b, 2)) + 4 * OrB(Bit(a, 4), Bit(b, 4))
MEmpty(m) == CASE m = "prod" -> 1 [] m = "max" -> -1000 [] m = "min" -> 1000 [] m = "and" -> 7 [] m \in {"or", "orset"} -> 0
               [] m = "digits9" -> 9 [] OTHER -> 0          \* "sum" and "sumref" (a sum over a reference-typed accumulator)
MOp(m, a, b) == CASE m = "prod" -> a * b [] m = "max" -> (IF a > b THEN a ELSE b) [] m = "min" -> (IF a < b THEN a ELSE b)
                  [] m = "and" -> And3(a, b) [] m \in {"or", "orset"} -> Or3(a, b)      \* "orset": the same union over map-typed sets
                  [] m = "digits9" -> a * 10 + b [] OTHER -> a + b
RECURSIVE FoldL(_,_,_)
FoldL(m, a, s) == IF s = <<>> THEN a ELSE FoldL(m, MOp(m, a, Head(s)), Tail(s))

RECURSIVE UnfoldSeq(_,_,_,_,_)
\* the first n values of seed, f(seed), ...; a failing step of the harness returns (seed + 100, error): under Lift the stream
\* ends with the seed on which f failed, under Try it goes on from the returned value (no gap, no repeat)
UnfoldSeq(step, mode, fail, s, n) ==
  IF n = 0 THEN <<>> ELSE
  IF mode # "pure" /\ s \in fail THEN (IF mode = "lift" THEN <<s>> ELSE <<s>> \o UnfoldSeq(step, mode, fail, s + 100, n - 1))
  ELSE <<s>> \o UnfoldSeq(step, mode, fail, StepFn(step, s), n - 1)
(* ------------------------------------------------------------------------------------ list images *)
RECURSIVE MapL(_), FMapL(_), UpToFirstFail(_,_), TakeWhileL(_,_)
MapL(s) == IF s = <<>> THEN <<>> ELSE <<F(Head(s))>> \o MapL(Tail(s))
FMapL(s) == IF s = <<>> THEN <<>> ELSE G(Head(s)) \o FMapL(Tail(s))
UpToFirstFail(s, fail) == IF s = <<>> \/ Head(s) \in fail THEN <<>> ELSE <<Head(s)>> \o UpToFirstFail(Tail(s), fail)
UpToFirstFailIncl(s, fail) == FirstN(s, Len(UpToFirstFail(s, fail)) + 1)
Good(s, fail) == SelectSeq(s, LAMBDA x : x \notin fail)
Bad(s, fail) == SelectSeq(s, LAMBDA x : x \in fail)
TakeWhileL(s, pred) == IF s = <<>> \/ Head(s) \notin pred THEN <<>> ELSE <<Head(s)>> \o TakeWhileL(Tail(s), pred)

SeqKinds == {"Map", "FMap", "Filter", "ForEach", "Void", "Fold", "Partition", "Take", "TakeWhile"}
\* fork.Take / TakeWhile / Emit / Unfold / Join / Throttling delegate to pipe: sequential whatever cfg.forked says
Parallel(cfg) == cfg.forked /\ cfg.par > 1 /\ cfg.kind \in {"Map", "FMap", "Filter", "ForEach", "Void", "Fold", "Partition"}
\* a parallel stage under Lift: every worker stops at its own first failure; which elements the others still process is
\* not fixed by any property (C09 speaks of Try-mode errors): only the panic / closure / no-leak predicates apply there
Unspecified(cfg) == Parallel(cfg) /\ cfg.mode = "lift" /\ cfg.fail # {} /\ cfg.kind \in {"Map", "FMap"}
Ok(cfg, s) == IF cfg.mode = "try" THEN Good(s, cfg.fail) ELSE IF cfg.mode = "lift" THEN UpToFirstFail(s, cfg.fail) ELSE s
Errs(cfg, s) == IF cfg.mode = "try" THEN Bad(s, cfg.fail) ELSE IF cfg.mode = "lift" THEN FirstN(Bad(s, cfg.fail), 1) ELSE <<>>
\* a predicate that fails on an element (Lift / Try) does not hold for it: Filter drops it, Partition sends it right, TakeWhile
\* stops - that is what the sequential stages do (`take && err == nil`), and C09 measures the fork stages against them.
\* (Under Pure the harness' wrapper cannot report the failure and the predicate simply answers true.)
YesSet(cfg) == IF cfg.mode = "pure" THEN cfg.pred \cup cfg.fail ELSE cfg.pred \ cfg.fail
\* expected content of returned channel o for the input sequence s (uncancelled result)
L(cfg, o, s) ==
  CASE o = "exx" -> Errs(cfg, s)
    [] cfg.kind = "Map" -> MapL(Ok(cfg, s))
    [] cfg.kind = "FMap" -> FMapL(Ok(cfg, s))
    [] cfg.kind = "Filter" -> SelectSeq(s, LAMBDA x : x \in YesSet(cfg))
    [] cfg.kind = "Partition" /\ o = "out" -> SelectSeq(s, LAMBDA x : x \in YesSet(cfg))
    [] cfg.kind = "Partition" /\ o = "rout" -> SelectSeq(s, LAMBDA x : x \notin YesSet(cfg))
    [] cfg.kind = "Take" -> FirstN(s, cfg.n)
    [] cfg.kind = "TakeWhile" -> TakeWhileL(s, YesSet(cfg))
    [] cfg.kind = "Fold" -> <<FoldL(cfg.monoid, MEmpty(cfg.monoid), s)>>
    [] cfg.kind \in {"Throttling", "New", "ToSeq"} -> s
    [] OTHER -> <<>>
\* the elements on which the user function is expected to be entered
CalledL(cfg, s) ==
  CASE cfg.kind \in {"Map", "FMap"} -> IF cfg.mode = "lift" THEN UpToFirstFailIncl(s, cfg.fail) ELSE s
    [] cfg.kind = "TakeWhile" -> FirstN(s, Len(TakeWhileL(s, YesSet(cfg))) + 1)
    [] cfg.kind \in {"Filter", "Partition", "ForEach", "Fold"} -> s
    [] OTHER -> <<>>

(* ------------------------------------------------------------------------------------ helpers over obs *)
NIn(obs) == Len(obs.sent)
Offered(obs, i) == obs.sent[i] \o obs.pend[i]
AllInClosed(obs) == \A i \in 1..NIn(obs) : obs.closed[i]
AllSeen(obs) == \A o \in obs.outs : obs.seen[o]
Drained(obs) == \A o \in obs.outs : obs.rp[o] \/ obs.seen[o]
CallXs(obs) == [j \in 1..Len(obs.calls) |-> obs.calls[j].x]
OneIn(cfg) == cfg.kind \in SeqKinds \cup {"Throttling", "New", "ToSeq"}

(* ==================================================================================== C05 / C06 / C07 / C09 *)
\* what has been delivered is always a prefix (parallel stages: a sub-multiset) of the uncancelled result
Prefix(cfg, obs) ==
  (cfg.kind \in (SeqKinds \ {"Fold"}) \cup {"Throttling", "New", "ToSeq"} /\ ~Unspecified(cfg)) =>
    \A o \in obs.outs : IF Parallel(cfg) THEN SubBag(obs.got[o], L(cfg, o, Offered(obs, 1)))
                                         ELSE IsPrefix(obs.got[o], L(cfg, o, Offered(obs, 1)))
\* Fold: at most one value, and it is the fold of everything offered, from the monoid's Empty
\* (fork.Fold after a cancel is outside C09 / C10: C09 lists the stages that inherit C06, and Fold is not one of them)
FoldRes(cfg, obs) ==
  cfg.kind = "Fold" => /\ Len(obs.got["res"]) <= 1
                       /\ (obs.got["res"] # <<>> /\ (~cfg.forked \/ ~obs.cancelled)) => obs.got["res"] = L(cfg, "res", Offered(obs, 1))
\* when the input ended and every returned channel was seen closed (no cancel): exactly the list image
Complete(cfg, obs) ==
  (OneIn(cfg) /\ ~Unspecified(cfg) /\ ~obs.cancelled /\ AllInClosed(obs) /\ AllSeen(obs)) =>
    \A o \in obs.outs : IF Parallel(cfg) /\ cfg.kind # "Fold" THEN BagEq(obs.got[o], L(cfg, o, obs.sent[1]))
                                                              ELSE obs.got[o] = L(cfg, o, obs.sent[1])
\* Seq lifts a list into a (closed) channel: exactly its elements, in order
SeqExact(cfg, obs) == cfg.kind = "Seq" => /\ IsPrefix(obs.got["out"], cfg.inputs[1])
                                          /\ obs.seen["out"] => obs.got["out"] = cfg.inputs[1]
                                          /\ (obs.quiet /\ obs.rp["out"]) => FALSE
\* Take never consumes more than n elements
TakeBound(cfg, obs) == (cfg.kind = "Take" /\ cfg.n >= 0 /\ obs.quiet) => Len(obs.sent[1]) - obs.inLen[1] <= cfg.n
\* the user function is entered once per element it has to process, in input order (parallel: as a multiset),
\* and never on an element after the point where the stage has to stop (Lift: first failure; TakeWhile: first refusal)
CallsPrefix(cfg, obs) ==
  (cfg.kind \in SeqKinds /\ cfg.kind # "Fold" /\ ~Unspecified(cfg)) =>
    IF Parallel(cfg) THEN SubBag(CallXs(obs), CalledL(cfg, Offered(obs, 1)))
                     ELSE IsPrefix(CallXs(obs), CalledL(cfg, Offered(obs, 1)))
CallsComplete(cfg, obs) ==
  (cfg.kind \in SeqKinds /\ ~Unspecified(cfg) /\ ~obs.cancelled /\ AllInClosed(obs) /\ AllSeen(obs)) =>
    IF cfg.kind = "Fold"
    THEN LET n == Len(obs.sent[1]) IN
         /\ Len(obs.calls) = n + (IF cfg.forked THEN cfg.par ELSE 0)
         /\ IF Parallel(cfg) THEN BagEq(FirstN(CallXs(obs), n), obs.sent[1]) ELSE FirstN(CallXs(obs), n) = obs.sent[1]
    ELSE IF Parallel(cfg) THEN BagEq(CallXs(obs), CalledL(cfg, obs.sent[1])) ELSE CallXs(obs) = CalledL(cfg, obs.sent[1])
\* a stage that has to process its whole input (no Take / TakeWhile, no failure under Lift) does not close its outputs while
\* its input is still open ("... and then closes its outputs", "both channels close when the input ends"), unless cancelled
WholeInput(cfg, obs) == /\ cfg.kind \in {"Map", "FMap", "Filter", "Partition", "ForEach", "Void", "Fold", "Throttling", "ToSeq"}
                        /\ ~(cfg.mode = "lift" /\ \E j \in 1..Len(obs.calls) : obs.calls[j].x \in cfg.fail)
NoEarlyClose(cfg, obs) == (WholeInput(cfg, obs) /\ ~obs.cancelled /\ ~obs.closed[1]) => \A o \in obs.outs : ~obs.seen[o]
\* ... nor does it sit idle while a sender is waiting on its input and every consumer is waiting on its outputs
NoStall(cfg, obs) ==
  (WholeInput(cfg, obs) /\ cfg.kind # "Throttling" /\ obs.quiet /\ ~obs.cancelled /\ obs.pending = 0 /\ obs.pend[1] # <<>>
     /\ \A o \in obs.outs : obs.rp[o]) => FALSE
\* completion is not signalled while the user function is still running on an element (ForEach's done channel, Fold's result)
DoneMeansDone(cfg, obs) ==
  (cfg.kind \in {"ForEach", "Fold"} /\ ~obs.cancelled /\ \E o \in obs.outs : obs.seen[o] \/ obs.got[o] # <<>>) => obs.pending = 0
NoPanic(cfg, obs) == ~obs.panic
\* time a cancelled generator may need, after the environment's last move, before it notices
\* (it sleeps between calls, may still serve a receiver that is waiting and may still fill its buffer)
\* a throttled stage hands out `ops` tokens per interval: what it holds may need that many more intervals
Grace(cfg, obs) == CASE cfg.kind = "Emit" -> (2 * cfg.cap + 3) * cfg.freq
                     [] cfg.kind = "Throttling" -> ((Len(obs.sent[1]) \div cfg.ops) + 2) * cfg.interval
                     [] OTHER -> 0
LiveBound(cfg, obs) == IF cfg.kind = "Throttling" /\ ~obs.cancelled THEN 1 ELSE 0
\* settle-1: inputs closed, nothing held by the harness, every consumer waiting or done  =>  all closed, goroutines gone
Settle1(cfg, obs) ==
  (cfg.kind # "Pipeline" /\ obs.quiet /\ NIn(obs) > 0 /\ AllInClosed(obs) /\ obs.pending = 0 /\ Drained(obs) /\ obs.now >= obs.lastEnvAt + Grace(cfg, obs)) =>
    (AllSeen(obs) /\ obs.live <= LiveBound(cfg, obs))
\* settle-2: cancelled and inputs closed  =>  goroutines gone, and nobody who does receive is left waiting
Settle2(cfg, obs) ==
  (obs.quiet /\ obs.cancelled /\ AllInClosed(obs) /\ obs.pending = 0 /\ obs.now >= obs.lastEnvAt + Grace(cfg, obs)) =>
    (obs.live = 0 /\ \A o \in obs.outs : ~obs.rp[o])

\* Lift / LiftF (fail-fast): once the user function has failed on an element the stage delivers that error, closes both
\* channels and is gone - whether or not anybody is reading the error channel at that moment (the error waits in its buffer;
\* `ToSeq(out)` followed by `<-exx` is the documented way to consume a fail-fast stage)
LiftCloses(cfg, obs) ==
  (cfg.kind \in {"Map", "FMap", "Emit", "Unfold"} /\ cfg.mode = "lift" /\ ~Parallel(cfg) /\ obs.quiet /\ obs.pending = 0
     /\ \E j \in 1..Len(obs.calls) : obs.calls[j].x \in cfg.fail)
    => (obs.live = 0 /\ \A o \in obs.outs : ~obs.rp[o])

(* ==================================================================================== pipelines (spec growth: composition of stages)
   cfg.kind = "Pipeline": cfg.stages is the sequence of stage configurations, first to last, each int -> int
   (Map FMap Filter Take TakeWhile Fold Throttling, sequential or forked); error channels go to pipe.StdErr.
   The end-to-end meaning is the composition of the stages' list images. *)
RECURSIVE PipeL(_,_,_)
PipeL(stages, i, s) == IF i > Len(stages) THEN s ELSE PipeL(stages, i + 1, L(stages[i], "out", s))
PipeParallel(cfg) == \E i \in 1..Len(cfg.stages) : Parallel(cfg.stages[i])
PipeMonotone(cfg) == \A i \in 1..Len(cfg.stages) : cfg.stages[i].kind # "Fold"
\* a stage that may stop before its input ends leaves the stages before it blocked until the context is cancelled
PipeStopsEarly(cfg) == \E i \in 1..Len(cfg.stages) : cfg.stages[i].kind \in {"Take", "TakeWhile"} \/ (cfg.stages[i].mode = "lift" /\ cfg.stages[i].fail # {})
\* a pipeline fed by Unfold (no input channel; the README's quick example): 20 values of the generator are more than any
\* configured Take / TakeWhile lets through, so the image of that prefix is the whole result
PipeFed(cfg) == cfg.kind = "Pipeline" /\ cfg.inputs # <<>>
PipeGenSrc(cfg) == UnfoldSeq(cfg.step, "pure", {}, cfg.seed, 20)
PipeGen(cfg, obs) ==
  (cfg.kind = "Pipeline" /\ ~PipeFed(cfg)) =>
     /\ IF PipeParallel(cfg) THEN SubBag(obs.got["out"], PipeL(cfg.stages, 1, PipeGenSrc(cfg)))
                             ELSE PipeMonotone(cfg) => IsPrefix(obs.got["out"], PipeL(cfg.stages, 1, PipeGenSrc(cfg)))
     /\ (obs.seen["out"] /\ ~obs.cancelled) =>
           IF PipeParallel(cfg) THEN BagEq(obs.got["out"], PipeL(cfg.stages, 1, PipeGenSrc(cfg)))
                                ELSE obs.got["out"] = PipeL(cfg.stages, 1, PipeGenSrc(cfg))
PipePrefix(cfg, obs) ==
  (PipeFed(cfg) /\ PipeMonotone(cfg)) =>
     IF PipeParallel(cfg) THEN SubBag(obs.got["out"], PipeL(cfg.stages, 1, Offered(obs, 1)))
                          ELSE IsPrefix(obs.got["out"], PipeL(cfg.stages, 1, Offered(obs, 1)))
PipeComplete(cfg, obs) ==
  (PipeFed(cfg) /\ ~obs.cancelled /\ AllInClosed(obs) /\ obs.seen["out"]) =>
     IF PipeParallel(cfg) THEN BagEq(obs.got["out"], PipeL(cfg.stages, 1, obs.sent[1]))
                          ELSE obs.got["out"] = PipeL(cfg.stages, 1, obs.sent[1])
PipeSettle(cfg, obs) ==
  (PipeFed(cfg) /\ ~PipeStopsEarly(cfg) /\ obs.quiet /\ AllInClosed(obs) /\ obs.pending = 0 /\ Drained(obs)
     /\ obs.now >= obs.lastEnvAt + 100) => (AllSeen(obs) /\ obs.live = 0)

(* ==================================================================================== C08 the unbounded channel *)
NeverBlocksSender(cfg, obs) == (cfg.kind = "New" /\ obs.quiet /\ ~obs.cancelled /\ ~obs.closed[1]) => obs.pend[1] = <<>>
LosslessAfterCancel(cfg, obs) == (cfg.kind = "New" /\ obs.cancelled /\ obs.seen["out"]) => IsPrefix(obs.sentAtCancel[1], obs.got["out"])
\* once cancelled, or closed by the sender, a receiver that waits is never left waiting (it gets the backlog, then the close)
NewSettle(cfg, obs) == cfg.kind = "New" => ~(obs.quiet /\ (obs.cancelled \/ obs.closed[1]) /\ obs.pend[1] = <<>> /\ obs.rp["out"])
\* a receiver that waits is handed what has been sent: at rest, with the receiver waiting, nothing whose send completed is undelivered
NewDelivers(cfg, obs) == (cfg.kind = "New" /\ obs.quiet /\ obs.rp["out"]) => Len(obs.got["out"]) = Len(obs.sent[1])
\* (the clean end of stream after close-by-sender is Complete + Settle1 + NoPanic)

(* ==================================================================================== C11 Unfold / Emit *)
RECURSIVE EmitIdx(_,_,_,_)
\* indices 0.. whose value is delivered: the non-failing ones (Try), or those before the first failure (Lift)
EmitIdx(cfg, i, n, lim) == IF n = 0 \/ i > lim THEN <<>> ELSE
                           IF i \in cfg.fail THEN (IF cfg.mode = "try" THEN EmitIdx(cfg, i + 1, n, lim) ELSE <<>>)
                           ELSE <<i>> \o EmitIdx(cfg, i + 1, n - 1, lim)
EmitLim(obs) == Len(obs.calls) + 1
GenExact(cfg, obs) ==
  /\ cfg.kind = "Unfold" => /\ obs.got["out"] = UnfoldSeq(cfg.step, cfg.mode, cfg.fail, cfg.seed, Len(obs.got["out"]))
                             /\ ("exx" \in obs.outs => IsPrefix(obs.got["exx"], Errs(cfg, UnfoldSeq(cfg.step, cfg.mode, cfg.fail, cfg.seed, Len(obs.calls)))))
  /\ cfg.kind = "Emit" =>
       LET idx == EmitIdx(cfg, 0, Len(obs.got["out"]), EmitLim(obs)) IN
       /\ obs.got["out"] = [j \in 1..Len(idx) |-> EmitVal(idx[j])]
       /\ ("exx" \in obs.outs => IsPrefix(obs.got["exx"], Errs(cfg, [j \in 1..EmitLim(obs) |-> j - 1])))
       /\ \A j \in 1..Len(obs.calls) : obs.calls[j].x = j - 1                \* f(0), f(1), f(2), ... no gap, no repeat
EmitPaced(cfg, obs) ==
  cfg.kind = "Emit" =>
    /\ \A j \in 1..Len(obs.calls) : obs.calls[j].at >= j * cfg.freq          \* the k-th call (from 0) not before k+1 ticks
    /\ \A j \in 1..Len(obs.calls) - 1 : obs.calls[j + 1].at - obs.calls[j].at >= cfg.freq   \* at most one call per tick
    /\ \A j \in 1..Len(obs.got["out"]) : obs.gotAt["out"][j] >= (obs.got["out"][j] - 100 + 1) * cfg.freq
\* a consumer that keeps up (its j-th receive is issued no later than tick j-1's delivery time) gets one value per tick
EmitKeepUp(cfg, obs) ==
  (cfg.kind = "Emit" /\ ~cfg.gate /\ cfg.fail = {}) =>
    \A j \in 1..Len(obs.got["out"]) :
       ((\A i \in 1..j : obs.recvAt["out"][i] <= (i - 1) * cfg.freq) /\ (~obs.cancelled \/ j <= obs.gotAtCancel["out"]))
         => obs.gotAt["out"][j] = j * cfg.freq
\* "both stop ... after cancel": a generator whose consumer keeps receiving after the cancel does not go on for ever.  Each
\* further delivery needs the runtime to pick the send arm of `select { out <- v | <-ctx.Done() }` although the other arm is
\* ready too; Go picks uniformly, so 40 further deliveries beyond what the buffer held have probability 2^-40.
GenStops(cfg, obs) ==
  (cfg.kind \in {"Emit", "Unfold"} /\ obs.cancelled) =>
     \A o \in obs.outs : Len(obs.got[o]) - obs.gotAtCancel[o] <= cfg.cap + 42
\* ... "until cancelled": a generator does not end by itself (only a failure under Lift ends it)
GenNoEarlyClose(cfg, obs) ==
  (cfg.kind \in {"Emit", "Unfold"} /\ ~obs.cancelled /\ ~(cfg.mode = "lift" /\ \E j \in 1..Len(obs.calls) : obs.calls[j].x \in cfg.fail))
     => \A o \in obs.outs : ~obs.seen[o]
\* both stop and close their channels after cancel (with Settle2)
GenSettle(cfg, obs) ==
  (cfg.kind \in {"Emit", "Unfold"} /\ cfg.mode = "lift" /\ obs.quiet /\ obs.pending = 0 /\ Drained(obs)
     /\ \E j \in 1..Len(obs.calls) : obs.calls[j].x \in cfg.fail) => AllSeen(obs) /\ obs.live = 0

(* ==================================================================================== C12 Join *)
\* (the value 0 - the zero value of the element type, offered in place of the first value of the first input - belongs to input 1)
FromInput(v, i) == v \div 100 = i \/ (v = 0 /\ i = 1)
\* (an input channel handed to Join twice - cfg.dup - is read by two forwarders: its elements still arrive once each, but the
\*  statement's "original relative order" is about distinct inputs, so the order clause is not applied to such a channel)
JoinPerInput(cfg, obs) ==
  cfg.kind = "Join" => \A i \in 1..NIn(obs) : (i - 1) \in Range(cfg.dup) \/ IsPrefix(SelectSeq(obs.got["out"], LAMBDA v : FromInput(v, i)), Offered(obs, i))
JoinNothingInvented(cfg, obs) ==
  cfg.kind = "Join" => \A j \in 1..Len(obs.got["out"]) : \E i \in 1..NIn(obs) : FromInput(obs.got["out"][j], i)
JoinComplete(cfg, obs) ==
  (cfg.kind = "Join" /\ obs.seen["out"] /\ ~obs.cancelled) =>
     /\ AllInClosed(obs) /\ \A i \in 1..NIn(obs) : obs.pend[i] = <<>>
     /\ BagEq(obs.got["out"], Flat(obs.sent))
\* "merges all inputs": at rest, not cancelled, with the consumer waiting on the output, no sender is left waiting on an input
\* that is still open - whatever the other inputs do (an element offered on one input does not wait for other inputs to close)
JoinNoStall(cfg, obs) ==
  (cfg.kind = "Join" /\ obs.quiet /\ ~obs.cancelled /\ obs.rp["out"] /\ ~obs.seen["out"]) => \A i \in 1..NIn(obs) : obs.pend[i] = <<>>

(* ==================================================================================== C13 Throttling *)
Bound(cfg) == 2 * cfg.ops + 1 + cfg.cap
\* before cancellation no window of length `interval` sees more than 2*ops + 1 + c deliveries
ThrottleWindow(cfg, obs) ==
  cfg.kind = "Throttling" =>
    LET t == obs.gotAt["out"]
        n == IF obs.cancelled THEN obs.gotAtCancel["out"] ELSE Len(t) IN
    \A j \in 1..n : Cardinality({i \in 1..n : t[j] <= t[i] /\ t[i] < t[j] + cfg.interval}) <= Bound(cfg)
\* saturation: the whole input was available at time 0 and every receive was issued no later than the previous delivery
Saturated(cfg, obs, j) ==
  /\ \A i \in 1..Len(obs.sentAt[1]) : obs.sentAt[1][i] = 0
  /\ Len(obs.sent[1]) >= j
  /\ \A i \in 1..j : obs.recvAt["out"][i] <= (IF i = 1 THEN 0 ELSE obs.gotAt["out"][i - 1])
ThrottlePaced(cfg, obs) ==
  cfg.kind = "Throttling" =>
    \A j \in 1..Len(obs.got["out"]) :
       (Saturated(cfg, obs, j) /\ (~obs.cancelled \/ j <= obs.gotAtCancel["out"])) =>
          LET lo == ((j - 1) \div cfg.ops) * cfg.interval IN lo <= obs.gotAt["out"][j] /\ obs.gotAt["out"][j] <= lo + cfg.interval

(* ==================================================================================== the catalogue *)
\* name -> truth; PipeTraceP prints the names that are FALSE.  Which names belong to which property is decided by
\* the orchestrator (lib/fam_pipe.py: PREDS).
Verdicts(cfg, obs) ==
  [Prefix |-> Prefix(cfg, obs), SeqExact |-> SeqExact(cfg, obs), FoldRes |-> FoldRes(cfg, obs), Complete |-> Complete(cfg, obs), TakeBound |-> TakeBound(cfg, obs),
   CallsPrefix |-> CallsPrefix(cfg, obs), CallsComplete |-> CallsComplete(cfg, obs), NoPanic |-> NoPanic(cfg, obs),
   NoEarlyClose |-> NoEarlyClose(cfg, obs), NoStall |-> NoStall(cfg, obs), DoneMeansDone |-> DoneMeansDone(cfg, obs),
   Settle1 |-> Settle1(cfg, obs), Settle2 |-> Settle2(cfg, obs), LiftCloses |-> LiftCloses(cfg, obs),
   PipePrefix |-> PipePrefix(cfg, obs), PipeComplete |-> PipeComplete(cfg, obs), PipeSettle |-> PipeSettle(cfg, obs), PipeGen |-> PipeGen(cfg, obs),
   NeverBlocksSender |-> NeverBlocksSender(cfg, obs), LosslessAfterCancel |-> LosslessAfterCancel(cfg, obs), NewSettle |-> NewSettle(cfg, obs), NewDelivers |-> NewDelivers(cfg, obs),
   GenExact |-> GenExact(cfg, obs), GenStops |-> GenStops(cfg, obs), GenNoEarlyClose |-> GenNoEarlyClose(cfg, obs), EmitPaced |-> EmitPaced(cfg, obs), EmitKeepUp |-> EmitKeepUp(cfg, obs), GenSettle |-> GenSettle(cfg, obs),
   JoinPerInput |-> JoinPerInput(cfg, obs), JoinNothingInvented |-> JoinNothingInvented(cfg, obs), JoinComplete |-> JoinComplete(cfg, obs), JoinNoStall |-> JoinNoStall(cfg, obs),
   ThrottleWindow |-> ThrottleWindow(cfg, obs), ThrottlePaced |-> ThrottlePaced(cfg, obs)]
Failing(cfg, obs) == LET v == Verdicts(cfg, obs) IN {p \in DOMAIN v : ~v[p]}

\* vacuity guard: the conditional predicates whose antecedent holds in this observation (PipeTraceP accumulates them per
\* execution; the orchestrator reports, per check, in how many executions each predicate was really put to the test)
Exercised(cfg, obs) ==
  LET a == [Complete |-> OneIn(cfg) /\ ~Unspecified(cfg) /\ ~obs.cancelled /\ AllInClosed(obs) /\ AllSeen(obs),
            Settle1 |-> cfg.kind # "Pipeline" /\ obs.quiet /\ NIn(obs) > 0 /\ AllInClosed(obs) /\ obs.pending = 0 /\ Drained(obs) /\ obs.now >= obs.lastEnvAt + Grace(cfg, obs),
            Settle2 |-> obs.quiet /\ obs.cancelled /\ AllInClosed(obs) /\ obs.pending = 0 /\ obs.now >= obs.lastEnvAt + Grace(cfg, obs),
            LiftCloses |-> cfg.kind \in {"Map", "FMap", "Emit", "Unfold"} /\ cfg.mode = "lift" /\ ~Parallel(cfg) /\ obs.quiet /\ obs.pending = 0
                            /\ \E j \in 1..Len(obs.calls) : obs.calls[j].x \in cfg.fail,
            TakeBound |-> cfg.kind = "Take" /\ obs.sent[1] # <<>>,
            FoldRes |-> cfg.kind = "Fold" /\ obs.got["res"] # <<>>,
            NeverBlocksSender |-> cfg.kind = "New" /\ obs.quiet /\ ~obs.cancelled /\ ~obs.closed[1] /\ obs.sent[1] # <<>>,
            NewDelivers |-> cfg.kind = "New" /\ obs.quiet /\ obs.rp["out"] /\ obs.sent[1] # <<>>,
            LosslessAfterCancel |-> cfg.kind = "New" /\ obs.cancelled /\ obs.seen["out"] /\ obs.sentAtCancel[1] # <<>>,
            GenStops |-> cfg.kind \in {"Emit", "Unfold"} /\ obs.cancelled /\ \E o \in obs.outs : Len(obs.got[o]) > obs.gotAtCancel[o],
            EmitPaced |-> cfg.kind = "Emit" /\ Len(obs.calls) >= 2,
            EmitKeepUp |-> cfg.kind = "Emit" /\ ~cfg.gate /\ cfg.fail = {} /\ \E j \in 1..Len(obs.got["out"]) :
                              j >= 2 /\ (\A i \in 1..j : obs.recvAt["out"][i] <= (i - 1) * cfg.freq) /\ (~obs.cancelled \/ j <= obs.gotAtCancel["out"]),
            JoinComplete |-> cfg.kind = "Join" /\ obs.seen["out"] /\ ~obs.cancelled /\ NIn(obs) > 0,
            ThrottleWindow |-> cfg.kind = "Throttling" /\ Len(obs.got["out"]) > Bound(cfg),
            ThrottlePaced |-> cfg.kind = "Throttling" /\ \E j \in 1..Len(obs.got["out"]) : j > cfg.ops /\ Saturated(cfg, obs, j),
            PipeComplete |-> PipeFed(cfg) /\ ~obs.cancelled /\ AllInClosed(obs) /\ obs.seen["out"],
            PipeGen |-> cfg.kind = "Pipeline" /\ ~PipeFed(cfg) /\ obs.seen["out"] /\ ~obs.cancelled]
  IN {p \in DOMAIN a : a[p]}
====
