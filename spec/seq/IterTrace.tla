---- MODULE IterTrace ----
(* Trace validation (impl -> spec), batched: Batch.traces is a sequence of executions recorded from the real
   iterators on (random, deep) expressions; Init chooses the trace index, so every trace is judged independently.
     t.kind   "seq" | "pair"         t.expr   the expression (same JSON form the generator prints)
     t.steps  the documented loop as observed: [v = Value(), ok = Next(), vc / nc = user-function calls seen during
              each, k2 = Key() read again after Value() (pair kind)]
     t.fe     ForEach runs: [k = index of the failing callback call, visited, err = "same" | "nil" | "other"]
     t.srcok  the source slices still hold what they held before
     t.cc / t.post   calls during construction / Value() of the exhausted iterator: [panic, v]
     t.repoll  Next() of the exhausted iterator, polled once more: "false" | "true" | "panic"
   TRACE-P  in the first state of a trace the P layer of Iter (list semantics of the logged expression) judges the
            observation; every failing predicate is printed ({"t":"PVIOL",...}).
   TRACE-I  the cursor state of the model is advanced step by step; the first observed step that differs from the
            model's (value, Next result or the calls made) is printed ({"t":"DRIFT",...}) and following stops. *)
EXTENDS Iter, Json, IOUtils

Batch == JsonDeserialize(IOEnv.TRACE_FILE)
Traces == Batch.traces

VARIABLES ti, i, st, drift
vars == <<ti, i, st, drift>>

T == Traces[ti]
Obs == T.steps

Init == /\ ti \in 1..Len(Traces)
        /\ i = 0
        /\ LET k == Construct(Traces[ti].expr) IN
           /\ st = k[1]
           /\ drift = IF k[2] # Traces[ti].cc \/ ((k[1] = Nil) # (Len(Traces[ti].steps) = 0)) THEN "construct" ELSE "no"

\* one observed step against the model's cursor
Step == /\ drift = "no" /\ i < Len(Obs)
        /\ LET o == Obs[i + 1]
               v == Value(st)
               n == Next(st)
               same == v[1] = o.v /\ n[1] = o.ok /\ v[2] = o.vc /\ n[3] = o.nc
               last == i + 1 = Len(Obs)
           IN /\ st' = n[2]
              /\ drift' = IF ~same THEN "step"
                          ELSE IF last /\ n[1] THEN "length"          \* the model would go on
                          ELSE IF last /\ ~SamePost(PostOf(n[2]), T.post) THEN "post"
                          ELSE IF last /\ RepollOf(n[2]) # T.repoll THEN "repoll"
                          ELSE IF ~last /\ ~n[1] THEN "length"
                          ELSE "no"
        /\ i' = i + 1 /\ UNCHANGED ti
Next1 == Step

(* ---- P: judged once per trace *)
ObsValues == [j \in 1..Len(Obs) |-> Obs[j].v]
Expected == Sem(T.expr)
Failing ==
  (IF ObsValues # Expected THEN {"DrainedList"} ELSE {})
  \cup (IF T.kind = "pair" /\ \E j \in 1..Len(Obs) : Obs[j].k2 # Obs[j].v[1] THEN {"KeyValuePairing"} ELSE {})
  \cup (IF \E j \in 1..Len(T.fe) : T.fe[j].visited # ForEachL(Expected, T.fe[j].k).visited THEN {"ForEachVisits"} ELSE {})
  \cup (IF \E j \in 1..Len(T.fe) : T.fe[j].err # (IF ForEachL(Expected, T.fe[j].k).failed THEN "same" ELSE "nil") THEN {"ForEachError"} ELSE {})
  \cup (IF ~T.srcok THEN {"SourceModified"} ELSE {})
Finished == drift # "no" \/ i = Len(Obs)
Judge ==
  /\ (i = 0 /\ Failing # {} => PrintT(ToJson([t |-> "PVIOL", ti |-> ti, preds |-> Failing, want |-> Expected])))
  /\ (drift # "no" => PrintT(ToJson([t |-> "DRIFT", ti |-> ti, step |-> i, what |-> drift])))
  /\ (Finished => PrintT(ToJson([t |-> "DONE", ti |-> ti, steps |-> i])))
====
