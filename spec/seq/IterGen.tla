---- MODULE IterGen ----
(* Behaviour generator (spec -> impl): one JSON line per expression of the universe with
     list   the drained list the property promises (P layer: Sem)
     fe     ForEach with the callback failing at its (k+1)-th call, k = 0..Len(list): visited prefix, error returned?
     nil    the constructed iterator is nil                                   (I layer from here on)
     cc     user-function calls made while constructing
     steps  the documented loop: [v = Value(), ok = Next(), vc / nc = calls made by each]
     post   Value() of the exhausted iterator: [panic, v]
     repoll Next() of the exhausted iterator: "false" | "true" | "panic"
   and, once, the function tables on a small domain so that the Go harness can check that its tables are the same. *)
EXTENDS Iter, Json, Randomization
CONSTANTS Shape, Width,
          BaseSet, WrapsOf(_, _),   \* as in IterMC
          PerBase      \* 0: every expression of the universe; n > 0: a random n-subset of the last wrappings of each base
VARIABLES expr, phase

SeqBaseT == SeqBase(Shape, Width)
SeqWrapsT(tag, e) == SeqWraps(tag, e, Shape, Width)

CaseOf(kind, e) == LET r == Run(e)
                       l == Sem(e)
                   IN [t |-> "case", kind |-> kind, expr |-> e, list |-> l,
                       fe |-> [k1 \in 1..Len(l) + 1 |-> ForEachL(l, k1 - 1)],
                       nil |-> r.nil, cc |-> r.cc, steps |-> r.steps, post |-> r.post, repoll |-> r.repoll]
Final(W) == \E w \in W : w[1] \in {"seq", "pair"}
Thin(W) == IF PerBase = 0 \/ ~Final(W) \/ Cardinality(W) <= PerBase THEN W ELSE RandomSubset(PerBase, W)

Init == \E b \in BaseSet : phase = b[1] /\ expr = b[2]
Wrap == phase \notin {"seq", "pair"} /\ \E w \in Thin(WrapsOf(phase, expr)) : phase' = w[1] /\ expr' = w[2]
\* (every expression that is not complete yet prints a marker, so that the orchestrator can tell that no line was lost)
Emit == IF phase \in {"seq", "pair"} THEN PrintT(ToJson(CaseOf(phase, expr))) ELSE PrintT(ToJson([t |-> "mid"]))

TblLo == -3
TblN == 16
Tables == [t |-> "tables", kind |-> "seq", lo |-> TblLo,
           preds |-> [p \in Preds |-> [i \in 1..TblN |-> P(p, TblLo + i - 1)]],
           maps |-> [m \in Maps |-> [i \in 1..TblN |-> M(m, TblLo + i - 1)]],
           joins |-> [j \in Joins |-> [i \in 1..TblN |-> J(j, TblLo + i - 1)]]]
ASSUME PrintT(ToJson(Tables))
====
