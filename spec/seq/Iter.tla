---- MODULE Iter ----
(* trait/seq (and, through the extension tables, trait/pair): iterator combinators.

   An *expression* is a nested record
       [op "nil"] | [op "slice", xs] | [op "from", x]            (PairIter adds [op "pfrom", kv])
     | [op "tw"|"dw"|"flt", p, e] | [op "map", m, e] | [op "plus", l, r] | [op "join"|"toseq"|"fromseq", j, e]
   where p / m / j are *names* in fixed function tables (the Go harness holds the same tables).  A flat-map
   function maps an item to an expression (the iterator it returns is Construct of that expression; "nil" and the
   empty slice both mean "returns nil").

   I layer - the cursor state of every combinator exactly as coded in trait/seq/seq.go:
       Construct(e) = <<state | Nil, calls>>      eager positioning; Nil when empty
       Value(s)     = <<item, calls>>
       Next(s)      = <<ok, state', calls>>
     `calls` is the sequence of <<function name, argument>> made to the user functions (finer than anything the
     property promises: compared with the real code as drift only).
       slice : el shrinks (s.el = s.el[1:]); Next on the last element returns false and leaves el alone
       tw    : Next = underlying Next, then the predicate on the *new* current element; on failure f := nil
               (live = FALSE) with the underlying cursor already advanced
       dw    : no wrapper: skips eagerly and returns the underlying iterator itself
       flt   : positions eagerly on the first accepted element; Next loops
       map   : Value applies the function on every call, Next is the underlying one
       plus  : lhs until its Next fails, then Seq, rhs := rhs, nil and report true (rhs is non-nil = non-empty)
       join  : current inner iterator; when it is exhausted advance lhs, re-invoke the function, skip nil results
               (the embedded iterator is assigned before the nil test: after exhaustion it may be nil)
   P layer - list semantics: Sem(e) by take-while, drop-while, filter, map, concatenation, flat-map on sequences;
     ForEach visits that list in order and stops with the first error.

   Items are integers here.  PairIter supplies tables for <<key, value>> items through ExtP/ExtM/ExtJ (trait/pair
   is the same cursor design with Key() promoted from the embedded iterator). *)
EXTENDS Integers, Sequences, FiniteSets, TLC

CONSTANTS ExtP(_, _),   \* predicate table of an extending module: (name, item) -> BOOLEAN
          ExtM(_, _),   \* mapping table: (name, item) -> item
          ExtJ(_, _)    \* flat-map table: (name, item) -> expression
NoExt(f, it) == Assert(FALSE, <<"unknown function", f>>)

(* ------------------------------------------------------------------ function tables over integers *)
Preds == {"lt2", "even", "tt", "ff"}
P(p, x) == CASE p = "lt2" -> x < 2 [] p = "even" -> x % 2 = 0 [] p = "tt" -> TRUE [] p = "ff" -> FALSE
Maps == {"inc", "dbl"}
M(m, x) == CASE m = "inc" -> x + 1 [] m = "dbl" -> 2 * x
Joins == {"nil", "one", "two", "oddnil", "fev"}
ENil == [op |-> "nil"]
ESlice(xs) == [op |-> "slice", xs |-> xs]
J(j, x) == CASE j = "nil" -> ENil
             [] j = "one" -> [op |-> "from", x |-> x]
             [] j = "two" -> ESlice(<<x, x + 1>>)
             [] j = "oddnil" -> IF x % 2 = 0 THEN ESlice(<<x, x>>) ELSE ESlice(<<>>)
             [] j = "fev" -> [op |-> "flt", p |-> "even", e |-> ESlice(<<x, x + 1, x + 2>>)]

AppP(p, it) == IF p \in Preds THEN P(p, it) ELSE ExtP(p, it)
AppM(m, it) == IF m \in Maps THEN M(m, it) ELSE ExtM(m, it)
AppJ(j, it) == IF j \in Joins THEN J(j, it) ELSE ExtJ(j, it)

JoinOps == {"join", "toseq", "fromseq"}
\* flat-map with an expression-valued function: [op "joinx"|"toseqx"|"fromseqx", p, e, a, b] maps an item to the iterator
\* of expression a when predicate p holds for it and to that of b otherwise (built anew on every call), so that the inner
\* iterators are arbitrary combinator trees and nil / empty inners can stand at any position
JoinXOps == {"joinx", "toseqx", "fromseqx"}
FnExpr(x, j, it) == IF x THEN (IF AppP(j.p, it) THEN j.a ELSE j.b) ELSE AppJ(j, it)
FnName(x, j) == IF x THEN "joinx" ELSE j

(* ------------------------------------------------------------------ P: list semantics *)
\* (written without recursion along the list - TLC's evaluation stack does not survive a few hundred nested calls -
\*  concatenations are folded as a balanced tree)
RECURSIVE Sem(_), ConcatRange(_, _, _)
FirstFailing(p, s) == LET bad == {i \in 1..Len(s) : ~AppP(p, s[i])} IN
                      IF bad = {} THEN Len(s) + 1 ELSE CHOOSE i \in bad : \A k \in bad : i <= k
TakeWhileL(p, s) == SubSeq(s, 1, FirstFailing(p, s) - 1)
DropWhileL(p, s) == SubSeq(s, FirstFailing(p, s), Len(s))
FilterL(p, s) == SelectSeq(s, LAMBDA x : AppP(p, x))
MapL(m, s) == [i \in 1..Len(s) |-> AppM(m, s[i])]
ConcatRange(f, lo, hi) == IF lo > hi THEN <<>> ELSE IF lo = hi THEN f[lo]
                          ELSE LET mid == (lo + hi) \div 2 IN ConcatRange(f, lo, mid) \o ConcatRange(f, mid + 1, hi)
Concat(f) == ConcatRange(f, 1, Len(f))
FlatL(j, s) == Concat([i \in 1..Len(s) |-> Sem(AppJ(j, s[i]))])
FlatXL(e, s) == Concat([i \in 1..Len(s) |-> Sem(IF AppP(e.p, s[i]) THEN e.a ELSE e.b)])
Sem(e) == CASE e.op = "nil" -> <<>>
            [] e.op = "slice" -> e.xs
            [] e.op = "from" -> <<e.x>>
            [] e.op = "pfrom" -> <<e.kv>>
            [] e.op = "tw" -> TakeWhileL(e.p, Sem(e.e))
            [] e.op = "dw" -> DropWhileL(e.p, Sem(e.e))
            [] e.op = "flt" -> FilterL(e.p, Sem(e.e))
            [] e.op = "map" -> MapL(e.m, Sem(e.e))
            [] e.op = "plus" -> Sem(e.l) \o Sem(e.r)
            [] e.op \in JoinOps -> FlatL(e.j, Sem(e.e))
            [] e.op \in JoinXOps -> FlatXL(e, Sem(e.e))
\* ForEach with a callback that fails on its (k+1)-th call (k counted from 0): what is visited, is the error returned
ForEachL(list, k) == [visited |-> SubSeq(list, 1, IF k + 1 < Len(list) THEN k + 1 ELSE Len(list)), failed |-> k < Len(list)]

(* ------------------------------------------------------------------ I: cursor states as coded *)
Nil == [t |-> "nil"]
Call(f, it) == << <<f, it>> >>

RECURSIVE Construct(_), Value(_), Next(_), DropLoop(_, _, _), FilterLoop(_, _, _), JoinLoop(_, _, _, _),
          FilterNext(_, _, _), JoinNext(_, _, _, _)

Value(s) ==
  CASE s.t = "slice" -> <<Head(s.el), <<>>>>
    [] s.t = "elem" -> <<s.v, <<>>>>
    [] s.t \in {"tw", "flt", "plus"} -> Value(s.s)           \* promoted from the embedded iterator
    [] s.t = "join" -> Value(s.cur)
    [] s.t = "map" -> LET v == Value(s.s) IN <<AppM(s.m, v[1]), v[2] \o Call(s.m, v[1])>>

Next(s) ==
  CASE s.t = "slice" -> IF Len(s.el) = 1 THEN <<FALSE, s, <<>>>> ELSE <<TRUE, [s EXCEPT !.el = Tail(@)], <<>>>>
    [] s.t = "elem" -> <<FALSE, s, <<>>>>
    [] s.t = "tw" ->
         IF ~s.live THEN <<FALSE, s, <<>>>>
         ELSE LET n == Next(s.s) IN
              IF ~n[1] THEN <<FALSE, [s EXCEPT !.s = n[2]], n[3]>>
              ELSE LET v == Value(n[2])
                       c == n[3] \o v[2] \o Call(s.p, v[1])
                   IN IF AppP(s.p, v[1]) THEN <<TRUE, [s EXCEPT !.s = n[2]], c>>
                      ELSE <<FALSE, [s EXCEPT !.s = n[2], !.live = FALSE], c>>
    [] s.t = "flt" -> FilterNext(s, s.s, <<>>)
    [] s.t = "map" -> LET n == Next(s.s) IN <<n[1], [s EXCEPT !.s = n[2]], n[3]>>
    [] s.t = "plus" ->
         LET n == Next(s.s) IN
         IF ~n[1] /\ s.rhs # Nil THEN <<TRUE, [s EXCEPT !.s = s.rhs, !.rhs = Nil], n[3]>>
         ELSE <<n[1], [s EXCEPT !.s = n[2]], n[3]>>
    [] s.t = "join" ->
         LET n == Next(s.cur) IN
         IF n[1] THEN <<TRUE, [s EXCEPT !.cur = n[2]], n[3]>> ELSE JoinNext(s, s.lhs, n[2], n[3])

FilterNext(s, inner, c) ==
  LET n == Next(inner) IN
  IF ~n[1] THEN <<FALSE, [s EXCEPT !.s = n[2]], c \o n[3]>>
  ELSE LET v == Value(n[2])
           c2 == c \o n[3] \o v[2] \o Call(s.p, v[1])
       IN IF AppP(s.p, v[1]) THEN <<TRUE, [s EXCEPT !.s = n[2]], c2>> ELSE FilterNext(s, n[2], c2)

JoinNext(s, lhs, cur, c) ==
  LET n == Next(lhs) IN
  IF ~n[1] THEN <<FALSE, [s EXCEPT !.lhs = n[2], !.cur = cur], c \o n[3]>>
  ELSE LET v == Value(n[2])
           k == Construct(FnExpr(s.x, s.j, v[1]))
           c2 == c \o n[3] \o v[2] \o Call(FnName(s.x, s.j), v[1]) \o k[2]
       IN IF k[1] # Nil THEN <<TRUE, [s EXCEPT !.lhs = n[2], !.cur = k[1]], c2>>
          ELSE JoinNext(s, n[2], Nil, c2)          \* join.Seq = rhs(..) is assigned before it is tested: a nil result stays there

DropLoop(p, s, c) ==
  LET v == Value(s)
      c1 == c \o v[2] \o Call(p, v[1])
  IN IF ~AppP(p, v[1]) THEN <<s, c1>>
     ELSE LET n == Next(s) IN IF ~n[1] THEN <<Nil, c1 \o n[3]>> ELSE DropLoop(p, n[2], c1 \o n[3])

FilterLoop(p, s, c) ==
  LET v == Value(s)
      c1 == c \o v[2] \o Call(p, v[1])
  IN IF AppP(p, v[1]) THEN <<[t |-> "flt", s |-> s, p |-> p], c1>>
     ELSE LET n == Next(s) IN IF ~n[1] THEN <<Nil, c1 \o n[3]>> ELSE FilterLoop(p, n[2], c1 \o n[3])

JoinLoop(x, j, lhs, c) ==
  LET v == Value(lhs)
      k == Construct(FnExpr(x, j, v[1]))
      c1 == c \o v[2] \o Call(FnName(x, j), v[1]) \o k[2]
  IN IF k[1] # Nil THEN <<[t |-> "join", x |-> x, cur |-> k[1], lhs |-> lhs, j |-> j], c1>>
     ELSE LET n == Next(lhs) IN IF ~n[1] THEN <<Nil, c1 \o n[3]>> ELSE JoinLoop(x, j, n[2], c1 \o n[3])

Construct(e) ==
  CASE e.op = "nil" -> <<Nil, <<>>>>
    [] e.op = "slice" -> <<IF Len(e.xs) = 0 THEN Nil ELSE [t |-> "slice", el |-> e.xs, src |-> e.xs], <<>>>>
    [] e.op = "from" -> <<[t |-> "elem", v |-> e.x], <<>>>>
    [] e.op = "pfrom" -> <<[t |-> "elem", v |-> e.kv], <<>>>>      \* pair.From(k, v): the item is <<k, v>>
    [] e.op = "tw" ->
         LET k == Construct(e.e) IN
         IF k[1] = Nil THEN k
         ELSE LET v == Value(k[1])
                  c == k[2] \o v[2] \o Call(e.p, v[1])
              IN IF AppP(e.p, v[1]) THEN <<[t |-> "tw", s |-> k[1], p |-> e.p, live |-> TRUE], c>> ELSE <<Nil, c>>
    [] e.op = "dw" -> LET k == Construct(e.e) IN IF k[1] = Nil THEN k ELSE DropLoop(e.p, k[1], k[2])
    [] e.op = "flt" -> LET k == Construct(e.e) IN IF k[1] = Nil THEN k ELSE FilterLoop(e.p, k[1], k[2])
    [] e.op = "map" -> LET k == Construct(e.e) IN IF k[1] = Nil THEN k ELSE <<[t |-> "map", s |-> k[1], m |-> e.m], k[2]>>
    [] e.op = "plus" ->
         LET l == Construct(e.l)
             r == Construct(e.r)
             c == l[2] \o r[2]
         IN IF l[1] = Nil THEN <<r[1], c>> ELSE IF r[1] = Nil THEN <<l[1], c>> ELSE <<[t |-> "plus", s |-> l[1], rhs |-> r[1]], c>>
    [] e.op \in JoinOps -> LET k == Construct(e.e) IN IF k[1] = Nil THEN k ELSE JoinLoop(FALSE, e.j, k[1], k[2])
    [] e.op \in JoinXOps -> LET k == Construct(e.e) IN
                            IF k[1] = Nil THEN k ELSE JoinLoop(TRUE, [p |-> e.p, a |-> e.a, b |-> e.b], k[1], k[2])

(* the documented loop `for has := s != nil; has; has = s.Next() { s.Value() }` as one value:
   steps[i] = [v: Value(), ok: the following Next(), vc / nc: the user-function calls made by each] *)
RECURSIVE DrainFrom(_), FinalOf(_)
DrainFrom(s) == LET v == Value(s)
                    n == Next(s)
                    step == [v |-> v[1], ok |-> n[1], vc |-> v[2], nc |-> n[3]]
                IN IF n[1] THEN <<step>> \o DrainFrom(n[2]) ELSE <<step>>
FinalOf(s) == LET n == Next(s) IN IF n[1] THEN FinalOf(n[2]) ELSE n[2]
\* what Value() of the exhausted iterator answers (nobody promises anything about it): [panic |-> FALSE, v |-> item] -
\* e.g. the element a takeWhile rejected - or [panic |-> TRUE, v |-> 0] when it reaches a join whose embedded iterator
\* is the nil left by the last function result
RECURSIVE Dangling(_)
Dangling(s) == CASE s.t = "nil" -> TRUE
                 [] s.t \in {"slice", "elem"} -> FALSE
                 [] s.t \in {"tw", "flt", "map", "plus"} -> Dangling(s.s)
                 [] s.t = "join" -> Dangling(s.cur)          \* (Nil itself: s.t = "nil")
PostOf(f) == IF Dangling(f) THEN [panic |-> TRUE, v |-> 0] ELSE [panic |-> FALSE, v |-> Value(f)[1]]
NoPost == [panic |-> FALSE, v |-> 0]
SamePost(a, b) == a.panic = b.panic /\ (a.panic \/ a.v = b.v)
\* polling the exhausted iterator once more (an environment move nobody is entitled to: the documented loop stops at
\* the first false, and no combinator polls an exhausted operand again): "false" | "true" | "panic".  As coded, Next() on
\* an exhausted join dereferences the nil its last function result left behind; everything else stays false.
RECURSIVE NextHitsNil(_), FilterHitsNil(_, _), JoinHitsNil(_, _)
NextHitsNil(s) ==
  CASE s.t = "nil" -> TRUE
    [] s.t \in {"slice", "elem"} -> FALSE
    [] s.t = "tw" -> s.live /\ NextHitsNil(s.s)
    [] s.t = "flt" -> FilterHitsNil(s, s.s)
    [] s.t \in {"map", "plus"} -> NextHitsNil(s.s)
    [] s.t = "join" -> \/ NextHitsNil(s.cur)
                       \/ (~Next(s.cur)[1] /\ JoinHitsNil(s, s.lhs))
FilterHitsNil(s, inner) == \/ NextHitsNil(inner)
                           \/ LET n == Next(inner) IN n[1] /\ ~AppP(s.p, Value(n[2])[1]) /\ FilterHitsNil(s, n[2])
JoinHitsNil(s, lhs) == \/ NextHitsNil(lhs)
                       \/ LET n == Next(lhs) IN
                          n[1] /\ Construct(FnExpr(s.x, s.j, Value(n[2])[1]))[1] = Nil /\ JoinHitsNil(s, n[2])
RepollOf(f) == IF NextHitsNil(f) THEN "panic" ELSE IF Next(f)[1] THEN "true" ELSE "false"
Run(e) == LET k == Construct(e) IN
          IF k[1] = Nil THEN [nil |-> TRUE, cc |-> k[2], steps |-> <<>>, post |-> NoPost, repoll |-> "none"]
          ELSE LET f == FinalOf(k[1]) IN
               [nil |-> FALSE, cc |-> k[2], steps |-> DrainFrom(k[1]), post |-> PostOf(f), repoll |-> RepollOf(f)]
Values(steps) == [i \in 1..Len(steps) |-> steps[i].v]

\* ForEach as coded (the same loop, leaving at the first error): k = index of the failing callback invocation
RECURSIVE ForEachFrom(_, _, _)
ForEachFrom(s, k, i) == LET v == Value(s)[1] IN
                        IF i = k THEN [visited |-> <<v>>, failed |-> TRUE]
                        ELSE LET n == Next(s) IN
                             IF ~n[1] THEN [visited |-> <<v>>, failed |-> FALSE]
                             ELSE LET r == ForEachFrom(n[2], k, i + 1) IN [visited |-> <<v>> \o r.visited, failed |-> r.failed]
ForEachI(e, k) == LET s == Construct(e)[1] IN IF s = Nil THEN [visited |-> <<>>, failed |-> FALSE] ELSE ForEachFrom(s, k, 0)

\* every slice cursor inside a state is a non-empty suffix of the source slice it was made from (nothing writes a slice)
RECURSIVE SliceViewsOK(_)
IsSuffix(a, b) == Len(a) <= Len(b) /\ a = SubSeq(b, Len(b) - Len(a) + 1, Len(b))
SliceViewsOK(s) ==
  CASE s.t = "nil" -> TRUE
    [] s.t = "slice" -> Len(s.el) >= 1 /\ IsSuffix(s.el, s.src)
    [] s.t = "elem" -> TRUE
    [] s.t \in {"tw", "flt", "map"} -> SliceViewsOK(s.s)
    [] s.t = "plus" -> SliceViewsOK(s.s) /\ SliceViewsOK(s.rhs)
    [] s.t = "join" -> SliceViewsOK(s.cur) /\ SliceViewsOK(s.lhs)

(* ------------------------------------------------------------------ enumeration of expressions *)
Leaves(S, X) == {ESlice(s) : s \in S} \cup {[op |-> "from", x |-> v] : v \in X}
Unary(E, PS, MS, JS) == {[op |-> o, p |-> p, e |-> e] : o \in {"tw", "dw", "flt"}, p \in PS, e \in E}
                        \cup {[op |-> "map", m |-> m, e |-> e] : m \in MS, e \in E}
                        \cup {[op |-> "join", j |-> j, e |-> e] : j \in JS, e \in E}
Binary(A, B) == {[op |-> "plus", l |-> l, r |-> r] : l \in A, r \in B}

SlicesS == {<<>>, <<1>>, <<1, 2>>, <<2, 1, 3>>}
SlicesW == SlicesS \cup {<<2, 2>>, <<1, 3, 2, 4>>}
SeqU(E) == Unary(E, Preds, Maps, Joins)
SeqD0(S) == Leaves(S, {1, 2})
SeqD1(S) == SeqD0(S) \cup SeqU(SeqD0(S)) \cup Binary(SeqD0(S), SeqD0(S))
SeqD2(S) == SeqD0(S) \cup SeqU(SeqD1(S)) \cup Binary(SeqD1(S), SeqD1(S))
\* depth 3, one side of a Plus being a leaf
SeqD3(S) == SeqU(SeqD2(S)) \cup Binary(SeqD2(S), SeqD0(S)) \cup Binary(SeqD0(S), SeqD2(S))
(* Universes are explored in moves so that TLC's workers share the work: a tagged base expression <<"pick", e>> is
   picked (Init), then wrapped by an action: <<"pick", e>> -> <<"seq", e'>> (final, e' gets built and drained), for
   shape "d3" through an intermediate <<"pick2", e'>>.
   shape "d2": all expressions of depth <= 2 (SeqD2); shape "d3": the wrappings of every SeqD2 expression (SeqD3: one
   more unary combinator, or a Plus with a leaf on either side).
   (Parameterless constant definitions are evaluated by TLC at start-up, hence the selection by name.) *)
SliceSet(w) == IF w = "wide" THEN SlicesW ELSE SlicesS
Tag(t, E) == {<<t, e>> : e \in E}

(* Chains: op_n(... op_2(op_1(leaf)) ...) where every op is a unary combinator or a Plus whose other operand (on either
   side) is a leaf, over a reduced alphabet: each combinator wraps (or, like DropWhile and Plus with a nil side, hands
   back) an iterator whose inner combinators may already have changed their mode - plus switched to rhs, takeWhile
   finished, dropWhile / filter skipped ahead, join on a later inner sequence.  Shape "c3": every chain of depth 3,
   "c4": depth 4.  A chain under construction is tagged "c" \o kind \o rounds-left (kind "s" here; PairIter adds
   "p" = pair kind and "m" = seq kind with a pair node inside); the shorter chains are part of shape "d2". *)
ChainSlices == {<<>>, <<1>>, <<2, 1, 3>>}
ChainLeaves == Leaves(ChainSlices, {2})
ChainU(E) == Unary(E, {"lt2", "even", "tt"}, {"inc"}, {"oddnil", "two"})    \* lt2 holds on all of <<1>>, even on a prefix of <<2, 1, 3>>
ChainSteps(e) == ChainU({e}) \cup Binary({e}, ChainLeaves) \cup Binary(ChainLeaves, {e})
ChainTag(kind, n) == "c" \o kind \o ToString(n)
ChainTags == {ChainTag(k, n) : k \in {"s", "p", "m"}, n \in 1..4}
ChainKind(tag) == CHOOSE k \in {"s", "p", "m"} : \E n \in 1..4 : tag = ChainTag(k, n)
ChainLeft(tag) == CHOOSE n \in 1..4 : \E k \in {"s", "p", "m"} : tag = ChainTag(k, n)
ChainBase(shape) == Tag(ChainTag("s", IF shape = "c3" THEN 3 ELSE 4), ChainLeaves)
ChainWraps(tag, e) == Tag(IF ChainLeft(tag) = 1 THEN "seq" ELSE ChainTag("s", ChainLeft(tag) - 1), ChainSteps(e))
(* Shape "jx": Join with an expression-valued function.  The outer sequence runs over every slice of 1s and 2s of length
   <= 3; 1 maps to an inner combinator tree over the non-monotone slice JxNM (a predicate that failed holds again
   further on: an inner iterator that stopped early has not used up its source), 2 maps to nil (or, for the inner trees
   of depth <= 1, also to one element) - so nil inners stand before, between and after the others in every pattern.  Inner trees: chains of depth <= 2 over JxNM;
   the joins with an inner tree of depth <= 1 are also wrapped by one more chain step. *)
RECURSIVE SeqsUpTo(_, _)
SeqsUpTo(X, n) == IF n = 0 THEN {<<>>} ELSE LET T == SeqsUpTo(X, n - 1) IN T \cup {Append(t, x) : t \in T, x \in X}
JxNM == <<0, 3, 0, 1>>
JxOuter == {ESlice(xs) : xs \in SeqsUpTo({1, 2}, 3)}
JxInner1 == {ESlice(JxNM)} \cup ChainSteps(ESlice(JxNM))
JxMake(op, p, outer, a, B) == {[op |-> op, p |-> p, e |-> o, a |-> a, b |-> b] : o \in outer, b \in B}
JxBase == Tag("jx1", JxInner1)
JxWraps(tag, e) ==
  LET one == [op |-> "from", x |-> 2] IN
  CASE tag = "jx1" -> Tag("jxa", {e}) \cup Tag("jxb", ChainSteps(e))                         \* inner tree of depth <= 1 / depth 2
    [] tag = "jxa" -> Tag("seq", JxMake("joinx", "lt2", JxOuter, e, {one})) \cup Tag("jxw", JxMake("joinx", "lt2", JxOuter, e, {ENil}))
    [] tag = "jxb" -> Tag("seq", JxMake("joinx", "lt2", JxOuter, e, {ENil}))
    [] tag = "jxw" -> Tag("seq", {e} \cup ChainSteps(e))

SeqBase(shape, w) == IF shape \in {"c3", "c4"} THEN ChainBase(shape) ELSE IF shape = "jx" THEN JxBase
                     ELSE Tag("pick", IF shape = "d1" THEN SeqD0(SliceSet(w)) ELSE SeqD1(SliceSet(w)))
SeqWraps(tag, e, shape, w) ==
  LET D0 == SeqD0(SliceSet(w))
      full == {e} \cup SeqU({e}) \cup Binary({e}, IF shape = "d1" THEN D0 ELSE SeqD1(SliceSet(w)))    \* base D(n) -> all of D(n+1)
  IN CASE tag \in ChainTags -> ChainWraps(tag, e)
       [] tag \in {"jx1", "jxa", "jxb", "jxw"} -> JxWraps(tag, e)
       [] tag = "pick" /\ shape \in {"d1", "d2"} -> Tag("seq", full)
       [] tag = "pick" /\ shape = "d3" -> Tag("pick2", full)
       [] tag = "pick2" -> Tag("seq", SeqU({e}) \cup Binary({e}, D0) \cup Binary(D0, {e}))
====
