---- MODULE PairIter ----
(* trait/pair: the key-value iterator combinators.  pair.go repeats the cursor design of seq.go (takeWhile with f = nil
   after a failure, eager DropWhile / Filter / Join, plus swapping to rhs) over items <<key, value>>: Key() is promoted
   from the embedded iterator everywhere, Value() is overridden by Map only, predicates and join functions are handed
   (Key(), Value()) of the same element.  The model therefore reuses the I layer of Iter with the function tables below;
   ToSeq and FromSeq are Join-shaped nodes whose function crosses between the two kinds of items:
       [op "toseq", j, e]    e of pair kind, j : <<k, v>> -> expression of seq kind
       [op "fromseq", j, e]  e of seq kind,  j : x -> expression of pair kind
       [op "pfrom", kv]      kv = <<k, v>>: pair.From(k, v)
   P layer: the list semantics of Iter over pairs; Map changes values but never keys (PM returns <<k, f(k, v)>>).
   Keys differ from values (key = 10 + value on the base items, and every function is asymmetric in (k, v)) so that a
   swapped argument or a Key() that belongs to another element changes the drained list. *)
EXTENDS Iter

PPreds == {"klt12", "veven", "kgtv", "pff"}
PP(p, k, v) == CASE p = "klt12" -> k < 12 [] p = "veven" -> v % 2 = 0 [] p = "kgtv" -> k > v [] p = "pff" -> FALSE
PMaps == {"kmv", "vdbl"}
PMv(m, k, v) == CASE m = "kmv" -> k - v [] m = "vdbl" -> 2 * v
EPair(k, v) == [op |-> "pfrom", kv |-> <<k, v>>]
PJoins == {"pnil", "same", "swap", "dup", "voddnil"}            \* pair.Join:    (k, v) -> pair expression
PJ(j, k, v) == CASE j = "pnil" -> ENil
                 [] j = "same" -> EPair(k, v)
                 [] j = "swap" -> EPair(v, k)
                 [] j = "dup" -> [op |-> "plus", l |-> EPair(k, v), r |-> EPair(k + 1, v + 2)]
                 [] j = "voddnil" -> IF v % 2 = 0 THEN EPair(k, v) ELSE ENil
TJoins == {"tnil", "tvals", "tkv", "tkodd"}                     \* pair.ToSeq:   (k, v) -> seq expression
TJ(j, k, v) == CASE j = "tnil" -> ENil
                 [] j = "tvals" -> [op |-> "from", x |-> v]
                 [] j = "tkv" -> ESlice(<<k, v>>)
                 [] j = "tkodd" -> IF k % 2 = 0 THEN ESlice(<<>>) ELSE ESlice(<<k - v>>)
FJoins == {"fnil", "kv", "kv2", "kvev"}                         \* pair.FromSeq: x -> pair expression
FJ(j, x) == CASE j = "fnil" -> ENil
              [] j = "kv" -> EPair(10 + x, x)
              [] j = "kv2" -> [op |-> "plus", l |-> EPair(10 + x, x), r |-> EPair(20 + x, x + 1)]
              [] j = "kvev" -> IF x % 2 = 0 THEN EPair(10 + x, x) ELSE ENil

\* the tables handed to Iter (bound in the cfg: ExtP <- PairP, ExtM <- PairM, ExtJ <- PairJ)
PairP(p, it) == PP(p, it[1], it[2])
PairM(m, it) == <<it[1], PMv(m, it[1], it[2])>>
PairJ(j, it) == IF j \in PJoins THEN PJ(j, it[1], it[2]) ELSE IF j \in TJoins THEN TJ(j, it[1], it[2]) ELSE FJ(j, it)

\* P: what the statement says about keys
Keys(l) == [i \in 1..Len(l) |-> l[i][1]]
MapKeepsKeys(e) == e.op = "map" => Keys(Sem(e)) = Keys(Sem(e.e))

(* ------------------------------------------------------------------ enumeration: two kinds of expressions *)
PairItems == {<<11, 1>>, <<12, 2>>}
PairU(E) == {[op |-> o, p |-> p, e |-> e] : o \in {"tw", "dw", "flt"}, p \in PPreds, e \in E}
            \cup {[op |-> "map", m |-> m, e |-> e] : m \in PMaps, e \in E}
            \cup {[op |-> "join", j |-> j, e |-> e] : j \in PJoins, e \in E}
ToSeqU(E) == {[op |-> "toseq", j |-> j, e |-> e] : j \in TJoins, e \in E}
FromSeqU(E) == {[op |-> "fromseq", j |-> j, e |-> e] : j \in FJoins, e \in E}
\* seq-kind wrappers are Iter's (C14 explores them with the full tables): a reduced family here
SeqUr(E) == Unary(E, {"lt2", "even"}, {"inc"}, {"two", "oddnil"})

\* depth 0: leaves; the canonical key-value lists (key = 10 + value) count as leaves of pair kind
S0(S) == SeqD0(S)
Q0(S) == {EPair(it[1], it[2]) : it \in PairItems} \cup {[op |-> "fromseq", j |-> "kv", e |-> ESlice(s)] : s \in S}
T1(S) == ToSeqU(Q0(S))                                                     \* seq kind with a pair inside
S1(S) == S0(S) \cup SeqUr(S0(S)) \cup Binary(S0(S), S0(S)) \cup T1(S)
Q1(S) == Q0(S) \cup PairU(Q0(S)) \cup Binary(Q0(S), Q0(S)) \cup FromSeqU(S0(S))

(* base expressions are tagged <<"pick-pair" | "pick-mix" | "pick-seq", e>>, wrapped ones <<"pair" | "seq", e>> (final),
   for shape "d3" through intermediate <<"pick2-pair" | "pick2-mix", e>>.
   shape "d2": pair kind Q2 = Q0 \cup PairU(Q1) \cup Plus(Q1, Q1) \cup FromSeq(S1); seq kind T2 = every expression of
               depth <= 2 over S1 / Q1 that contains a pair node.
   shape "d3": Q2 and T2 wrapped once more (one side of an outermost Plus being a leaf). *)
(* Chains over both kinds (see Iter): the spine may cross between the kinds through ToSeq / FromSeq; a Plus on the
   spine has a leaf of its own kind on the other side.  Chains that stay within plain seq.Seq ("s") are C14's: they are
   extended (FromSeq can still lift them) but not drained here. *)
PChainLeaves == {EPair(12, 2)} \cup {[op |-> "fromseq", j |-> "kv", e |-> ESlice(s)] : s \in ChainSlices}
PChainU(E) == {[op |-> o, p |-> p, e |-> e] : o \in {"tw", "dw", "flt"}, p \in {"klt12", "veven", "kgtv"}, e \in E}
              \cup {[op |-> "map", m |-> "kmv", e |-> e] : e \in E}
              \cup {[op |-> "join", j |-> j, e |-> e] : j \in {"voddnil", "dup"}, e \in E}
PChainToSeq(E) == {[op |-> "toseq", j |-> j, e |-> e] : j \in {"tkv", "tkodd"}, e \in E}
PChainFromSeq(E) == {[op |-> "fromseq", j |-> j, e |-> e] : j \in {"kv2", "kvev"}, e \in E}
PChainBase(shape) == LET n == IF shape = "c3" THEN 3 ELSE 4 IN Tag(ChainTag("p", n), PChainLeaves) \cup Tag(ChainTag("s", n), ChainLeaves)
PChainWraps(tag, e) ==
  LET k == ChainKind(tag)
      n == ChainLeft(tag)
      to(kind) == IF n > 1 THEN ChainTag(kind, n - 1) ELSE IF kind = "p" THEN "pair" ELSE "seq"
  IN IF k = "p"
     THEN Tag(to("p"), PChainU({e}) \cup Binary({e}, PChainLeaves) \cup Binary(PChainLeaves, {e})) \cup Tag(to("m"), PChainToSeq({e}))
     ELSE (IF k = "s" /\ n = 1 THEN {} ELSE Tag(to(k), ChainSteps(e))) \cup Tag(to("p"), PChainFromSeq({e}))

(* Shape "jx" (see Iter): pair.Join, pair.ToSeq and pair.FromSeq with an expression-valued function.  Outer items are
   (11, 1) and (12, 2) in every pattern of length <= 3 (selector klt12: the first kind maps to the inner tree, the other
   to nil or one element); inner trees run over the non-monotone key-value list of JxNM: pair trees of depth <= 2
   for Join, of depth <= 1 for FromSeq; seq trees of depth <= 1 for ToSeq (deeper seq inners are C14's). *)
PJxNM == [op |-> "fromseq", j |-> "kv", e |-> ESlice(JxNM)]
PJxOuter == {[op |-> "fromseq", j |-> "kv", e |-> o] : o \in JxOuter}
PSteps(e) == PChainU({e}) \cup Binary({e}, PChainLeaves) \cup Binary(PChainLeaves, {e})
PJxBase == Tag("pjx1", {PJxNM} \cup PSteps(PJxNM)) \cup Tag("sjx1", JxInner1)
PJxWraps(tag, e) ==
  LET PB == {ENil, EPair(12, 2)}
      SB == {ENil, [op |-> "from", x |-> 2]}
  IN CASE tag = "pjx1" -> Tag("pjxa", {e}) \cup Tag("pjxb", PSteps(e))
       [] tag = "pjxa" -> Tag("pair", JxMake("joinx", "klt12", PJxOuter, e, PB) \cup JxMake("fromseqx", "lt2", JxOuter, e, PB))
       [] tag = "pjxb" -> Tag("pair", JxMake("joinx", "klt12", PJxOuter, e, PB))
       [] tag = "sjx1" -> Tag("seq", JxMake("toseqx", "klt12", PJxOuter, e, SB))

PairBase(shape, w) ==
  LET S == SliceSet(w) IN
  IF shape \in {"c3", "c4"} THEN PChainBase(shape)
  ELSE IF shape = "jx" THEN PJxBase
  ELSE IF shape = "d1" THEN Tag("pick-pair", Q0(S)) \cup Tag("pick-seq", S0(S))
  ELSE Tag("pick-pair", Q1(S)) \cup Tag("pick-mix", T1(S)) \cup Tag("pick-seq", S1(S) \ T1(S))
PairWraps(tag, e, shape, w) ==
  LET S == SliceSet(w)
      QP == IF shape = "d1" THEN Q0(S) ELSE Q1(S)       \* Plus partners of the first wrapping (= the base sets)
      SP == IF shape = "d1" THEN S0(S) ELSE S1(S)
      pt == IF shape = "d3" THEN "pick2-pair" ELSE "pair"
      st == IF shape = "d3" THEN "pick2-mix" ELSE "seq"
  IN CASE tag \in ChainTags -> PChainWraps(tag, e)
       [] tag \in {"pjx1", "pjxa", "pjxb", "sjx1"} -> PJxWraps(tag, e)
       [] tag = "pick-pair" -> Tag(pt, {e} \cup PairU({e}) \cup Binary({e}, QP)) \cup Tag(st, ToSeqU({e}))
       [] tag = "pick-mix" -> Tag(st, {e} \cup SeqUr({e}) \cup Binary({e}, SP) \cup Binary(SP, {e})) \cup Tag(pt, FromSeqU({e}))
       [] tag = "pick-seq" -> Tag(pt, FromSeqU({e}))
       [] tag = "pick2-pair" -> Tag("pair", PairU({e}) \cup Binary({e}, Q0(S)) \cup Binary(Q0(S), {e})) \cup Tag("seq", ToSeqU({e}))
       [] tag = "pick2-mix" -> Tag("seq", SeqUr({e}) \cup Binary({e}, S0(S)) \cup Binary(S0(S), {e})) \cup Tag("pair", FromSeqU({e}))
====
