---- MODULE AlgebraTrace ----
(* Validation of recorded calls of the real instances (impl -> spec), batched: each record is one experiment
     [inst, e, inner (empty of a nested inner monoid, else 0), a, b, res, empty (monoid constructors only), calls |-> <<[which, args, res], ...>>]
   with values in the encoding of Algebra.tla (int: table index, str: byte codes, num: plain).
     P   Result     res is the promised result (built-in ==, <; base on the projected values in order; op(a, b))
         Empty      Empty() of a constructed monoid is the given element
         Delegated  the result is what the wrapped function / base / operation returned on the arguments in order
     I   the inner call log is followed line by line against ExpCalls; the first line that differs is printed as
         DRIFT (e.g. projections evaluated in another order, a base called twice) - never a violation. *)
EXTENDS Algebra, Json, IOUtils

Batch == JsonDeserialize(IOEnv.TRACE_FILE)
Traces == Batch.traces
VARIABLES ti
Init == ti \in 1..Len(Traces)
Next == UNCHANGED ti

T == Traces[ti]
d == InstTab[T.inst]
Failing ==
  (IF T.res = ExpRes(d, T.a, T.b) THEN {} ELSE {"Result"})
  \cup (IF d.cls = "monoid" /\ T.empty # T.e THEN {"Empty"} ELSE {})
  \cup (IF Delegated(d, T.a, T.b, T.res, T.calls) THEN {} ELSE {"Delegated"})
  \cup (IF T.inst \in Nested /\ T.inner = T.e THEN {"HARNESS"} ELSE {})     \* the inner monoid must have another empty
FirstDiff == LET exp == ExpCalls(d, T.a, T.b)
                 n == IF Len(exp) < Len(T.calls) THEN Len(exp) ELSE Len(T.calls)
                 bad == {j \in 1..n : exp[j] # T.calls[j]}
             IN IF bad # {} THEN CHOOSE j \in bad : \A q \in bad : j <= q
                ELSE IF Len(exp) # Len(T.calls) THEN n + 1 ELSE 0
\* one line per record (a lost line is noticed: the orchestrator counts them): failing P predicates, promised result,
\* first inner-call line the I layer cannot follow (0: none)
Judge == PrintT(ToJson([t |-> "JUDGED", ti |-> ti, preds |-> Failing, want |-> ExpRes(d, T.a, T.b), drift |-> FirstDiff]))
====
