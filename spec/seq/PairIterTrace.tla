---- MODULE PairIterTrace ----
(* IterTrace with the function tables of PairIter (cfg: ExtP <- PairP, ExtM <- PairM, ExtJ <- PairJ). *)
EXTENDS PairIter, IterTrace
====
