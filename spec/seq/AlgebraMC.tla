---- MODULE AlgebraMC ----
(* Exhaustive model + generator for C17.  One state per experiment x = [inst, e, a, b] (instance, given
   empty element for the monoid constructors, the two arguments) over the whole domain of the instance.
   Invariants: the laws of Eq / Ord / the concatenation monoid on the pair (a, b) with every third element c;
   Emit prints the promised result of every experiment (spec -> impl). *)
EXTENDS Algebra, Json
CONSTANTS StrN,        \* how many entries of FullStrTab form the string domain
          NumTop,      \* the num domain is -NumTop..NumTop
          EmptyN       \* the monoid constructors get the first EmptyN elements of the domain as `empty`
VARIABLES x

Ints == 1..NInt
Strs == {FullStrTab[i] : i \in 1..StrN}
Nums == (0 - NumTop)..NumTop
DomOf(dom) == CASE dom = "int" -> Ints [] dom = "str" -> Strs [] dom = "num" -> Nums
Empties(dom) == IF dom = "str" THEN {FullStrTab[i] : i \in 1..EmptyN} ELSE {i - 2 : i \in 1..EmptyN}

\* one initial state per experiment (nested quantifiers: TLC enumerates them without building one large set)
Init == \E n \in Insts :
          LET dm == InstTab[n].dom
              es == IF InstTab[n].cls = "monoid" THEN Empties(dm) ELSE {0} IN
          \E e \in es, a \in DomOf(dm), b \in DomOf(dm) :
             x = [inst |-> n, e |-> e, inner |-> IF n \in Nested THEN InnerEmpty(dm, e) ELSE 0, a |-> a, b |-> b]
Next == UNCHANGED x
Spec == Init /\ [][Next]_x

d == InstTab[x.inst]
EqIsEquivalence == x.inst \in {"eq.Int", "eq.String"} => EqLaws(d.dom, DomOf(d.dom), x.a, x.b)
OrdIsTotalOrder == x.inst \in {"ord.Int", "ord.String"} => OrdLaws(d.dom, DomOf(d.dom), x.a, x.b)
ConcatIsMonoid == x.inst = "semigroup.From/concat" => ConcatLaws(DomOf("str"), x.a, x.b)
\* the wrapped functions are non-symmetric: a swap of the arguments is visible in the result (for concatenation:
\* whenever neither argument is a prefix of the other)
IsPrefix(s, t) == Len(s) <= Len(t) /\ SubSeq(t, 1, Len(s)) = s
SwapVisible == /\ d.logged /\ d.cls # "contramap" /\ x.a # x.b
               /\ d.base \notin {"const", "true", "false"} /\ ~(d.base = "diff" /\ d.dom = "str")
               /\ (d.op = "concat" => ~IsPrefix(x.a, x.b) /\ ~IsPrefix(x.b, x.a))
               => ExpRes(d, x.a, x.b) # ExpRes(d, x.b, x.a)
\* the nested constructors get an inner monoid whose empty element differs from the given one; flip and rot do not commute
InnerDiffers == x.inst \in Nested => x.inner # x.e
ProjectionsDoNotCommute == \E v \in Ints : Proj("flip", Proj("rot", v)) # Proj("rot", Proj("flip", v))
RotIsPermutation == {Proj("rot", v) : v \in Ints} = Ints
TableDistinct == Cardinality({FullStrTab[i] : i \in 1..Len(FullStrTab)}) = Len(FullStrTab)

Emit == PrintT(ToJson([t |-> "case", inst |-> x.inst, e |-> x.e, inner |-> x.inner, a |-> x.a, b |-> x.b, want |-> ExpRes(d, x.a, x.b)]))
Dom == PrintT(ToJson([t |-> "dom", nint |-> NInt, strtab |-> FullStrTab, strn |-> StrN]))
ASSUME Dom
====
