---- MODULE Algebra ----
(* pure/eq, pure/ord, pure/semigroup, pure/monoid - the built-in instances and the combinators (C17).

   Values.  Integers of the "int" domain are *indices* 1..NInt into an ascending table of boundary values kept by
   the Go harness (MinInt64, MinInt64+1, -1, 0, 1, MaxInt32+1, MaxInt64-1, MaxInt64): index order = value order,
   index equality = value equality, which is all that Eq / Ord can observe.  Strings are sequences of byte
   codes (Go compares strings bytewise); the table below holds the empty string, strings that are prefixes of
   each other, the 0x7f/0x80 neighbours, multi-byte UTF-8 and invalid UTF-8.  The "num" domain is small plain
   integers (operands of the non-commutative operation `sub`, results of the projection `len`).

   P layer: EqM / CmpM are the built-in == and < as the Go specification defines them; the laws (equivalence;
   total, antisymmetric, transitive order that agrees with Eq) are predicates over pairs and triples of a
   domain; ExpRes is the result the statement promises for every instance built by the harness; Delegated is
   "the instance returned what the wrapped function returned on the arguments in order".
   I layer: ExpCalls, the exact sequence of inner calls (projection of a, projection of b, base) the code makes. *)
EXTENDS Integers, Sequences, FiniteSets, TLC

NInt == 8
FullStrTab == <<
  <<>>, <<97>>, <<97, 98>>, <<97, 98, 99>>, <<98>>, <<97, 127>>, <<97, 128>>, <<127>>, <<128>>,
  <<195, 169>>, <<101>>, <<195, 169, 97>>, <<228, 184, 150>>, <<255>>, <<65>>, <<97, 0>>, <<0>>,
  <<97, 98, 99, 100>>, <<98, 97>>, <<195>>, <<195, 168>>, <<240, 159, 152, 128>>, <<239, 191, 189>>, <<0, 0>>,
  <<32>>, <<97, 32>>, <<65, 97>>, <<255, 255>>, <<127, 128>>, <<128, 127>> >>
QuickStrN == 17

(* ------------------------------------------------------------------ the built-in comparison (Go: ==, <, >) *)
RECURSIVE LessStr(_, _)
\* bytewise lexicographic "<" on byte sequences; a proper prefix is smaller
LessStr(s, t) == IF t = <<>> THEN FALSE
                 ELSE IF s = <<>> THEN TRUE
                 ELSE IF Head(s) # Head(t) THEN Head(s) < Head(t)
                 ELSE LessStr(Tail(s), Tail(t))
Less(dom, a, b) == IF dom = "str" THEN LessStr(a, b) ELSE a < b
EqM(dom, a, b) == a = b
\* ord[T].Compare: LT when a < b, GT when a > b, else EQ   (LT = -1, EQ = 0, GT = 1)
CmpM(dom, a, b) == IF Less(dom, a, b) THEN -1 ELSE IF Less(dom, b, a) THEN 1 ELSE 0

(* ------------------------------------------------------------------ P: the laws, on a pair (a, b) and every c of D *)
EqLaws(dom, D, a, b) ==
  /\ EqM(dom, a, a)
  /\ EqM(dom, a, b) = EqM(dom, b, a)
  /\ \A c \in D : EqM(dom, a, b) /\ EqM(dom, b, c) => EqM(dom, a, c)
OrdLaws(dom, D, a, b) ==
  /\ CmpM(dom, a, b) \in {-1, 0, 1}
  /\ CmpM(dom, a, b) = 0 - CmpM(dom, b, a)                                    \* total: LT one way iff GT the other way
  /\ (CmpM(dom, a, b) = 0) = EqM(dom, a, b)                                   \* antisymmetric, agrees with Eq on EQ
  /\ CmpM(dom, a, a) = 0
  /\ \A c \in D : CmpM(dom, a, b) <= 0 /\ CmpM(dom, b, c) <= 0 => CmpM(dom, a, c) <= 0          \* transitive
  /\ \A c \in D : CmpM(dom, a, b) = -1 /\ CmpM(dom, b, c) <= 0 => CmpM(dom, a, c) = -1
\* the concatenation monoid used here and by C19's Fold is a lawful monoid (sub is deliberately not)
ConcatLaws(D, a, b) == /\ a \o <<>> = a /\ <<>> \o a = a
                       /\ \A c \in D : (a \o b) \o c = a \o (b \o c)

(* ------------------------------------------------------------------ what the harness builds *)
\* wrapped functions (all non-symmetric): rel = "<" as a pseudo-equality, rev = the reversed ordering
Base(bs, dom, x, y) == CASE bs = "eq" -> EqM(dom, x, y)
                         [] bs = "ord" -> CmpM(dom, x, y)
                         [] bs = "rel" -> Less(dom, x, y)
                         [] bs = "rev" -> 0 - CmpM(dom, x, y)
                         \* wrapped functions that return what they like (results outside LT / EQ / GT): a From wrapper
                         \* must hand the VALUE back unchanged
                         [] bs = "diff" -> IF dom = "str" THEN Len(x) - Len(y) ELSE x - y        \* difference of ranks / lengths
                         [] bs = "weight" -> IF Less(dom, x, y) THEN 7 ELSE IF Less(dom, y, x) THEN 0 - 3 ELSE 5
                         [] bs = "const" -> 42
                         [] bs = "first" -> x             \* int domain: the first argument itself as the "ordering" (boundary ints)
                         [] bs = "true" -> TRUE
                         [] bs = "false" -> FALSE
\* projections: len: str -> num;  tab: int -> str (a non-monotone walk through the table);  flip: int -> int (order
\* reversing);  rot: int -> int (a permutation of the table that does not commute with flip: checked in AlgebraMC)
Proj(p, v) == CASE p = "len" -> Len(v)
                [] p = "tab" -> FullStrTab[((v * 7) % Len(FullStrTab)) + 1]
                [] p = "flip" -> NInt + 1 - v
                [] p = "rot" -> ((v * 3) % NInt) + 1
\* a ContraMap over a base that is itself a ContraMap: ps = <<outer, inner>>; the outer projection is applied first
RECURSIVE ProjAll(_, _)
ProjAll(ps, v) == IF ps = <<>> THEN v ELSE ProjAll(Tail(ps), Proj(Head(ps), v))
\* operations, non-commutative
Op(o, x, y) == CASE o = "concat" -> x \o y [] o = "sub" -> x - y
\* constructors handed something that already implements the richer interface (a Monoid as the Semigroup of monoid.From,
\* a Monoid's Combine as the function of FromOp): the inner monoid has its own, DIFFERENT empty element
InnerEmpty(dom, e) == IF dom = "str" THEN e \o <<33>> ELSE e + 100

D7(cls, dom, base, proj, pdom, logged, op) ==
  [cls |-> cls, dom |-> dom, base |-> base, proj |-> proj, pdom |-> pdom, logged |-> logged, op |-> op]
InstTab ==
     "eq.Int"                       :> D7("plain", "int", "eq", <<>>, "int", FALSE, "none")
  @@ "eq.String"                    :> D7("plain", "str", "eq", <<>>, "str", FALSE, "none")
  @@ "ord.Int"                      :> D7("plain", "int", "ord", <<>>, "int", FALSE, "none")
  @@ "ord.String"                   :> D7("plain", "str", "ord", <<>>, "str", FALSE, "none")
  @@ "eq.From/int"                  :> D7("from", "int", "rel", <<>>, "int", TRUE, "none")
  @@ "eq.From/str"                  :> D7("from", "str", "rel", <<>>, "str", TRUE, "none")
  @@ "ord.From/int"                 :> D7("from", "int", "rev", <<>>, "int", TRUE, "none")
  @@ "ord.From/str"                 :> D7("from", "str", "rev", <<>>, "str", TRUE, "none")
     \* From wrapping the method values of the built-in instances
  @@ "ord.From/diff/int"            :> D7("from", "int", "diff", <<>>, "int", TRUE, "none")
  @@ "ord.From/diff/str"            :> D7("from", "str", "diff", <<>>, "str", TRUE, "none")
  @@ "ord.From/weight/int"          :> D7("from", "int", "weight", <<>>, "int", TRUE, "none")
  @@ "ord.From/weight/str"          :> D7("from", "str", "weight", <<>>, "str", TRUE, "none")
  @@ "ord.From/const/str"           :> D7("from", "str", "const", <<>>, "str", TRUE, "none")
  @@ "ord.From/first/int"           :> D7("from", "int", "first", <<>>, "int", TRUE, "none")
  @@ "eq.From/true/str"             :> D7("from", "str", "true", <<>>, "str", TRUE, "none")
  @@ "eq.From/false/int"            :> D7("from", "int", "false", <<>>, "int", TRUE, "none")
  @@ "ord.ContraMap/len/diff"       :> D7("contramap", "str", "diff", <<"len">>, "num", TRUE, "none")
  @@ "eq.From/eq.Int.Equal"         :> D7("from", "int", "eq", <<>>, "int", FALSE, "none")
  @@ "eq.From/eq.String.Equal"      :> D7("from", "str", "eq", <<>>, "str", FALSE, "none")
  @@ "ord.From/ord.Int.Compare"     :> D7("from", "int", "ord", <<>>, "int", FALSE, "none")
  @@ "ord.From/ord.String.Compare"  :> D7("from", "str", "ord", <<>>, "str", FALSE, "none")
  @@ "eq.ContraMap/len/eq.Int"      :> D7("contramap", "str", "eq", <<"len">>, "num", FALSE, "none")
  @@ "eq.ContraMap/len/rel"         :> D7("contramap", "str", "rel", <<"len">>, "num", TRUE, "none")
  @@ "ord.ContraMap/len/ord.Int"    :> D7("contramap", "str", "ord", <<"len">>, "num", FALSE, "none")
  @@ "ord.ContraMap/len/rev"        :> D7("contramap", "str", "rev", <<"len">>, "num", TRUE, "none")
  @@ "eq.ContraMap/tab/eq.String"   :> D7("contramap", "int", "eq", <<"tab">>, "str", FALSE, "none")
  @@ "ord.ContraMap/tab/ord.String" :> D7("contramap", "int", "ord", <<"tab">>, "str", FALSE, "none")
  @@ "ord.ContraMap/flip/ord.Int"   :> D7("contramap", "int", "ord", <<"flip">>, "int", FALSE, "none")
  @@ "eq.ContraMap/flip/rel"        :> D7("contramap", "int", "rel", <<"flip">>, "int", TRUE, "none")
     \* two levels: the base of the ContraMap is itself a ContraMap (outer projection first)
  @@ "ord.ContraMap/rot/ord.ContraMap/flip/ord.Int" :> D7("contramap", "int", "ord", <<"rot", "flip">>, "int", FALSE, "none")
  @@ "ord.ContraMap/flip/ord.ContraMap/rot/rev"     :> D7("contramap", "int", "rev", <<"flip", "rot">>, "int", TRUE, "none")
  @@ "eq.ContraMap/rot/eq.ContraMap/flip/rel"       :> D7("contramap", "int", "rel", <<"rot", "flip">>, "int", TRUE, "none")
  @@ "eq.ContraMap/tab/eq.ContraMap/len/eq.Int"     :> D7("contramap", "int", "eq", <<"tab", "len">>, "num", FALSE, "none")
  @@ "ord.ContraMap/tab/ord.ContraMap/len/rev"      :> D7("contramap", "int", "rev", <<"tab", "len">>, "num", TRUE, "none")
  @@ "semigroup.From/concat"        :> D7("semigroup", "str", "none", <<>>, "str", TRUE, "concat")
  @@ "semigroup.From/sub"           :> D7("semigroup", "num", "none", <<>>, "num", TRUE, "sub")
     \* semigroup.From given functions of other provenance: method values of a Monoid, of a Semigroup, of a struct; a top-level function
  @@ "semigroup.From/monoid.Combine/concat"    :> D7("semigroup", "str", "none", <<>>, "str", TRUE, "concat")
  @@ "semigroup.From/semigroup.Combine/sub"    :> D7("semigroup", "num", "none", <<>>, "num", TRUE, "sub")
  @@ "semigroup.From/struct.Combine/concat"    :> D7("semigroup", "str", "none", <<>>, "str", TRUE, "concat")
  @@ "semigroup.From/func/sub"                 :> D7("semigroup", "num", "none", <<>>, "num", TRUE, "sub")
  @@ "monoid.FromOp/concat"         :> D7("monoid", "str", "none", <<>>, "str", TRUE, "concat")
  @@ "monoid.FromOp/sub"            :> D7("monoid", "num", "none", <<>>, "num", TRUE, "sub")
  @@ "monoid.From/concat"           :> D7("monoid", "str", "none", <<>>, "str", TRUE, "concat")
  @@ "monoid.From/sub"              :> D7("monoid", "num", "none", <<>>, "num", TRUE, "sub")
     \* the Semigroup / function given to the constructor belongs to a Monoid with another empty element (Nested)
  @@ "monoid.From/monoid.FromOp/concat"    :> D7("monoid", "str", "none", <<>>, "str", TRUE, "concat")
  @@ "monoid.From/monoid.FromOp/sub"       :> D7("monoid", "num", "none", <<>>, "num", TRUE, "sub")
  @@ "monoid.From/monoid.From/concat"      :> D7("monoid", "str", "none", <<>>, "str", TRUE, "concat")
  @@ "monoid.From/monoid.From/sub"         :> D7("monoid", "num", "none", <<>>, "num", TRUE, "sub")
  @@ "monoid.FromOp/monoid.Combine/concat" :> D7("monoid", "str", "none", <<>>, "str", TRUE, "concat")
  @@ "monoid.FromOp/monoid.Combine/sub"    :> D7("monoid", "num", "none", <<>>, "num", TRUE, "sub")
Insts == DOMAIN InstTab
Nested == {"monoid.From/monoid.FromOp/concat", "monoid.From/monoid.FromOp/sub", "monoid.From/monoid.From/concat",
           "monoid.From/monoid.From/sub", "monoid.FromOp/monoid.Combine/concat", "monoid.FromOp/monoid.Combine/sub"}

(* ------------------------------------------------------------------ P: promised result of one call, instance d on (a, b) *)
ExpRes(d, a, b) ==
  CASE d.cls \in {"plain", "from"} -> Base(d.base, d.dom, a, b)
    [] d.cls = "contramap" -> Base(d.base, d.pdom, ProjAll(d.proj, a), ProjAll(d.proj, b))
    [] d.cls \in {"semigroup", "monoid"} -> Op(d.op, a, b)

Call(w, args, res) == [which |-> w, args |-> args, res |-> res]
\* the call of the wrapped function / logging base / operation that the result must come from
Wrapped(d, a, b) ==
  CASE d.cls = "from" -> Call("f", <<a, b>>, ExpRes(d, a, b))
    [] d.cls = "contramap" -> Call("base", <<ProjAll(d.proj, a), ProjAll(d.proj, b)>>, ExpRes(d, a, b))
    [] d.cls \in {"semigroup", "monoid"} -> Call("op", <<a, b>>, ExpRes(d, a, b))
\* P: some logged call is the wrapped function on the arguments in order, and its result is what the instance returned
Delegated(d, a, b, res, calls) ==
  d.logged => \E j \in 1..Len(calls) :
                 /\ calls[j].which = Wrapped(d, a, b).which
                 /\ calls[j].args = Wrapped(d, a, b).args
                 /\ calls[j].res = res

(* ------------------------------------------------------------------ I: the exact inner call sequence of the code *)
\* level l of a ContraMap projects both arguments (a first), then delegates to its base: "proj", "proj2"
ProjName(l) == IF l = 1 THEN "proj" ELSE "proj2"
RECURSIVE ProjCalls(_, _, _, _)
ProjCalls(ps, l, x, y) ==
  IF ps = <<>> THEN <<>>
  ELSE <<Call(ProjName(l), <<x>>, Proj(Head(ps), x)), Call(ProjName(l), <<y>>, Proj(Head(ps), y))>>
       \o ProjCalls(Tail(ps), l + 1, Proj(Head(ps), x), Proj(Head(ps), y))
ExpCalls(d, a, b) ==
  CASE d.cls = "plain" -> <<>>
    [] d.cls = "contramap" -> ProjCalls(d.proj, 1, a, b) \o (IF d.logged THEN <<Wrapped(d, a, b)>> ELSE <<>>)
    [] OTHER -> IF d.logged THEN <<Wrapped(d, a, b)>> ELSE <<>>
====
