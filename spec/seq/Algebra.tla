---- MODULE Algebra ----
(* pure/eq, pure/ord, pure/semigroup, pure/monoid - the built-in instances and the combinators (C17).

   Values.  Integers of the "int" domain are *indices* 1..NInt into an ascending table of boundary values kept by
   the Go harness (MinInt64, MinInt64+1, -1, 0, 1, MaxInt32+1, MaxInt64-1, MaxInt64): index order = value order,
   index equality = value equality, which is all that Eq / Ord can observe.  Strings are sequences of byte
   codes (Go compares strings bytewise); the table below holds the empty string, strings that are prefixes of
   each other, the 0x7f/0x80 neighbours, multi-byte UTF-8 and invalid UTF-8.  The "num" domain is small plain
   integers (operands of the non-commutative operation `sub`, results of the projection `len`).

   P layer: EqM / CmpM are the built-in == and < as the Go specification defines them; the laws (equivalence;
   total, antisymmetric, transitive order that agrees with Eq) are predicates over pairs and triples of a
   domain; ExpRes is the result the statement promises for every instance built by the harness; Delegated is
   "the instance returned what the wrapped function returned on the arguments in order".
   I layer: ExpCalls, the exact sequence of inner calls (projection of a, projection of b, base) the code makes. *)
EXTENDS Integers, Sequences, FiniteSets, TLC

NInt == 8
FullStrTab == <<
  <<>>, <<97>>, <<97, 98>>, <<97, 98, 99>>, <<98>>, <<97, 127>>, <<97, 128>>, <<127>>, <<128>>,
  <<195, 169>>, <<101>>, <<195, 169, 97>>, <<228, 184, 150>>, <<255>>, <<65>>, <<97, 0>>, <<0>>,
  <<97, 98, 99, 100>>, <<98, 97>>, <<195>>, <<195, 168>>, <<240, 159, 152, 128>>, <<239, 191, 189>>, <<0, 0>>,
  <<32>>, <<97, 32>>, <<65, 97>>, <<255, 255>>, <<127, 128>>, <<128, 127>> >>
QuickStrN == 17

(* ------------------------------------------------------------------ the built-in comparison (Go: ==, <, >) *)
RECURSIVE LessStr(_, _)
\* bytewise lexicographic "<" on byte sequences; a proper prefix is smaller
LessStr(s, t) == IF t = <<>> THEN FALSE
                 ELSE IF s = <<>> THEN TRUE
                 ELSE IF Head(s) # Head(t) THEN Head(s) < Head(t)
                 ELSE LessStr(Tail(s), Tail(t))
Less(dom, a, b) == IF dom = "str" THEN LessStr(a, b) ELSE a < b
EqM(dom, a, b) == a = b
\* ord[T].Compare: LT when a < b, GT when a > b, else EQ   (LT = -1, EQ = 0, GT = 1)
CmpM(dom, a, b) == IF Less(dom, a, b) THEN -1 ELSE IF Less(dom, b, a) THEN 1 ELSE 0

(* ------------------------------------------------------------------ P: the laws, on a pair (a, b) and every c of D *)
EqLaws(dom, D, a, b) ==
  /\ EqM(dom, a, a)
  /\ EqM(dom, a, b) = EqM(dom, b, a)
  /\ \A c \in D : EqM(dom, a, b) /\ EqM(dom, b, c) => EqM(dom, a, c)
OrdLaws(dom, D, a, b) ==
  /\ CmpM(dom, a, b) \in {-1, 0, 1}
  /\ CmpM(dom, a, b) = 0 - CmpM(dom, b, a)                                    \* total: LT one way iff GT the other way
  /\ (CmpM(dom, a, b) = 0) = EqM(dom, a, b)                                   \* antisymmetric, agrees with Eq on EQ
  /\ CmpM(dom, a, a) = 0
  /\ \A c \in D : CmpM(dom, a, b) <= 0 /\ CmpM(dom, b, c) <= 0 => CmpM(dom, a, c) <= 0          \* transitive
  /\ \A c \in D : CmpM(dom, a, b) = -1 /\ CmpM(dom, b, c) <= 0 => CmpM(dom, a, c) = -1
\* the concatenation monoid used here and by C19's Fold is a lawful monoid (sub is deliberately not)
ConcatLaws(D, a, b) == /\ a \o <<>> = a /\ <<>> \o a = a
                       /\ \A c \in D : (a \o b) \o c = a \o (b \o c)

(* ------------------------------------------------------------------ what the harness builds *)
\* wrapped functions (all non-symmetric): rel = "<" as a pseudo-equality, rev = the reversed ordering
Base(bs, dom, x, y) == CASE bs = "eq" -> EqM(dom, x, y)
                         [] bs = "ord" -> CmpM(dom, x, y)
                         [] bs = "rel" -> Less(dom, x, y)
                         [] bs = "rev" -> 0 - CmpM(dom, x, y)
\* projections: len: str -> num;  tab: int -> str (a non-monotone walk through the table);  flip: int -> int (order reversing)
Proj(p, v) == CASE p = "len" -> Len(v)
                [] p = "tab" -> FullStrTab[((v * 7) % Len(FullStrTab)) + 1]
                [] p = "flip" -> NInt + 1 - v
\* operations, non-commutative
Op(o, x, y) == CASE o = "concat" -> x \o y [] o = "sub" -> x - y

D7(cls, dom, base, proj, pdom, logged, op) ==
  [cls |-> cls, dom |-> dom, base |-> base, proj |-> proj, pdom |-> pdom, logged |-> logged, op |-> op]
InstTab ==
     "eq.Int"                       :> D7("plain", "int", "eq", "none", "int", FALSE, "none")
  @@ "eq.String"                    :> D7("plain", "str", "eq", "none", "str", FALSE, "none")
  @@ "ord.Int"                      :> D7("plain", "int", "ord", "none", "int", FALSE, "none")
  @@ "ord.String"                   :> D7("plain", "str", "ord", "none", "str", FALSE, "none")
  @@ "eq.From/int"                  :> D7("from", "int", "rel", "none", "int", TRUE, "none")
  @@ "eq.From/str"                  :> D7("from", "str", "rel", "none", "str", TRUE, "none")
  @@ "ord.From/int"                 :> D7("from", "int", "rev", "none", "int", TRUE, "none")
  @@ "ord.From/str"                 :> D7("from", "str", "rev", "none", "str", TRUE, "none")
  @@ "eq.ContraMap/len/eq.Int"      :> D7("contramap", "str", "eq", "len", "num", FALSE, "none")
  @@ "eq.ContraMap/len/rel"         :> D7("contramap", "str", "rel", "len", "num", TRUE, "none")
  @@ "ord.ContraMap/len/ord.Int"    :> D7("contramap", "str", "ord", "len", "num", FALSE, "none")
  @@ "ord.ContraMap/len/rev"        :> D7("contramap", "str", "rev", "len", "num", TRUE, "none")
  @@ "eq.ContraMap/tab/eq.String"   :> D7("contramap", "int", "eq", "tab", "str", FALSE, "none")
  @@ "ord.ContraMap/tab/ord.String" :> D7("contramap", "int", "ord", "tab", "str", FALSE, "none")
  @@ "ord.ContraMap/flip/ord.Int"   :> D7("contramap", "int", "ord", "flip", "int", FALSE, "none")
  @@ "eq.ContraMap/flip/rel"        :> D7("contramap", "int", "rel", "flip", "int", TRUE, "none")
  @@ "semigroup.From/concat"        :> D7("semigroup", "str", "none", "none", "str", TRUE, "concat")
  @@ "semigroup.From/sub"           :> D7("semigroup", "num", "none", "none", "num", TRUE, "sub")
  @@ "monoid.FromOp/concat"         :> D7("monoid", "str", "none", "none", "str", TRUE, "concat")
  @@ "monoid.FromOp/sub"            :> D7("monoid", "num", "none", "none", "num", TRUE, "sub")
  @@ "monoid.From/concat"           :> D7("monoid", "str", "none", "none", "str", TRUE, "concat")
  @@ "monoid.From/sub"              :> D7("monoid", "num", "none", "none", "num", TRUE, "sub")
Insts == DOMAIN InstTab

(* ------------------------------------------------------------------ P: promised result of one call, instance d on (a, b) *)
ExpRes(d, a, b) ==
  CASE d.cls \in {"plain", "from"} -> Base(d.base, d.dom, a, b)
    [] d.cls = "contramap" -> Base(d.base, d.pdom, Proj(d.proj, a), Proj(d.proj, b))
    [] d.cls \in {"semigroup", "monoid"} -> Op(d.op, a, b)

Call(w, args, res) == [which |-> w, args |-> args, res |-> res]
\* the call of the wrapped function / logging base / operation that the result must come from
Wrapped(d, a, b) ==
  CASE d.cls = "from" -> Call("f", <<a, b>>, ExpRes(d, a, b))
    [] d.cls = "contramap" -> Call("base", <<Proj(d.proj, a), Proj(d.proj, b)>>, ExpRes(d, a, b))
    [] d.cls \in {"semigroup", "monoid"} -> Call("op", <<a, b>>, ExpRes(d, a, b))
\* P: some logged call is the wrapped function on the arguments in order, and its result is what the instance returned
Delegated(d, a, b, res, calls) ==
  d.logged => \E j \in 1..Len(calls) :
                 /\ calls[j].which = Wrapped(d, a, b).which
                 /\ calls[j].args = Wrapped(d, a, b).args
                 /\ calls[j].res = res

(* ------------------------------------------------------------------ I: the exact inner call sequence of the code *)
ExpCalls(d, a, b) ==
  CASE d.cls = "plain" -> <<>>
    [] d.cls = "contramap" -> <<Call("proj", <<a>>, Proj(d.proj, a)), Call("proj", <<b>>, Proj(d.proj, b))>>
                              \o (IF d.logged THEN <<Wrapped(d, a, b)>> ELSE <<>>)
    [] OTHER -> <<Wrapped(d, a, b)>>
====
