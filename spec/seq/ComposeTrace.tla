---- MODULE ComposeTrace ----
(* Trace validation for C20 (impl -> spec), batched.  A trace is one invocation of the function returned by the
   real Pipe / PipeN:  [fam, n, a, calls |-> <<[i, arg, res], ...>>, ret]  where `calls` are the calls of the
   supplied functions logged from the moment PipeN itself was called until the composed function returned.
   The machine (k, acc) follows the log line by line; a line it cannot take as Apply(k+1) on acc is *printed*
   ({"t":"PVIOL", preds}) and the machine re-synchronises on the logged values, so every deviation is listed:
       Order   the call is not of f_(k+1)            (transposition, omission, repetition)
       Arg     the call did not get the previous result
       Count   the invocation ended with k # n       (a function never applied / applied again)
       Result  the returned value is not f_n(...f_1(a)...)
   HARNESS is printed when a logged result is not F[i][arg]: the harness' own functions are broken. *)
EXTENDS Compose, TLC, Json, IOUtils

Batch == JsonDeserialize(IOEnv.TRACE_FILE)
Traces == Batch.traces

VARIABLES ti, j, k, acc, fails
vars == <<ti, j, k, acc, fails>>
T == Traces[ti]

Init == ti \in 1..Len(Traces) /\ j = 1 /\ k = 0 /\ acc = Traces[ti].a /\ fails = {}

Line == /\ j <= Len(T.calls)
        /\ LET c == T.calls[j] IN
           /\ fails' = (IF CanApply(c.i, k, T.n) THEN {} ELSE {"Order"})
                       \cup (IF c.arg = acc THEN {} ELSE {"Arg"})
                       \cup (IF c.res = F(T.fam, c.i, c.arg) THEN {} ELSE {"HARNESS"})
           /\ k' = c.i /\ acc' = c.res
        /\ j' = j + 1 /\ UNCHANGED ti
Finish == /\ j = Len(T.calls) + 1
          /\ fails' = (IF k = T.n /\ Len(T.calls) = T.n THEN {} ELSE {"Count"})
                      \cup (IF T.ret = Composed(T.fam, T.n, T.a) THEN {} ELSE {"Result"})
          /\ j' = j + 1 /\ UNCHANGED <<ti, k, acc>>
Next == Line \/ Finish

Judge ==
  /\ (fails # {} => PrintT(ToJson([t |-> "PVIOL", ti |-> ti, line |-> j - 1, preds |-> fails])))
  /\ (j = Len(T.calls) + 2 => PrintT(ToJson([t |-> "DONE", ti |-> ti, calls |-> Len(T.calls)])))
====
