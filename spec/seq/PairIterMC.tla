---- MODULE PairIterMC ----
(* The exhaustive model of IterMC over the two-kind universe of PairIter (cfg: ExtP <- PairP, ExtM <- PairM,
   ExtJ <- PairJ, BaseSet <- PairBaseT, WrapsOf <- PairWrapsT). *)
EXTENDS PairIter, IterMC
PairBaseT == PairBase(Shape, Width)
PairWrapsT(tag, e) == PairWraps(tag, e, Shape, Width)
\* Map changes values, never keys (P)
KeysKept == phase = "pair" /\ ~has => MapKeepsKeys(expr)
====
