---- MODULE SeqADTTrace ----
(* Trace validation for C19 (impl -> spec), batched.  A trace is a script executed on the four machines
   (list / slice x int / string elements) with every register observed after every step:
     [combos |-> <<[name, mon, slice]>>,
      steps  |-> <<[op, i, j, x, xs, obs |-> <<per machine: [regs |-> <<obs_1, obs_2, obs_3>>, caps, share, panic]>>]>>]
   Long scripts (New of 0 .. 1000 distinct elements, Cons chains, Tail walks across size thresholds) observe only
   some steps (obs = <<>> otherwise) and are not followed by the I layer (follow = FALSE).
   TRACE-P  the P registers are advanced with PApply and every observation is judged by P_Observation; failures
            are printed ({"t":"PVIOL", step, fails |-> {<<machine, register, predicate>>}}) and validation goes on.
   TRACE-I  the slice model is advanced with SApply (the spare capacity append produced is inferred from the logged
            capacity) and must explain the logged capacities and the logged sharing of arrays between registers;
            the first step it cannot explain is printed ({"t":"DRIFT"}) and the I layer stops following the trace. *)
EXTENDS SeqADT, Json, IOUtils

Batch == JsonDeserialize(IOEnv.TRACE_FILE)
Traces == Batch.traces

VARIABLES ti, k, p, S, drift, fails
vars == <<ti, k, p, S, drift, fails>>
Steps == Traces[ti].steps
Combos == Traces[ti].combos
\* the machine whose arrays the I layer follows: the first slice machine
ICombo == CHOOSE c \in 1..Len(Combos) : Combos[c].slice /\ \A q \in 1..(c - 1) : ~Combos[q].slice

Init == ti \in 1..Len(Traces) /\ k = 1 /\ p = PEmpty /\ S = SInit /\ drift = 0 /\ fails = {}

Judged(q, s) ==
  UNION {IF s.obs[c].panic # "" THEN {<<c, s.i, "panic">>}
         ELSE UNION {IF s.obs[c].regs[r].panic # "" THEN {<<c, r, "panic">>}
                     ELSE {<<c, r, pr>> : pr \in P_Observation(q[r], s.obs[c].regs[r], Combos[c].mon)} : r \in Regs}
         : c \in 1..Len(Combos)}

Step == /\ k <= Len(Steps)
        /\ LET s == Steps[k]
               o == [op |-> s.op, i |-> s.i, j |-> s.j, x |-> s.x, xs |-> s.xs]
               q == PApply(p, o) IN
           /\ p' = q
           /\ fails' = (IF ~Enabled(p, o) THEN {<<0, 0, "HARNESS">>}
                        ELSE IF s.obs = <<>> THEN {}             \* a quiet step of a long script: applied, not observed
                        ELSE Judged(q, s))
           /\ IF drift > 0 \/ ~Traces[ti].follow \/ s.obs = <<>> \/ s.obs[ICombo].panic # "" THEN UNCHANGED <<S, drift>>
              ELSE LET lg == s.obs[ICombo]
                       sp == lg.caps[o.i] - Len(q[o.i])
                       S2 == SApply(S, o, IF sp > 0 THEN sp ELSE 0) IN
                   /\ S' = S2
                   /\ drift' = IF [r \in Regs |-> S2.reg[r].cap] = [r \in Regs |-> lg.caps[r]]
                                   /\ SShare(S2) = [a \in Regs |-> [b \in Regs |-> lg.share[a][b]]]
                                THEN 0 ELSE k
        /\ k' = k + 1 /\ UNCHANGED ti
Next == Step

Judge ==
  /\ (fails # {} => PrintT(ToJson([t |-> "PVIOL", ti |-> ti, step |-> k - 1, fails |-> fails])))
  /\ (drift > 0 /\ drift = k - 1 => PrintT(ToJson([t |-> "DRIFT", ti |-> ti, step |-> k - 1])))
  /\ (k = Len(Steps) + 1 => PrintT(ToJson([t |-> "DONE", ti |-> ti, steps |-> Len(Steps), drift |-> drift])))
====
