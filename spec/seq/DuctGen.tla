---- MODULE DuctGen ----
(* Behaviour generator: every program of MinEmit..MaxSteps steps is printed as JSON with the tree the P layer
   prescribes and the expected callback trace (the visitor failing at position k must see exactly the first k
   entries).  Run exhaustively (breadth first) or with `-simulate` for a seeded sample of long programs.
   lib/fam_duct.py turns every case into Go source executing the same program against the real package. *)
EXTENDS Duct, Json
CONSTANTS MaxSteps, MinEmit
VARIABLES bs, prog
Init == \E t \in FromTypes : bs = Start(t) /\ prog = <<StepFrom(t)>>
Next == /\ bs.n < MaxSteps
        /\ \E st \in Steps(bs) : bs' = Do(bs, st) /\ prog' = Append(prog, st)
Emit == bs.n < MinEmit \/
        LET tree == P_Tree(bs.pt, 0) IN
        PrintT(ToJson([t |-> "case", prog |-> prog, tree |-> tree, trace |-> PVisit(tree, 0), agree |-> Agree(bs)]))
====
