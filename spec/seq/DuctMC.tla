---- MODULE DuctMC ----
(* Exhaustive model: every well-typed program of <= MaxSteps steps (From counts as one); after any of them a visit
   may start; at every callback the visitor either succeeds or fails (action Fail), so every failing position k of
   every program is explored.  Invariants: the tree built as coded is the tree the stack discipline prescribes
   (TreeAgrees, OpenChain, NodeCount) and every visit state satisfies the statement (Visit).
   WithVisit = FALSE explores the programs only (larger MaxSteps). *)
EXTENDS Duct
CONSTANTS MaxSteps, WithVisit
VARIABLES bs, vis
vars == <<bs, vis>>
Init == bs \in {Start(t) : t \in FromTypes} /\ vis = VIdle
Build == /\ vis.st = "idle" /\ bs.n < MaxSteps
         /\ \E st \in Steps(bs) : bs' = Do(bs, st)
         /\ UNCHANGED vis
StartVisit == WithVisit /\ vis.st = "idle" /\ vis' = VStart(bs.ast) /\ UNCHANGED bs
Visit1 == vis.st = "run" /\ vis' = VStep(vis, FALSE) /\ UNCHANGED bs
Fail == vis.st = "run" /\ AtCallback(vis) /\ vis' = VStep(vis, TRUE) /\ UNCHANGED bs
Next == Build \/ StartVisit \/ Visit1 \/ Fail
Spec == Init /\ [][Next]_vars

TreeAgrees == Agree(bs)
OpenChain == ChainOk(bs)
\* one node per From/Join/WrapF/Yield step, two per LiftF, none per Unit (+ the root)
NodeCount == Count(bs.ast) = Cardinality(DOMAIN bs.pt.info)
Visit == VisitOk(vis, P_Tree(bs.pt, 0))
\* sanity of the model itself: types stay in the universe
TypeOk == bs.ty.l \in 0..MaxLevel /\ bs.ty.b \in Real \cup {"Void"}
====
