---- MODULE SkipList ----
(* internal/maplike/skiplist - implementation-shaped model (I layer) and ordered-map meaning (P layer).

   I layer: head sentinel with `Levels` forward pointers ("fingers"), one node per live key with `h` fingers,
   `skip`/`search` = per-level walk to the rightmost node whose key is smaller (top level first, carrying the
   node down), `Put` = overwrite on EQ else splice a node of nondeterministic height along the path,
   `Remove` = unlink at every level where the path's finger points at the node.
   All transitions are written as operators over a structure record st = [node, fing] so that the same
   definitions serve the exhaustive model (SkipListMC), the behaviour generator (SkipListGen) and the trace
   specs (SkipListTrace).

   P layer: `amap`, a finite function key -> value; results of Get/Remove; the printed form lists the live keys
   strictly ascending (in the order trait) and every forward pointer goes to a larger key. *)
EXTENDS Integers, Sequences, FiniteSets, TLC

CONSTANTS Keys,      \* a set of positive integers (indices into the harness' key table)
          Vals,      \* values put; 0 is the zero value (also what Get / Remove return for absent keys)
          Levels,    \* heights explored: 1..Levels
          Order      \* "asc" | "desc": the comparison trait handed to New (a total order on Keys)

HEAD == 0
NIL == -1
Lt(a, b) == IF Order = "asc" THEN a < b ELSE a > b

EmptySt == [node |-> << >>, fing |-> [n \in {HEAD} |-> [l \in 1..Levels |-> NIL]]]
Live(st) == DOMAIN st.node

RECURSIVE Walk(_,_,_,_)
Walk(st, n, l, key) == LET nx == st.fing[n][l] IN IF nx # NIL /\ Lt(nx, key) THEN Walk(st, nx, l, key) ELSE n
RECURSIVE PathFrom(_,_,_,_)
PathFrom(st, n, l, key) == IF l = 0 THEN << >> ELSE LET m == Walk(st, n, l, key) IN (l :> m) @@ PathFrom(st, m, l - 1, key)
Path(st, key) == PathFrom(st, HEAD, Levels, key)
Candidate(st, key) == st.fing[Path(st, key)[1]][1]
Hit(st, key) == LET c == Candidate(st, key) IN c # NIL /\ ~Lt(c, key) /\ ~Lt(key, c)

PutS(st, k, v, h) ==
  IF Hit(st, k) THEN [st EXCEPT !.node[k].val = v]
  ELSE LET p == Path(st, k) IN
       [node |-> (k :> [val |-> v, h |-> h]) @@ st.node,
        fing |-> [n \in DOMAIN st.fing \cup {k} |->
                    IF n = k THEN [l \in 1..Levels |-> IF l <= h THEN st.fing[p[l]][l] ELSE NIL]
                    ELSE [l \in 1..Levels |-> IF l <= h /\ p[l] = n THEN k ELSE st.fing[n][l]]]]
RemoveS(st, k) ==
  IF Hit(st, k)
  THEN LET p == Path(st, k) IN
       [node |-> [x \in Live(st) \ {k} |-> st.node[x]],
        fing |-> [n \in DOMAIN st.fing \ {k} |->
                    [l \in 1..Levels |-> IF p[l] = n /\ st.fing[n][l] = k
                                         THEN (IF st.node[k].h >= l THEN st.fing[k][l] ELSE NIL)
                                         ELSE st.fing[n][l]]]]
  ELSE st
GetS(st, k) == IF Hit(st, k) THEN st.node[Candidate(st, k)].val ELSE 0

(* the printed form: the level-1 chain from the head, each node with its fingers *)
RECURSIVE Chain(_,_,_)
Chain(st, n, l) == LET nx == st.fing[n][l] IN IF nx = NIL THEN <<>> ELSE <<nx>> \o Chain(st, nx, l)
HeightOf(st, n) == IF n = HEAD THEN Levels ELSE st.node[n].h
Form(st) == LET c == <<HEAD>> \o Chain(st, HEAD, 1) IN
            [i \in 1..Len(c) |-> [k |-> c[i], f |-> [l \in 1..HeightOf(st, c[i]) |-> st.fing[c[i]][l]]]]

(* ---------------------------------------------------------------- P: what a user relies on *)
MPut(m, k, v) == (k :> v) @@ m
MDel(m, k) == [x \in DOMAIN m \ {k} |-> m[x]]
MGet(m, k) == IF k \in DOMAIN m THEN m[k] ELSE 0
RECURSIVE SortedSeq(_)
SortedSeq(S) == IF S = {} THEN <<>> ELSE LET x == CHOOSE x \in S : \A y \in S \ {x} : Lt(x, y) IN <<x>> \o SortedSeq(S \ {x})
\* printed form (a sequence of [k, f] records, head first) against the map
FormKeys(form) == [i \in 1..Len(form) - 1 |-> form[i + 1].k]
P_FormAscending(form, m) == FormKeys(form) = SortedSeq(DOMAIN m)
P_FormForwardOnly(form) == \A i \in 2..Len(form) : \A l \in DOMAIN form[i].f : form[i].f[l] = NIL \/ Lt(form[i].k, form[i].f[l])

(* ---------------------------------------------------------------- I: structural invariants of the model *)
Ascending(s) == \A i \in 1..Len(s) - 1 : Lt(s[i], s[i + 1])
StructOK(st) ==
  /\ LET c == Chain(st, HEAD, 1) IN {c[i] : i \in 1..Len(c)} = Live(st) /\ Ascending(c)
  /\ \A l \in 2..Levels : LET c == Chain(st, HEAD, l) IN
        Ascending(c) /\ {c[i] : i \in 1..Len(c)} = {k \in Live(st) : st.node[k].h >= l}
  /\ \A n \in Live(st) : \A l \in 1..st.node[n].h : st.fing[n][l] = NIL \/ Lt(n, st.fing[n][l])
  /\ \A n \in Live(st) : \A l \in 1..Levels : l > st.node[n].h => st.fing[n][l] = NIL
====
