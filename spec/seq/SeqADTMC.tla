---- MODULE SeqADTMC ----
(* Exhaustive model for C19: every script of <= MaxOps operations over three registers; both I layers are advanced
   next to the P registers.  Invariants: I refines P (element lists, observers), the statement's laws one step
   ahead of every reachable state, structure; action properties: no existing cell / array cell is ever written. *)
EXTENDS SeqADT
CONSTANTS Vals, MaxOps, NewLen,     \* New(xs...) with every xs over Vals of length <= NewLen
          Spares                    \* spare capacities explored for the slice's append
VARIABLES p, L, S, n
vars == <<p, L, S, n>>

NewArgs == UNION {[1..m -> Vals] : m \in 0..NewLen}
Ops == {[op |-> "new", i |-> i, j |-> 0, x |-> 0, xs |-> xs] : i \in Regs, xs \in NewArgs}
       \cup {[op |-> "cons", i |-> i, j |-> j, x |-> x, xs |-> <<>>] : i \in Regs, j \in Regs, x \in Vals}
       \cup {[op |-> "tail", i |-> i, j |-> j, x |-> 0, xs |-> <<>>] : i \in Regs, j \in Regs}

Init == p = PEmpty /\ L = LInit /\ S = SInit /\ n = 0
Next == /\ n < MaxOps
        /\ \E o \in Ops, sp \in Spares :
             /\ Enabled(p, o)
             /\ p' = PApply(p, o) /\ L' = LApply(L, o) /\ S' = SApply(S, o, sp)
        /\ n' = n + 1
Spec == Init /\ [][Next]_vars

Refines == \A j \in Regs : LElems(L, j) = p[j] /\ SElems(S, j) = p[j]
Observers == \A j \in Regs :
  /\ LLength(L, j) = Len(p[j]) /\ SLength(S, j) = Len(p[j])
  /\ LIsEmpty(L, j) = (p[j] = <<>>) /\ SIsEmpty(S, j) = (p[j] = <<>>)
  /\ (p[j] # <<>> => LHead(L, j) = p[j][1] /\ SHead(S, j) = p[j][1])
  /\ FoldL("lin", LElems(L, j)) = FoldL("lin", p[j]) /\ FoldL("cat", SElems(S, j)) = FoldL("cat", p[j])
FoldFastAgrees == \A j \in Regs : FoldFast("cat", p[j]) = FoldL("cat", p[j]) /\ FoldFast("lin", p[j]) = FoldL("lin", p[j])
Laws == LLaws(L, Vals) /\ SLaws(S, Vals, Spares)
Structure == LStructOK(L) /\ SStructOK(S)
\* nothing that exists is ever overwritten: cells and array cells are immutable, heaps only grow
NoWrite == [][/\ \A c \in 1..Len(L.cells) : L'.cells[c] = L.cells[c]
              /\ \A b \in 1..Len(S.arrs) : S'.arrs[b] = S.arrs[b]]_vars
====
