---- MODULE SkipListGen ----
(* Behaviour generator: one witness history per distinct reachable structure, printed as JSON together with
   the expected printed form and every outgoing transition (operation, expected result, expected form).
   The Go harness replays the history through the real list (heights injected through NewWithSource), then
   each transition, and compares results (P) and printed forms (P: keys / forward-only; I: exact fingers). *)
EXTENDS SkipList, Json, SequencesExt
CONSTANTS MaxHist    \* 0: one witness per structure, with all successors (use VIEW View); n > 0: every history of <= n operations
VARIABLES st, amap, hist
Init == st = EmptySt /\ amap = << >> /\ hist = <<>>
Room == MaxHist = 0 \/ Len(hist) < MaxHist
DoPut == Room /\ \E k \in Keys, v \in Vals, h \in 1..Levels :
           st' = PutS(st, k, v, h) /\ amap' = MPut(amap, k, v) /\ hist' = Append(hist, [op |-> "put", k |-> k, v |-> v, h |-> h, ret |-> 0])
DoRemove == Room /\ \E k \in Keys : st' = RemoveS(st, k) /\ amap' = MDel(amap, k) /\ hist' = Append(hist, [op |-> "remove", k |-> k, v |-> 0, h |-> 0, ret |-> MGet(amap, k)])
Next == DoPut \/ DoRemove
View == <<st, amap>>
FormJ(s) == LET f == Form(s) IN [i \in 1..Len(f) |-> <<f[i].k, f[i].f>>]
LiveJ(m) == LET s == SortedSeq(DOMAIN m) IN [i \in 1..Len(s) |-> <<s[i], m[s[i]]>>]
Succ == LET puts == {<<k, v, h>> \in Keys \X Vals \X (1..Levels) : TRUE} IN
  [put |-> SetToSeq({[k |-> p[1], v |-> p[2], h |-> p[3], ret |-> 0, form |-> FormJ(PutS(st, p[1], p[2], p[3])),
                      live |-> LiveJ(MPut(amap, p[1], p[2]))] : p \in puts}),
   remove |-> SetToSeq({[k |-> k, ret |-> MGet(amap, k), form |-> FormJ(RemoveS(st, k)), live |-> LiveJ(MDel(amap, k))] : k \in Keys}),
   get |-> SetToSeq({[k |-> k, ret |-> MGet(amap, k)] : k \in Keys})]
Emit == IF MaxHist = 0
        THEN PrintT(ToJson([t |-> "case", hist |-> hist, form |-> FormJ(st), live |-> LiveJ(amap), succ |-> Succ]))
        ELSE PrintT(ToJson([t |-> "case", hist |-> hist, form |-> FormJ(st), live |-> LiveJ(amap)]))
====
