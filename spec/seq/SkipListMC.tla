---- MODULE SkipListMC ----
(* Exhaustive model: every reachable structure over Keys x heights, every transition; I refines P. *)
EXTENDS SkipList
VARIABLES st, amap
vars == <<st, amap>>
Init == st = EmptySt /\ amap = << >>
DoPut == \E k \in Keys, v \in Vals, h \in 1..Levels :
           st' = PutS(st, k, v, h) /\ amap' = MPut(amap, k, v)
DoRemove == \E k \in Keys : st' = RemoveS(st, k) /\ amap' = MDel(amap, k)
\* Get changes nothing; Get and Remove return GetS(st, k): their agreement with the map is ResultsAgree in every state
Next == DoPut \/ DoRemove
Spec == Init /\ [][Next]_vars

Refines == Live(st) = DOMAIN amap /\ \A k \in Live(st) : st.node[k].val = amap[k]
ResultsAgree == \A k \in Keys : GetS(st, k) = MGet(amap, k)
Structure == StructOK(st)
PrintedForm == P_FormAscending(Form(st), amap) /\ P_FormForwardOnly(Form(st))
====
