---- MODULE Duct ----
(* duct (github.com/fogfish/golem/duct): combinator programs build an AST; Morphism.Apply visits it.

   A program is From(t) followed by steps Join | LiftF | WrapF | Unit | Yield, each applied to the result of the
   previous one (every intermediate morphism is used exactly once).  Go's typing of the combinators is modelled
   on the codomain type of the morphism, a pair (base, slice level):
       Join [A,B,C](f F[B,C], m Morphism[A,B])   : Morphism[A,C]      any B, C chosen by f
       LiftF[A,B,C](f F[B,C], m Morphism[A,[]B]) : Morphism[A,C]      needs a slice; C chosen by f
       WrapF[A,B]  (m Morphism[A,[]B])           : Morphism[A,B]      needs a slice
       Unit [A,B]  (m Morphism[A,B])             : Morphism[A,[]B]    any B (the model stops at MaxLevel)
       Yield[A,B]  (t T[B], m Morphism[A,B])     : Morphism[A,Void]   any B; Void = any, so programs may go on

   I layer (as coded in duct/ast.go): the tree under the root AstSeq; `append` and `unit` descend through the
   *last child* while it is an AstSeq that accepts (Deferred), `unit` clears Deferred on the deepest one that is
   not the root; Apply = enter, children at depth+1, leave, first error returned (explicit-stack machine VStep).

   P layer (the statement of C16): an explicit stack of open contexts.  Join/Yield land in the innermost open
   context, LiftF/WrapF open a new context there (LiftF's transformer is its first child), Unit closes the
   innermost open non-root context.  The expected visit is the bracketed pre/post-order walk of that tree; a
   callback failing at position k cuts the walk after k callbacks and the error is returned (VisitOk).

   Node ids name the step that created the node: root = 0, step s -> 2*s, the transformer of a LiftF step -> 2*s+1. *)
EXTENDS Integers, Sequences, FiniteSets, TLC

CONSTANTS MaxLevel,     \* slice levels 0..MaxLevel
          FromBases,    \* subset of {"int", "string"}: element type of the source of From
          FromLevels,   \* set of slice levels the source type of From may have
          Alphabet,     \* "full": every transformer codomain of JT;  "skeleton": one Join (other base, same level),
                        \*   one LiftF (f: B -> []B, the codomain type stays), WrapF, Unit, Yield - the nesting skeletons
          MaxLand,      \* at most this many Join/Yield steps in a program                          (99 = no bound)
          MidLand,      \* LiftF/WrapF/Unit only while at most this many Join/Yield steps were made (99 = no bound);
                        \*   0: programs are a nesting word followed by <= MaxLand trailing Join/Yield probes
          MaxDepth      \* at most this many nested contexts open at a time                         (99 = no bound)

(* ------------------------------------------------------------------------------------------ types *)
Real == {"int", "string"}
T(b, l) == [b |-> b, l |-> l]
NoT == [b |-> "", l |-> 0]
Void == T("Void", 0)
Flip(b) == IF b = "int" THEN "string" ELSE "int"
Elem(t) == T(t.b, t.l - 1)
FromTypes == {T(b, l) : b \in FromBases, l \in FromLevels}
\* codomains offered to a transformer F[B, C] (never C = B, so that swapped type names are visible)
JT(t) == {T(Flip(t.b), t.l)}
         \cup (IF t.l < MaxLevel THEN {T(t.b, t.l + 1)} ELSE {})
         \cup (IF t.l > 0 THEN {T(t.b, t.l - 1)} ELSE {})

(* ------------------------------------------------------------------------------------------ nodes *)
\* k \in {"root", "seq", "from", "map", "yield"}; `open` is AstSeq.Deferred; leaves have no children
Node(kind, id, ta, tb) == [k |-> kind, id |-> id, ta |-> ta, tb |-> tb, open |-> FALSE, ch |-> <<>>]
SeqN(kind, id) == [k |-> kind, id |-> id, ta |-> NoT, tb |-> NoT, open |-> TRUE, ch |-> <<>>]
IsSeq(n) == n.k \in {"root", "seq"}

(* ------------------------------------------------------------------------------------------ I: ast.go *)
RECURSIVE App(_,_), Uni(_)
\* func (f *AstSeq) append(n Ast) bool      -> <<ok, f'>>
App(f, n) == IF ~f.open THEN <<FALSE, f>>
             ELSE IF f.ch = <<>> THEN <<TRUE, [f EXCEPT !.ch = <<n>>]>>
             ELSE LET last == f.ch[Len(f.ch)] IN
                  IF IsSeq(last) /\ App(last, n)[1]
                  THEN <<TRUE, [f EXCEPT !.ch[Len(f.ch)] = App(last, n)[2]]>>
                  ELSE <<TRUE, [f EXCEPT !.ch = Append(f.ch, n)]>>
\* func (f *AstSeq) unit() bool             -> <<ok, f'>>
Uni(f) == IF ~f.open THEN <<FALSE, f>>
          ELSE IF f.ch = <<>> THEN <<TRUE, IF f.k = "root" THEN f ELSE [f EXCEPT !.open = FALSE]>>
          ELSE LET last == f.ch[Len(f.ch)] IN
               IF IsSeq(last) /\ Uni(last)[1]
               THEN <<TRUE, [f EXCEPT !.ch[Len(f.ch)] = Uni(last)[2]]>>
               ELSE <<TRUE, IF f.k = "root" THEN f ELSE [f EXCEPT !.open = FALSE]>>

(* ------------------------------------------------------------------------------------------ P: stack of open contexts *)
\* p = [kids : context id -> sequence of node ids, info : node id -> [k, ta, tb], stack : open contexts, innermost last]
P_Init == [kids |-> (0 :> <<>>), info |-> (0 :> [k |-> "root", ta |-> NoT, tb |-> NoT]), stack |-> <<0>>]
P_Top(p) == p.stack[Len(p.stack)]
P_Land(p, id, kind, ta, tb) == [p EXCEPT !.kids[P_Top(p)] = Append(@, id),
                                         !.info = (id :> [k |-> kind, ta |-> ta, tb |-> tb]) @@ @]
P_Open(p, id) == LET q == P_Land(p, id, "seq", NoT, NoT) IN
                 [q EXCEPT !.kids = (id :> <<>>) @@ @, !.stack = Append(@, id)]
P_Close(p) == IF Len(p.stack) > 1 THEN [p EXCEPT !.stack = SubSeq(@, 1, Len(@) - 1)] ELSE p
RECURSIVE P_Tree(_,_)
P_Tree(p, id) == LET i == p.info[id] IN
  [k |-> i.k, id |-> id, ta |-> i.ta, tb |-> i.tb,
   open |-> (\E j \in 1..Len(p.stack) : p.stack[j] = id),
   ch |-> IF id \in DOMAIN p.kids THEN [j \in 1..Len(p.kids[id]) |-> P_Tree(p, p.kids[id][j])] ELSE <<>>]

(* ------------------------------------------------------------------------------------------ programs *)
\* build state s = [ast (I), pt (P), ty (codomain type), n (steps so far), nl (Join/Yield steps so far)]
Start(t) == [ast |-> App(SeqN("root", 0), Node("from", 2, t, t))[2],
             pt  |-> P_Land(P_Init, 2, "from", t, t), ty |-> t, n |-> 1, nl |-> 0]
StepFrom(t) == [op |-> "from", b |-> t, c |-> t]
\* codomains offered to Join / LiftF transformers in the chosen alphabet
JoinTo(t) == IF Alphabet = "full" THEN JT(t) ELSE {T(Flip(t.b), t.l)}
LiftTo(e) == IF Alphabet = "full" THEN JT(e) ELSE {T(e.b, e.l + 1)}
\* the steps Go's type checker admits on a morphism with codomain s.ty
TypedSteps(s) ==
  {[op |-> "join", b |-> s.ty, c |-> c] : c \in JoinTo(s.ty)}
  \cup (IF s.ty.l >= 1 THEN {[op |-> "liftf", b |-> Elem(s.ty), c |-> c] : c \in LiftTo(Elem(s.ty))}
                            \cup {[op |-> "wrapf", b |-> Elem(s.ty), c |-> Elem(s.ty)]} ELSE {})
  \cup (IF s.ty.l < MaxLevel THEN {[op |-> "unit", b |-> s.ty, c |-> T(s.ty.b, s.ty.l + 1)]} ELSE {})
  \cup {[op |-> "yield", b |-> s.ty, c |-> Void]}
IsLand(st) == st.op \in {"join", "yield"}
IsOpen(st) == st.op \in {"liftf", "wrapf"}
\* ... of which the family under exploration keeps
\* (in the skeleton alphabet Unit is used only to close a nested context: Unit with nothing open is in the full family)
Steps(s) == {st \in TypedSteps(s) : /\ IsLand(st) => s.nl < MaxLand
                                    /\ ~IsLand(st) => s.nl <= MidLand
                                    /\ IsOpen(st) => Len(s.pt.stack) - 1 < MaxDepth
                                    /\ Alphabet = "skeleton" /\ st.op = "unit" => Len(s.pt.stack) > 1}
Do(s, st) ==
  LET id == 2 * (s.n + 1)
      t  == CASE st.op = "join"  -> [ast |-> App(s.ast, Node("map", id, st.b, st.c))[2],
                                     pt  |-> P_Land(s.pt, id, "map", st.b, st.c)]
               [] st.op = "liftf" -> [ast |-> App(s.ast, App(SeqN("seq", id), Node("map", id + 1, st.b, st.c))[2])[2],
                                     pt  |-> P_Land(P_Open(s.pt, id), id + 1, "map", st.b, st.c)]
               [] st.op = "wrapf" -> [ast |-> App(s.ast, SeqN("seq", id))[2], pt |-> P_Open(s.pt, id)]
               [] st.op = "unit"  -> [ast |-> Uni(s.ast)[2], pt |-> P_Close(s.pt)]
               [] st.op = "yield" -> [ast |-> App(s.ast, Node("yield", id, st.b, st.b))[2],
                                     pt  |-> P_Land(s.pt, id, "yield", st.b, st.b)]
  IN [ast |-> t.ast, pt |-> t.pt, ty |-> st.c, n |-> s.n + 1, nl |-> s.nl + (IF IsLand(st) THEN 1 ELSE 0)]

\* the I tree is the tree the stack discipline prescribes (including which contexts are still open)
Agree(s) == s.ast = P_Tree(s.pt, 0)
\* structure of the I tree on its own: the open contexts are exactly a chain through last children starting at the root
RECURSIVE OpenIds(_), LastChain(_)
OpenIds(f) == (IF f.open THEN {f.id} ELSE {}) \cup UNION {OpenIds(f.ch[i]) : i \in {j \in 1..Len(f.ch) : IsSeq(f.ch[j])}}
LastChain(f) == IF ~f.open THEN <<>>
                ELSE <<f.id>> \o (IF f.ch # <<>> /\ IsSeq(f.ch[Len(f.ch)]) THEN LastChain(f.ch[Len(f.ch)]) ELSE <<>>)
ChainOk(s) == LastChain(s.ast) = s.pt.stack /\ OpenIds(s.ast) = {s.pt.stack[i] : i \in 1..Len(s.pt.stack)}
RECURSIVE Count(_), CountFrom(_,_)
CountFrom(f, i) == IF i > Len(f.ch) THEN 0 ELSE Count(f.ch[i]) + CountFrom(f, i + 1)
Count(f) == 1 + CountFrom(f, 1)

(* ------------------------------------------------------------------------------------------ visits *)
CbKind(n) == IF n.k = "root" THEN "morphism" ELSE n.k
Ev(cb, n, d) == [cb |-> cb, k |-> CbKind(n), id |-> n.id, d |-> d]

\* P: the expected callback trace of a tree
RECURSIVE PVisit(_,_), PKids(_,_,_)
PKids(n, i, d) == IF i > Len(n.ch) THEN <<>> ELSE PVisit(n.ch[i], d) \o PKids(n, i + 1, d)
PVisit(n, d) == <<Ev("enter", n, d)>> \o PKids(n, 1, d + 1) \o <<Ev("leave", n, d)>>

\* P: brackets of a (possibly cut) trace; returns <<ok, still-open enters>>
RECURSIVE Brackets(_,_)
Brackets(tr, stk) ==
  IF tr = <<>> THEN <<TRUE, stk>>
  ELSE LET e == Head(tr) IN
       IF e.cb = "enter"
       THEN IF stk = <<>> \/ e.d = stk[Len(stk)].d + 1 THEN Brackets(Tail(tr), Append(stk, e)) ELSE <<FALSE, stk>>
       ELSE IF stk # <<>> /\ stk[Len(stk)].id = e.id /\ stk[Len(stk)].k = e.k /\ stk[Len(stk)].d = e.d
            THEN Brackets(Tail(tr), SubSeq(stk, 1, Len(stk) - 1)) ELSE <<FALSE, stk>>
\* P: exactly one root morphism, everything else inside it
OneRoot(tr) == tr = <<>> \/
  /\ tr[1].cb = "enter" /\ tr[1].k = "morphism"
  /\ \A i \in 2..Len(tr) : tr[i].k = "morphism" => (i = Len(tr) /\ tr[i].cb = "leave")
  /\ \A i \in 2..Len(tr) : tr[i].cb = "enter" => Brackets(SubSeq(tr, 1, i - 1), <<>>)[2] # <<>>
IsPrefix(a, b) == Len(a) <= Len(b) /\ a = SubSeq(b, 1, Len(a))

\* I: Apply as coded, one frame per active call of Apply.  A step is one callback (which the visitor lets succeed or
\* fail: `fail`) or one descent into the next child.
Frame(n, d) == [n |-> n, i |-> 0, d |-> d]
VIdle == [st |-> "idle", stk |-> <<>>, tr |-> <<>>, err |-> FALSE]
VStart(ast) == [st |-> "run", stk |-> <<Frame(ast, 0)>>, tr |-> <<>>, err |-> FALSE]
VCall(v, cb, f, stk2, fail) ==
  LET tr2 == Append(v.tr, Ev(cb, f.n, f.d)) IN
  IF fail
  THEN [v EXCEPT !.tr = tr2, !.st = "done", !.err = TRUE, !.stk = <<>>]     \* `return err` in every active frame
  ELSE [v EXCEPT !.tr = tr2, !.stk = stk2, !.st = IF stk2 = <<>> THEN "done" ELSE "run"]
AtCallback(v) == LET f == v.stk[Len(v.stk)] IN f.i = 0 \/ f.i > Len(f.n.ch)
VStep(v, fail) == LET L == Len(v.stk)  f == v.stk[L] IN
  IF f.i = 0 THEN VCall(v, "enter", f, [v.stk EXCEPT ![L].i = 1], fail)
  ELSE IF f.i <= Len(f.n.ch)
       THEN [v EXCEPT !.stk = Append([v.stk EXCEPT ![L].i = f.i + 1], Frame(f.n.ch[f.i], f.d + 1))]
       ELSE VCall(v, "leave", f, SubSeq(v.stk, 1, L - 1), fail)

\* P: what the statement promises about a visit of tree `want` in visit state v
VisitOk(v, want) == v.st = "idle" \/
  LET full == PVisit(want, 0)  br == Brackets(v.tr, <<>>) IN
  /\ br[1] /\ OneRoot(v.tr) /\ IsPrefix(v.tr, full)          \* in particular: cut at the failing callback
  /\ v.st = "run" => ~v.err /\ Len(v.tr) < Len(full)
  /\ v.st = "done" /\ v.err => v.tr # <<>>                     \* the error is returned; nothing was called after it
  /\ v.st = "done" /\ ~v.err => v.tr = full /\ br[2] = <<>>    \* complete, every enter matched
====
