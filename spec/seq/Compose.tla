---- MODULE Compose ----
(* internal/pipe (staged as github.com/fogfish/golem/purepipe): Pipe, Pipe3 .. Pipe20.

   P layer (what the statement promises): the function returned by PipeN returns f_N(...f_2(f_1(a))...); every
   supplied function is applied exactly once, in the order given, to the previous one's result.
       Composed(fam, n, a)            the promised return value
       P_CallLog(n, a, log)           the promised call log: exactly f_1 .. f_n, each fed the previous result

   I layer (the code is a hand-unrolled nested application): a counter `k` of functions applied so far and
   the value `acc` flowing through them;  Apply(i) is enabled only for i = k + 1 and replaces acc by F[i][acc].

   Two families of user functions, both pairwise non-commuting, so that a transposition, an omission or a
   duplication changes the final value (checked on the model: Sensitive):
       "seq"    F[i](x) = Append(x, i)                    on sequences of integers
       "arith"  F[i](x) = (x * (i*i + 1) + 2*i + 1) % Mod on 0 .. Mod-1 (Mod prime; x * 401 stays below 2^31)
   The Go harness supplies exactly these functions (same modulus). *)
EXTENDS Integers, Sequences

MaxN == 20
Mod == 1000003
Mul(i) == i * i + 1

Add(i) == 2 * i + 1
F(fam, i, x) == IF fam = "seq" THEN Append(x, i) ELSE (x * Mul(i) + Add(i)) % Mod

(* ------------------------------------------------------------------ P *)
RECURSIVE Composed(_, _, _)
Composed(fam, n, a) == IF n = 0 THEN a ELSE F(fam, n, Composed(fam, n - 1, a))

\* log: sequence of [i, arg, res] - the calls of the supplied functions observed during one invocation
P_CallLog(n, a, log) ==
  /\ Len(log) = n
  /\ \A j \in 1..Len(log) : log[j].i = j /\ log[j].arg = (IF j = 1 THEN a ELSE log[j - 1].res)

(* ------------------------------------------------------------------ I *)
\* Apply(i) of the state machines (ComposeMC, ComposeTrace): enabled only when i = k + 1; k' = i, acc' = F(fam, i, acc)
CanApply(i, k, n) == i = k + 1 /\ i <= n

(* the value obtained when the functions are applied in the order given by the index sequence `order` *)
RECURSIVE RunOrder(_, _, _)
RunOrder(fam, order, a) == IF order = <<>> THEN a
                           ELSE F(fam, order[Len(order)], RunOrder(fam, SubSeq(order, 1, Len(order) - 1), a))
Swap(n, j) == [x \in 1..n |-> IF x = j THEN j + 1 ELSE IF x = j + 1 THEN j ELSE x]
Omit(n, j) == [x \in 1..(n - 1) |-> IF x < j THEN x ELSE x + 1]
Dup(n, j) == [x \in 1..(n + 1) |-> IF x <= j THEN x ELSE x - 1]
\* any adjacent transposition, omission or duplication is visible in the final value for this argument
Sensitive(fam, n, a) ==
  LET good == Composed(fam, n, a) IN
  /\ \A j \in 1..(n - 1) : RunOrder(fam, Swap(n, j), a) # good
  /\ \A j \in 1..n : RunOrder(fam, Omit(n, j), a) # good
  /\ \A j \in 1..n : RunOrder(fam, Dup(n, j), a) # good
====
