---- MODULE Compose ----
(* internal/pipe (staged as github.com/fogfish/golem/purepipe): Pipe, Pipe3 .. Pipe20.

   P layer (what the statement promises): the function returned by PipeN returns f_N(...f_2(f_1(a))...); every
   supplied function is applied exactly once, in the order given, to the previous one's result.
       Composed(fam, n, a)            the promised return value
       P_CallLog(n, a, log)           the promised call log: exactly f_1 .. f_n, each fed the previous result

   I layer (the code is a hand-unrolled nested application): a counter `k` of functions applied so far and
   the value `acc` flowing through them;  Apply(i) is enabled only for i = k + 1 and replaces acc by F[i][acc].

   Two families of user functions, both pairwise non-commuting, so that a transposition, an omission or a
   duplication changes the final value (checked on the model: Sensitive):
       "seq"    F[i](x) = Append(x, i)                    on sequences of integers
       "arith"  F[i](x) = (x * (i*i + 1) + 2*i + 1) % Mod on 0 .. Mod-1 (Mod prime; x * 401 stays below 2^31)
   Four more families carry BOXED values (Go type `any`, and `error` for the err* variants), so that values that
   implement `error`, nil, typed nil pointers, NaN, zero values travel through the stages as ordinary data - a stage
   result is a value like any other, whatever it looks like.  A boxed value is a sequence <<kind, payload...>>:
       <<0>> nil      <<1, h...>> *histErr with history h (non-nil error)    <<2, v>> int v     <<3>> ""    <<4>> NaN
       <<5>> a nil *int      <<6>> a nil *histErr (a typed nil that implements error)    <<7, v>> noteErr{v} (an error
       by value)      <<8>> struct{}{}
       "anyhist" / "errhist"        F[i](x) = a NEW non-nil error whose history is the history of x followed by i
                                    (the history of a value that is not a *histErr starts with 100 + its kind)
       "anyspecial" / "errspecial"  F[i](x) = the special value number (i + kind of x) of a cycle through all kinds:
                                    every kind turns up as an intermediate result of some pipeline
   The Go harness supplies exactly these functions (same modulus, same encoding). *)
EXTENDS Integers, Sequences

MaxN == 20
Mod == 1000003
Mul(i) == i * i + 1

Add(i) == 2 * i + 1
HistFams == {"anyhist", "errhist"}
SpecialFams == {"anyspecial", "errspecial"}
Hist(x) == IF x[1] = 1 THEN Tail(x) ELSE <<100 + x[1]>> \o Tail(x)
AnyKinds == <<0, 5, 4, 3, 6, 7, 2, 8, 1>>
ErrKinds == <<0, 6, 7, 1>>
Special(ks, i, x) == LET kd == ks[((i + x[1]) % Len(ks)) + 1] IN
                     CASE kd = 7 -> <<7, i>> [] kd = 2 -> <<2, 0>> [] kd = 1 -> <<1, i>> [] OTHER -> <<kd>>
F(fam, i, x) == CASE fam = "seq" -> Append(x, i)
                  [] fam = "arith" -> (x * Mul(i) + Add(i)) % Mod
                  [] fam \in HistFams -> <<1>> \o Hist(x) \o <<i>>
                  [] fam = "anyspecial" -> Special(AnyKinds, i, x)
                  [] fam = "errspecial" -> Special(ErrKinds, i, x)
\* arguments of the boxed families: errors, nil, plain values, the special values themselves
AnyArgs == {<<0>>, <<1, 7>>, <<1>>, <<2, 5>>, <<2, 0>>, <<3>>, <<4>>, <<5>>, <<6>>, <<7, 3>>, <<8>>}
ErrArgs == {<<0>>, <<1, 7>>, <<1>>, <<6>>, <<7, 3>>}

(* ------------------------------------------------------------------ P *)
RECURSIVE Composed(_, _, _)
Composed(fam, n, a) == IF n = 0 THEN a ELSE F(fam, n, Composed(fam, n - 1, a))

\* log: sequence of [i, arg, res] - the calls of the supplied functions observed during one invocation
P_CallLog(n, a, log) ==
  /\ Len(log) = n
  /\ \A j \in 1..Len(log) : log[j].i = j /\ log[j].arg = (IF j = 1 THEN a ELSE log[j - 1].res)

(* ------------------------------------------------------------------ I *)
\* Apply(i) of the state machines (ComposeMC, ComposeTrace): enabled only when i = k + 1; k' = i, acc' = F(fam, i, acc)
CanApply(i, k, n) == i = k + 1 /\ i <= n

(* the value obtained when the functions are applied in the order given by the index sequence `order` *)
RECURSIVE RunOrder(_, _, _)
RunOrder(fam, order, a) == IF order = <<>> THEN a
                           ELSE F(fam, order[Len(order)], RunOrder(fam, SubSeq(order, 1, Len(order) - 1), a))
Swap(n, j) == [x \in 1..n |-> IF x = j THEN j + 1 ELSE IF x = j + 1 THEN j ELSE x]
Omit(n, j) == [x \in 1..(n - 1) |-> IF x < j THEN x ELSE x + 1]
Dup(n, j) == [x \in 1..(n + 1) |-> IF x <= j THEN x ELSE x - 1]
\* any adjacent transposition, omission or duplication is visible in the final value for this argument
Sensitive(fam, n, a) ==
  LET good == Composed(fam, n, a) IN
  /\ \A j \in 1..(n - 1) : RunOrder(fam, Swap(n, j), a) # good
  /\ \A j \in 1..n : RunOrder(fam, Omit(n, j), a) # good
  /\ \A j \in 1..n : RunOrder(fam, Dup(n, j), a) # good
====
