---- MODULE SkipListTrace ----
(* Trace validation for the skip list (impl -> spec), batched: Traces is a sequence of recorded histories
   (random heights, unhooked constructor).  One TLC run explores every trace independently (Init chooses ti).
     TRACE-P  every result and every printed form is judged by the P predicates of SkipList (ordered map):
              a failing predicate is *printed* ({"t":"PVIOL",...}) and validation goes on;
     TRACE-I  the structure record is advanced with the spec's own PutS/RemoveS, the unlogged height being
              inferred from the logged form; the first step whose logged form differs from the model's is
              printed ({"t":"DRIFT",...}) and the I layer stops following that trace (P continues). *)
EXTENDS Integers, Sequences, FiniteSets, TLC, Json, IOUtils

Batch == JsonDeserialize(IOEnv.TRACE_FILE)
Traces == Batch.traces
TrKeys == 1..Batch.keys
TrLevels == Batch.levels

VARIABLES ti, i, amap, pmap, st, drift, order
vars == <<ti, i, amap, pmap, st, drift, order>>

Asc == INSTANCE SkipList WITH Keys <- TrKeys, Vals <- {1, 2, 3}, Levels <- TrLevels, Order <- "asc"
Desc == INSTANCE SkipList WITH Keys <- TrKeys, Vals <- {1, 2, 3}, Levels <- TrLevels, Order <- "desc"

Steps == Traces[ti].steps
FormOf(s) == [j \in 1..Len(s.form) |-> [k |-> s.form[j][1], f |-> s.form[j][2]]]
\* height of key k in a logged form (0 when absent)
HeightIn(form, k) == LET js == {j \in 2..Len(form) : form[j].k = k} IN IF js = {} THEN 0 ELSE Len(form[CHOOSE j \in js : TRUE].f)
\* the logged head may show fewer levels than TrLevels: pad with NIL before comparing
Pad(form) == [j \in 1..Len(form) |-> IF j = 1 THEN [k |-> 0, f |-> [l \in 1..TrLevels |-> IF l <= Len(form[1].f) THEN form[1].f[l] ELSE -1]] ELSE form[j]]

Init == /\ ti \in 1..Len(Traces) /\ i = 1 /\ amap = << >> /\ pmap = << >> /\ drift = 0
        /\ order = Traces[ti].order
        /\ st = Asc!EmptySt

NextSt(s, o) == LET f == FormOf(s) h == HeightIn(f, s.k) IN
   IF o = "asc"
   THEN CASE s.op = "put" -> Asc!PutS(st, s.k, s.v, IF h = 0 THEN 1 ELSE h)
          [] s.op = "remove" -> Asc!RemoveS(st, s.k)
          [] OTHER -> st
   ELSE CASE s.op = "put" -> Desc!PutS(st, s.k, s.v, IF h = 0 THEN 1 ELSE h)
          [] s.op = "remove" -> Desc!RemoveS(st, s.k)
          [] OTHER -> st
ModelForm(s2, o) == IF o = "asc" THEN Asc!Form(s2) ELSE Desc!Form(s2)

Step == /\ i <= Len(Steps)
        /\ LET s == Steps[i] IN
           /\ amap' = CASE s.op = "put" -> Asc!MPut(amap, s.k, s.v)
                        [] s.op = "remove" -> Asc!MDel(amap, s.k)
                        [] OTHER -> amap
           /\ pmap' = amap
           /\ IF drift > 0 THEN UNCHANGED <<st, drift>>
              ELSE LET n == NextSt(s, order) IN
                   /\ st' = n
                   /\ drift' = IF ModelForm(n, order) # Pad(FormOf(s)) THEN i ELSE 0
        /\ i' = i + 1 /\ UNCHANGED <<ti, order>>
Next == Step

(* ---- judging: evaluated in the state reached after consuming step i-1 *)
Prev == Steps[i - 1]
Failing ==
  IF i = 1 THEN {} ELSE
  LET s == Prev  f == FormOf(s)  before == pmap IN
    (IF s.op \in {"get", "remove"} /\ s.ret # Asc!MGet(before, s.k) THEN {"Result"} ELSE {})
    \cup (IF order = "asc" THEN (IF Asc!P_FormAscending(f, amap) THEN {} ELSE {"FormAscending"})
                           ELSE (IF Desc!P_FormAscending(f, amap) THEN {} ELSE {"FormAscending"}))
    \cup (IF order = "asc" THEN (IF Asc!P_FormForwardOnly(f) THEN {} ELSE {"FormForwardOnly"})
                           ELSE (IF Desc!P_FormForwardOnly(f) THEN {} ELSE {"FormForwardOnly"}))
Judge ==
  /\ (Failing # {} => PrintT(ToJson([t |-> "PVIOL", ti |-> ti, step |-> i - 1, preds |-> Failing])))
  /\ (drift > 0 /\ drift = i - 1 => PrintT(ToJson([t |-> "DRIFT", ti |-> ti, step |-> i - 1])))
  /\ (i = Len(Steps) + 1 => PrintT(ToJson([t |-> "DONE", ti |-> ti, steps |-> Len(Steps), drift |-> drift])))
====
