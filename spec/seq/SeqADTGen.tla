---- MODULE SeqADTGen ----
(* Script generator for C19 (spec -> impl): every script of <= MaxOps operations, printed with the register
   contents the P layer promises after every step.  NewSet fixes the arguments of New: Cons brings in every value. *)
EXTENDS SeqADT, Json
CONSTANTS Vals, MaxOps, NewSet
VARIABLES p, hist
NewArgs == IF NewSet = "full" THEN UNION {[1..m -> Vals] : m \in 0..2}
           ELSE {<<>>, <<1>>, <<2, 3>>, <<3, 1, 2>>}
Ops == {[op |-> "new", i |-> i, j |-> 0, x |-> 0, xs |-> xs] : i \in Regs, xs \in NewArgs}
       \cup {[op |-> "cons", i |-> i, j |-> j, x |-> x, xs |-> <<>>] : i \in Regs, j \in Regs, x \in Vals}
       \cup {[op |-> "tail", i |-> i, j |-> j, x |-> 0, xs |-> <<>>] : i \in Regs, j \in Regs}
Init == p = PEmpty /\ hist = <<>>
Next == /\ Len(hist) < MaxOps
        /\ \E o \in Ops : /\ Enabled(p, o)
                          /\ p' = PApply(p, o)
                          /\ hist' = Append(hist, [op |-> o.op, i |-> o.i, j |-> o.j, x |-> o.x, xs |-> o.xs, after |-> PApply(p, o),
                                                 lin |-> [r \in Regs |-> FoldL("lin", PApply(p, o)[r])]])
Emit == hist # <<>> => PrintT(ToJson([t |-> "case", hist |-> hist]))
====
