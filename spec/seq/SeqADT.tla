---- MODULE SeqADT ----
(* internal/seq: the list trait and the slice trait as one persistent sequence ADT (C19).

   A script works on three registers (r0..r2 in the harness, 1..3 here), all empty at the start:
       new(i, xs)      r_i := New(xs...)
       cons(i, x, j)   r_i := Cons(x, r_j)
       tail(i, j)      r_i := Tail(r_j)         only when r_j is not empty: Head / Tail of an empty sequence panic
                                                in both implementations and the statement is silent about them
   and observes Head / Length / IsEmpty / Fold of every register after every step.

   P layer: registers hold mathematical sequences; PApply gives the element lists the statement promises; the
   observers are Len, = <<>>, first element and a left fold from the monoid's empty element.  Two monoids make
   order, grouping, argument order and the start value visible:
       "lin"  on integers     Empty = 1,     Combine(x, y) = (2x + y) mod 1000003   (non-commutative, non-associative)
       "cat"  on strings      Empty = "^",   Combine = concatenation    (sequence append; here: code 0, then the elements)
   I layer (implementation shaped):
       list   immutable cons cells [head, tail] in a heap that only grows, a register = [len, ptr] with the
              length cached as in the code; Tail = [len - 1, cell.tail]
       slice  backing arrays in a heap that only grows, a register = [base, off, len, cap];
              Cons = `append([]A{x}, seq...)`: a fresh one-element array, and when seq is not empty a second fresh
              array of 1 + len (+ spare, the runtime's size-class rounding) cells - never the argument's array;
              Tail = `seq[1:]`: same base, off + 1, nothing written. *)
EXTENDS Integers, Sequences, FiniteSets, TLC

Regs == 1..3

(* ------------------------------------------------------------------ P *)
Enabled(r, o) == o.op = "tail" => r[o.j] # <<>>
PApply(r, o) == CASE o.op = "new" -> [r EXCEPT ![o.i] = o.xs]
                  [] o.op = "cons" -> [r EXCEPT ![o.i] = <<o.x>> \o r[o.j]]
                  [] o.op = "tail" -> [r EXCEPT ![o.i] = Tail(r[o.j])]
PEmpty == [i \in Regs |-> <<>>]

LinMod == 1000003
Combine(m, x, y) == IF m = "lin" THEN (2 * x + y) % LinMod ELSE Append(x, y)
EmptyOf(m) == IF m = "lin" THEN 1 ELSE <<0>>
RECURSIVE FoldFrom(_, _, _, _)
\* left fold, element by element from the first (by index: sequences of a thousand elements are folded too)
FoldFrom(m, acc, s, i) == IF i > Len(s) THEN acc ELSE FoldFrom(m, Combine(m, acc, s[i]), s, i + 1)
FoldL(m, s) == FoldFrom(m, EmptyOf(m), s, 1)
\* the same value without rebuilding the accumulator at every element (SeqADTMC checks FoldFast = FoldL on every
\* reachable register): used to judge recorded observations of long sequences
FoldFast(m, s) == IF m = "cat" THEN EmptyOf("cat") \o s ELSE FoldL(m, s)

\* what a user can observe of one register: obs = [elems, len, empty, head (0 when empty: not asked), lin / cat]
P_Observation(s, obs, m) ==
  (IF obs.elems = s THEN {} ELSE {"Elements"})
  \cup (IF obs.len = Len(s) THEN {} ELSE {"Length"})
  \cup (IF obs.empty = (Len(s) = 0) THEN {} ELSE {"IsEmpty"})
  \cup (IF s = <<>> \/ obs.head = s[1] THEN {} ELSE {"Head"})
  \cup (IF obs.fold = FoldFast(m, s) THEN {} ELSE {"Fold"})

(* ------------------------------------------------------------------ I: list *)
LInit == [cells |-> <<>>, reg |-> [i \in Regs |-> [len |-> 0, ptr |-> 0]]]
RECURSIVE LBuild(_, _, _, _)
\* New: `for i := len(seq)-1; i >= 0; i-- { tail = &list{seq[i], tail} }`
LBuild(cells, xs, k, tl) == IF k = 0 THEN [cells |-> cells, ptr |-> tl]
                            ELSE LBuild(Append(cells, [head |-> xs[k], tail |-> tl]), xs, k - 1, Len(cells) + 1)
LApply(st, o) ==
  CASE o.op = "new" -> LET b == LBuild(st.cells, o.xs, Len(o.xs), 0) IN
                       [cells |-> b.cells, reg |-> [st.reg EXCEPT ![o.i] = [len |-> Len(o.xs), ptr |-> b.ptr]]]
    [] o.op = "cons" -> [cells |-> Append(st.cells, [head |-> o.x, tail |-> st.reg[o.j].ptr]),
                         reg |-> [st.reg EXCEPT ![o.i] = [len |-> st.reg[o.j].len + 1, ptr |-> Len(st.cells) + 1]]]
    [] o.op = "tail" -> [cells |-> st.cells,
                         reg |-> [st.reg EXCEPT ![o.i] = [len |-> st.reg[o.j].len - 1, ptr |-> st.cells[st.reg[o.j].ptr].tail]]]
LHead(st, j) == st.cells[st.reg[j].ptr].head
LLength(st, j) == st.reg[j].len
LIsEmpty(st, j) == st.reg[j].len = 0
RECURSIVE LWalk(_, _, _)
\* the Head / Tail / IsEmpty loop of Foldable.Fold and of the harness' extraction: driven by the cached length
LWalk(cells, ptr, n) == IF n = 0 THEN <<>> ELSE <<cells[ptr].head>> \o LWalk(cells, cells[ptr].tail, n - 1)
LElems(st, j) == LWalk(st.cells, st.reg[j].ptr, st.reg[j].len)
RECURSIVE LChain(_, _)
LChain(cells, ptr) == IF ptr = 0 THEN {} ELSE {ptr} \cup LChain(cells, cells[ptr].tail)
LStructOK(st) == \A j \in Regs : Cardinality(LChain(st.cells, st.reg[j].ptr)) = st.reg[j].len
LShare(st) == [i \in Regs |-> [j \in Regs |-> Cardinality(LChain(st.cells, st.reg[i].ptr) \cap LChain(st.cells, st.reg[j].ptr))]]

(* ------------------------------------------------------------------ I: slice *)
SInit == [arrs |-> <<>>, reg |-> [i \in Regs |-> [base |-> 0, off |-> 0, len |-> 0, cap |-> 0]]]
SElems(st, j) == LET s == st.reg[j] IN IF s.len = 0 THEN <<>> ELSE SubSeq(st.arrs[s.base], s.off + 1, s.off + s.len)
\* spare: extra zero cells the runtime may add when append has to grow (never when the argument is empty)
SApply(st, o, spare) ==
  CASE o.op = "new" -> IF o.xs = <<>> THEN [arrs |-> st.arrs, reg |-> [st.reg EXCEPT ![o.i] = [base |-> 0, off |-> 0, len |-> 0, cap |-> 0]]]
                       ELSE [arrs |-> Append(st.arrs, o.xs),
                             reg |-> [st.reg EXCEPT ![o.i] = [base |-> Len(st.arrs) + 1, off |-> 0, len |-> Len(o.xs), cap |-> Len(o.xs)]]]
    [] o.op = "cons" -> LET old == SElems(st, o.j)
                            sp == IF old = <<>> THEN 0 ELSE spare
                            arr == <<o.x>> \o old \o [k \in 1..sp |-> 0] IN
                        [arrs |-> Append(st.arrs, arr),
                         reg |-> [st.reg EXCEPT ![o.i] = [base |-> Len(st.arrs) + 1, off |-> 0, len |-> Len(old) + 1, cap |-> Len(arr)]]]
    [] o.op = "tail" -> LET s == st.reg[o.j] IN
                        [arrs |-> st.arrs,
                         reg |-> [st.reg EXCEPT ![o.i] = [base |-> s.base, off |-> s.off + 1, len |-> s.len - 1, cap |-> s.cap - 1]]]
SHead(st, j) == st.arrs[st.reg[j].base][st.reg[j].off + 1]
SLength(st, j) == st.reg[j].len
SIsEmpty(st, j) == st.reg[j].len = 0
SStructOK(st) == \A j \in Regs : LET s == st.reg[j] IN
                    /\ s.len >= 0 /\ s.len <= s.cap
                    /\ (s.base # 0 => s.off + s.cap = Len(st.arrs[s.base]))
                    /\ (s.base = 0 => s.len = 0 /\ s.cap = 0)
\* which registers look into the same array, and how far apart
\* (a window of capacity 0 points nowhere: Go keeps no pointer past the end of an array)
SShare(st) == [i \in Regs |-> [j \in Regs |-> IF st.reg[i].cap > 0 /\ st.reg[j].cap > 0 /\ st.reg[i].base = st.reg[j].base
                                               THEN st.reg[i].off - st.reg[j].off ELSE -1000]]
SSpare(st) == [i \in Regs |-> st.reg[i].cap - st.reg[i].len]

(* ------------------------------------------------------------------ the statement's laws, one step ahead of any state *)
\* for every register pair and value: what Cons / Tail / New would produce from this very state
LLaws(st, Vals) ==
  /\ \A i \in Regs, j \in Regs, x \in Vals :
       LET t == LApply(st, [op |-> "cons", i |-> i, j |-> j, x |-> x, xs |-> <<>>]) IN
       /\ LHead(t, i) = x
       /\ LElems(LApply(t, [op |-> "tail", i |-> i, j |-> i, x |-> 0, xs |-> <<>>]), i) = LElems(st, j)
       /\ LLength(t, i) = LLength(st, j) + 1
       /\ \A k \in Regs \ {i} : LElems(t, k) = LElems(st, k)                               \* persistence
  /\ \A i \in Regs, j \in Regs : ~LIsEmpty(st, j) =>
       LET t == LApply(st, [op |-> "tail", i |-> i, j |-> j, x |-> 0, xs |-> <<>>]) IN
       \A k \in Regs \ {i} : LElems(t, k) = LElems(st, k)
  /\ \A j \in Regs : LIsEmpty(st, j) = (LLength(st, j) = 0)
SLaws(st, Vals, Spares) ==
  /\ \A i \in Regs, j \in Regs, x \in Vals, sp \in Spares :
       LET t == SApply(st, [op |-> "cons", i |-> i, j |-> j, x |-> x, xs |-> <<>>], sp) IN
       /\ SHead(t, i) = x
       /\ SElems(SApply(t, [op |-> "tail", i |-> i, j |-> i, x |-> 0, xs |-> <<>>], 0), i) = SElems(st, j)
       /\ SLength(t, i) = SLength(st, j) + 1
       /\ \A k \in Regs \ {i} : SElems(t, k) = SElems(st, k)
  /\ \A i \in Regs, j \in Regs : ~SIsEmpty(st, j) =>
       LET t == SApply(st, [op |-> "tail", i |-> i, j |-> j, x |-> 0, xs |-> <<>>], 0) IN
       \A k \in Regs \ {i} : SElems(t, k) = SElems(st, k)
  /\ \A j \in Regs : SIsEmpty(st, j) = (SLength(st, j) = 0)
====
