---- MODULE ComposeMC ----
(* Exhaustive model + behaviour generator for C20: every (family, N, argument) of the domain, the I-level
   machine (k, acc, log) stepped with Apply(k+1); invariants: I refines P after every step, the call log of a
   finished run is the promised one, the families are sensitive to transposition / omission / duplication.
   Emit prints the expected final value for every finished run (spec -> impl). *)
EXTENDS Compose, FiniteSets, TLC, Json
CONSTANTS IntTop,     \* arith arguments: 0..IntTop and the three largest residues
          SeqLen      \* seq arguments: every sequence over {21, 22} of length <= SeqLen
VARIABLES fam, n, a, k, acc, log
vars == <<fam, n, a, k, acc, log>>

IntArgs == (0..IntTop) \cup {Mod - 1, Mod - 2, Mod \div 2}
SeqArgs == UNION {[1..m -> {21, 22}] : m \in 0..SeqLen}

Init == /\ fam \in {"seq", "arith", "anyhist", "errhist", "anyspecial", "errspecial"} /\ n \in 2..MaxN
        /\ a \in (CASE fam = "seq" -> SeqArgs [] fam = "arith" -> IntArgs
                     [] fam \in {"anyhist", "anyspecial"} -> AnyArgs [] fam \in {"errhist", "errspecial"} -> ErrArgs)
        /\ k = 0 /\ acc = a /\ log = <<>>
Apply(i) == /\ CanApply(i, k, n)
            /\ k' = i /\ acc' = F(fam, i, acc)
            /\ log' = Append(log, [i |-> i, arg |-> acc, res |-> F(fam, i, acc)])
            /\ UNCHANGED <<fam, n, a>>
Next == \E i \in 1..MaxN : Apply(i)
Spec == Init /\ [][Next]_vars

Refines == acc = Composed(fam, k, a)
LogPromised == k = n => P_CallLog(n, a, log)
\* (the special families forget the history on purpose: for them the call log alone decides)
FamiliesSensitive == k = 0 /\ fam \notin SpecialFams => Sensitive(fam, n, a)
\* the err* families never leave the values that implement error (or nil): they can be typed func(error) error
ErrTyped == fam \in {"errhist", "errspecial"} => acc[1] \in {0, 1, 6, 7}
InRange == fam = "arith" => acc \in 0..(Mod - 1)
Emit == k = n => PrintT(ToJson([t |-> "case", fam |-> fam, n |-> n, a |-> a, want |-> acc]))
====
