---- MODULE PairIterGen ----
(* IterGen over the two-kind universe of PairIter; items of pair kind are printed as [k, v]. *)
EXTENDS PairIter, IterGen
PairBaseT == PairBase(Shape, Width)
PairWrapsT(tag, e) == PairWraps(tag, e, Shape, Width)

PGrid == <<<<11, 1>>, <<12, 2>>, <<13, 3>>, <<1, 11>>, <<2, 12>>, <<0, 0>>, <<3, 3>>, <<10, -2>>, <<-1, 4>>, <<22, 2>>, <<5, 6>>>>
PairTables == [t |-> "tables", kind |-> "pair", grid |-> PGrid, lo |-> TblLo,
               ppreds |-> [p \in PPreds |-> [i \in 1..Len(PGrid) |-> PP(p, PGrid[i][1], PGrid[i][2])]],
               pmaps |-> [m \in PMaps |-> [i \in 1..Len(PGrid) |-> PMv(m, PGrid[i][1], PGrid[i][2])]],
               pjoins |-> [j \in PJoins |-> [i \in 1..Len(PGrid) |-> PJ(j, PGrid[i][1], PGrid[i][2])]],
               tjoins |-> [j \in TJoins |-> [i \in 1..Len(PGrid) |-> TJ(j, PGrid[i][1], PGrid[i][2])]],
               fjoins |-> [j \in FJoins |-> [i \in 1..TblN |-> FJ(j, TblLo + i - 1)]]]
ASSUME PrintT(ToJson(PairTables))
====
