---- MODULE IterMC ----
(* Exhaustive model: every expression of the universe is built once (Construct) and drained by the documented
   loop, one Value/Next per step; the I layer (cursor states as coded) must produce the P layer (list semantics).
   The universe is given by a set of tagged base expressions and their wrappings (see Iter / PairIter). *)
EXTENDS Iter
CONSTANTS Shape, Width,   \* which expressions are explored: "d1" | "d2" | "d3" over the "small" | "wide" slice set
          BaseSet, WrapsOf(_, _)   \* bound in the cfg to SeqBaseT / SeqWrapsT (C14) or PairBaseT / PairWrapsT (C15, PairIterMC)
VARIABLES expr, st, out, has, phase,
          want      \* Sem(expr), evaluated once when the expression is complete
vars == <<expr, st, out, has, phase, want>>

SeqBaseT == SeqBase(Shape, Width)
SeqWrapsT(tag, e) == SeqWraps(tag, e, Shape, Width)

Running == phase \in {"seq", "pair"}
Init == /\ \E b \in BaseSet : phase = b[1] /\ expr = b[2]
        /\ st = Nil /\ out = <<>> /\ has = FALSE /\ want = <<>>
Wrap == /\ ~Running
        /\ \E w \in WrapsOf(phase, expr) : phase' = w[1] /\ expr' = w[2]
        /\ out' = <<>>
        /\ IF phase' \in {"seq", "pair"}
           THEN st' = Construct(expr')[1] /\ has' = (st' # Nil) /\ want' = Sem(expr')
           ELSE UNCHANGED <<st, has, want>>
Step == /\ Running /\ has
        /\ LET n == Next(st) IN
           /\ out' = Append(out, Value(st)[1])
           /\ st' = n[2]
           /\ has' = n[1]
        /\ UNCHANGED <<expr, phase, want>>
Next1 == Wrap \/ Step
Spec == Init /\ [][Next1]_vars

ListSemantics == Running /\ ~has => out = want
PrefixAlways == Running => Len(out) <= Len(want) /\ SubSeq(want, 1, Len(out)) = out
NilIffEmpty == Running /\ Len(out) = 0 => (has <=> want # <<>>)      \* an empty result is the nil iterator
SourcesUntouched == SliceViewsOK(st)
\* evaluated once per expression (in its final state): ForEach as coded = the list cut after the failing callback;
\* the one-value form of the loop (used by the generator and the trace spec) is the same drain
ForEachStops == Running /\ ~has =>
                  /\ \A k \in 0..Len(want) : ForEachI(expr, k) = ForEachL(want, k)
                  /\ Values(Run(expr).steps) = want
====
