---- MODULE IterMC ----
(* Exhaustive model: every expression of the universe is built once (Construct) and drained by the documented
   loop, one Value/Next per step; the I layer (cursor states as coded) must produce the P layer (list semantics).
   The universe is given by a set of tagged base expressions and their wrappings (see Iter / PairIter). *)
EXTENDS Iter
CONSTANTS Shape, Width,   \* which expressions are explored: "d1" | "d2" | "d3" over the "small" | "wide" slice set
          BaseSet, WrapsOf(_, _)   \* bound in the cfg to SeqBaseT / SeqWrapsT (C14) or PairBaseT / PairWrapsT (C15, PairIterMC)
VARIABLES expr, st, out, has, phase
vars == <<expr, st, out, has, phase>>

SeqBaseT == SeqBase(Shape, Width)
SeqWrapsT(tag, e) == SeqWraps(tag, e, Shape, Width)

Init == /\ \E b \in BaseSet : phase = b[1] /\ expr = b[2]
        /\ st = Nil /\ out = <<>> /\ has = FALSE
Wrap == /\ phase \notin {"seq", "pair"}
        /\ \E w \in WrapsOf(phase, expr) : phase' = w[1] /\ expr' = w[2]
        /\ st' = Construct(expr')[1]
        /\ out' = <<>>
        /\ has' = (st' # Nil)
Step == /\ phase \in {"seq", "pair"} /\ has
        /\ LET n == Next(st) IN
           /\ out' = Append(out, Value(st)[1])
           /\ st' = n[2]
           /\ has' = n[1]
        /\ UNCHANGED <<expr, phase>>
Next1 == Wrap \/ Step
Spec == Init /\ [][Next1]_vars

Running == phase \in {"seq", "pair"}
ListSemantics == Running /\ ~has => out = Sem(expr)
PrefixAlways == Running => Len(out) <= Len(Sem(expr)) /\ SubSeq(Sem(expr), 1, Len(out)) = out
NilIffEmpty == Running /\ Len(out) = 0 => (has <=> Sem(expr) # <<>>)      \* an empty result is the nil iterator
SourcesUntouched == SliceViewsOK(st)
\* evaluated once per expression (in its final state): ForEach as coded = the list cut after the failing callback;
\* the one-value form of the loop (used by the generator and the trace spec) is the same drain
ForEachStops == Running /\ ~has =>
                  /\ \A k \in 0..Len(Sem(expr)) : ForEachI(expr, k) = ForEachL(Sem(expr), k)
                  /\ Values(Run(expr).steps) = Sem(expr)
====
