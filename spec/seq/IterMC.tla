---- MODULE IterMC ----
(* Exhaustive model: every expression of the universe is built once (Construct) and drained by the documented
   loop, one Value/Next per step; the I layer (cursor states as coded) must produce the P layer (list semantics). *)
EXTENDS Iter
CONSTANTS Universe      \* the set of expressions explored (bound in the cfg to SeqSmall / SeqWide / SeqDeep / ...)
VARIABLES expr, st, out, has
vars == <<expr, st, out, has>>

Init == /\ expr \in Universe
        /\ st = Construct(expr)[1]
        /\ out = <<>>
        /\ has = (st # Nil)
Step == /\ has
        /\ LET n == Next(st) IN
           /\ out' = Append(out, Value(st)[1])
           /\ st' = n[2]
           /\ has' = n[1]
        /\ UNCHANGED expr
Spec == Init /\ [][Step]_vars

ListSemantics == ~has => out = Sem(expr)
PrefixAlways == Len(out) <= Len(Sem(expr)) /\ SubSeq(Sem(expr), 1, Len(out)) = out
NilIffEmpty == Len(out) = 0 => (has <=> Sem(expr) # <<>>)      \* an empty result is the nil iterator
SourcesUntouched == SliceViewsOK(st)
\* evaluated in the initial state of every expression: ForEach as coded = the list cut after the failing callback,
\* and the one-value form of the loop (used by the generator and the trace spec) is the same drain
ForEachStops == Len(out) = 0 =>
                  /\ \A k \in 0..Len(Sem(expr)) : ForEachI(expr, k) = ForEachL(Sem(expr), k)
                  /\ Values(Run(expr).steps) = Sem(expr)
====
