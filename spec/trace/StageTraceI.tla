---- MODULE StageTraceI ----
(* TRACE-I (the binding of Stage.tla to the code): every execution recorded from the real stage must be a behaviour of
   the implementation-shaped model.  Each window is  command ; library steps ; quiescence :
     - the command is the model's environment action with the logged arguments,
     - every logged completion (sent / got / call) is matched by ONE library step of the model whose effect on the
       observation record is exactly that completion; the library steps nobody can observe are inferred (silent steps),
     - the window ends only when no library step is enabled in the model (the harness saw every goroutine durably
       blocked) and the logged snapshot - buffer lengths, number of live library goroutines - equals the model's.
   Batched like PipeTraceP: Init chooses the trace; an always-true invariant prints the high-water mark of each trace
   ({"t":"HW","ti":..,"w":..}) so that the orchestrator knows which traces were fully explained and, for the others, the
   first window the model cannot explain.  A rejected trace is SPEC-DRIFT (the code no longer follows this model), never
   a violation. *)
EXTENDS Stage, Json, IOUtils

Batch == JsonDeserialize(IOEnv.TRACE_FILE)
Traces == Batch.traces
Norm(c) == [c EXCEPT !.fail = P!Range(c.fail), !.pred = P!Range(c.pred)]
TrCfgs == {Norm(Traces[i].cfg) : i \in DOMAIN Traces}

VARIABLES ti, w, phase, rem
tvars == <<ti, w, phase, rem>>
TView == <<cfg, ch, wk, cl, se, env, obs, ti, w, phase, rem>>
Win == Traces[ti].wins[w]

TInit == /\ ti \in DOMAIN Traces /\ Init /\ cfg = Norm(Traces[ti].cfg)
         /\ w = 1 /\ phase = "run" /\ rem = DOMAIN Traces[ti].wins[1].done

NoEnv == UNCHANGED <<cfg, ch, wk, cl, se, env, obs, sched>>
TCmd == /\ phase = "cmd" /\ w <= Len(Traces[ti].wins)
        /\ phase' = "run" /\ rem' = DOMAIN Win.done /\ UNCHANGED <<ti, w>>
        /\ LET c == Win.cmd IN
           IF Win.skipped \/ c.c \in {"advance", "init"} THEN NoEnv
           ELSE CASE c.c = "send" -> EnvSend /\ Input[env.sidx] = c.v
                  [] c.c = "close" -> EnvClose
                  [] c.c = "recv" -> EnvRecv(c.o)
                  [] c.c = "cancel" -> EnvCancel
                  [] c.c = "release" -> (\E k \in W : EnvRelease(k) /\ (c.x = -1 \/ wk[k].a = c.x)) \/ ((c.x = -1 \/ cl.x = c.x) /\ EnvReleaseC)
                  [] OTHER -> FALSE
\* the effect of one library step on the observation record is exactly the logged completion e
Matches(e, o, o2) ==
  CASE e.e = "sent" -> o2 = [o EXCEPT !.sent = Append(@, e.v)]
    [] e.e = "got" /\ e.ok -> o2 = [o EXCEPT !.got[e.o] = Append(@, e.v)]
    [] e.e = "got" /\ ~e.ok -> o2 = [o EXCEPT !.seen[e.o] = TRUE] /\ ~o.seen[e.o]
    [] e.e = "call" -> o2 = [o EXCEPT !.calls = Append(@, [a |-> e.a, x |-> e.x, at |-> 0])]
    [] OTHER -> FALSE
Consume == /\ phase = "run" /\ Lib
           /\ \E i \in rem : Matches(Win.done[i], obs, obs') /\ rem' = rem \ {i}
           /\ UNCHANGED <<ti, w, phase>>
Silent == phase = "run" /\ Lib /\ obs' = obs /\ UNCHANGED tvars
Quiesce == /\ phase = "run" /\ rem = {} /\ ~ENABLED Lib
           /\ Win.q.live = LiveCount
           /\ Win.q.inLen[1] = Len(ch["in"].buf)
           /\ \A o \in Outs : Win.q.outLen[o] = Len(ch[o].buf)
           /\ w' = w + 1 /\ phase' = "cmd" /\ rem' = {} /\ UNCHANGED <<ti>> /\ NoEnv
TNext == TCmd \/ Consume \/ Silent \/ Quiesce
TSpec == TInit /\ [][TNext]_<<vars, tvars>>

HighWater == (phase = "cmd") => PrintT(ToJson([t |-> "HW", ti |-> ti, w |-> w - 1, n |-> Len(Traces[ti].wins)]))
====
