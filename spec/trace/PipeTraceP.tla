---- MODULE PipeTraceP ----
(* TRACE-P for the pipe / fork family: executions recorded from the real code (harness/pipedrv) are folded, window by
   window, into the observation record of PipeProps and every predicate is evaluated after every window.  A failing
   predicate is printed ({"t":"PVIOL","ti":..,"w":..,"preds":[..]}) and judging goes on, so one TLC run lists every
   violating trace of the batch.  The batch file is named by the environment variable TRACE_FILE:
       {"traces": [ {"cfg": {...}, "outs": [...], "wins": [ {"cmd":{..}, "skipped":b, "done":[..], "q":{..}} ... ], "crash": b } ... ]} *)
EXTENDS Integers, Sequences, FiniteSets, TLC, Json, IOUtils
P == INSTANCE PipeProps

Batch == JsonDeserialize(IOEnv.TRACE_FILE)
Traces == Batch.traces

VARIABLES ti, w, obs, ex
vars == <<ti, w, obs, ex>>

Tr == Traces[ti]
RawCfg == Tr.cfg
NormSets(c) == [c EXCEPT !.fail = P!Range(c.fail), !.pred = P!Range(c.pred)]
Cfg == [NormSets(RawCfg) EXCEPT !.stages = [i \in DOMAIN RawCfg.stages |-> NormSets(RawCfg.stages[i])]]
Outs == P!Range(Tr.outs)
NIn == Tr.nin

Obs0 == [sent |-> [i \in 1..NIn |-> <<>>], pend |-> [i \in 1..NIn |-> <<>>], closed |-> [i \in 1..NIn |-> FALSE],
         sentAt |-> [i \in 1..NIn |-> <<>>],
         cancelled |-> FALSE, cancelAt |-> 0, lastEnvAt |-> 0, sentAtCancel |-> [i \in 1..NIn |-> <<>>], gotAtCancel |-> [o \in Outs |-> 0],
         got |-> [o \in Outs |-> <<>>], gotAt |-> [o \in Outs |-> <<>>], recvAt |-> [o \in Outs |-> <<>>],
         seen |-> [o \in Outs |-> FALSE], rp |-> [o \in Outs |-> FALSE],
         calls |-> <<>>, pending |-> 0, inLen |-> [i \in 1..NIn |-> 0], live |-> 0, now |-> 0, panic |-> FALSE,
         quiet |-> TRUE, outs |-> Outs]

\* the command of a window (nothing happens for a skipped one)
ApplyOne(o0, c, skipped) ==
  IF skipped THEN o0 ELSE
  LET o == IF c.c \in {"advance", "init"} THEN o0 ELSE [o0 EXCEPT !.lastEnvAt = o0.now] IN
  CASE c.c = "send" -> [o EXCEPT !.pend[c.i + 1] = <<c.v>>]
    [] c.c = "close" -> [o EXCEPT !.closed[c.i + 1] = TRUE]
    [] c.c \in {"recv", "recvall"} -> [o EXCEPT !.rp[c.o] = TRUE, !.recvAt[c.o] = Append(@, o.now)]
    [] c.c = "cancel" -> [o EXCEPT !.cancelled = TRUE, !.cancelAt = o.now, !.sentAtCancel = o.sent,
                                   !.gotAtCancel = [x \in Outs |-> Len(o.got[x])]]
    [] c.c = "release" -> [o EXCEPT !.pending = @ - 1]
    [] OTHER -> o
\* a burst is a sequence of commands issued back to back (no quiescence in between)
RECURSIVE ApplySub(_,_)
ApplySub(o, cs) == IF cs = <<>> THEN o ELSE ApplySub(ApplyOne(o, Head(cs), FALSE), Tail(cs))
ApplyCmd(o, c, skipped) == IF c.c = "burst" THEN (IF skipped THEN o ELSE ApplySub(o, c.sub)) ELSE ApplyOne(o, c, skipped)
\* one completion observed in the window
ApplyEv(o, e) ==
  CASE e.e = "sent" -> [o EXCEPT !.sent[e.i + 1] = Append(@, e.v), !.sentAt[e.i + 1] = Append(@, e.at), !.pend[e.i + 1] = <<>>]
    [] e.e = "sendpanic" -> [o EXCEPT !.pend[e.i + 1] = <<>>, !.panic = @ \/ ~o.cancelled]
    [] e.e = "closepanic" -> [o EXCEPT !.panic = @ \/ ~o.cancelled]
    [] e.e = "got" /\ e.ok /\ e.k = -2 ->       \* a keep-up consumer (recvall): it is back in its next receive at once
         [o EXCEPT !.got[e.o] = Append(@, e.v), !.gotAt[e.o] = Append(@, e.at), !.recvAt[e.o] = Append(@, e.at)]
    [] e.e = "recvdone" -> [o EXCEPT !.rp[e.o] = FALSE]
    \* the moment the cancel was really issued (logged under the log's lock): what was logged before it in this window -
    \* by operations started earlier in the same burst - happened before the cancel
    [] e.e = "cancelmark" -> [o EXCEPT !.sentAtCancel = o.sent, !.gotAtCancel = [x \in Outs |-> Len(o.got[x])]]
    [] e.e = "got" /\ e.ok -> [o EXCEPT !.got[e.o] = Append(@, e.v), !.gotAt[e.o] = Append(@, e.at), !.rp[e.o] = FALSE]
    [] e.e = "got" /\ ~e.ok -> [o EXCEPT !.seen[e.o] = TRUE, !.rp[e.o] = FALSE]
    [] e.e = "call" -> [o EXCEPT !.calls = Append(@, [a |-> e.a, x |-> e.x, at |-> e.at]), !.pending = @ + (IF Cfg.gate THEN 1 ELSE 0)]
    [] OTHER -> o
RECURSIVE ApplyEvs(_,_)
ApplyEvs(o, es) == IF es = <<>> THEN o ELSE ApplyEvs(ApplyEv(o, Head(es)), Tail(es))
ApplyWin(o, win) ==
  LET o1 == ApplyEvs(ApplyCmd(o, win.cmd, win.skipped), win.done) IN
  \* (a window of a free run - harness/pipedrv/free.go - recorded while the library was not known to be at rest is not quiet)
  [o1 EXCEPT !.inLen = [i \in 1..NIn |-> win.q.inLen[i]], !.live = win.q.live, !.now = win.q.now,
             !.quiet = ~("busy" \in DOMAIN win /\ win.busy)]

Init == ti \in 1..Len(Traces) /\ w = 0 /\ obs = Obs0 /\ ex = {}
Next == /\ w < Len(Tr.wins)
        /\ w' = w + 1 /\ ti' = ti
        /\ obs' = ApplyWin(obs, Tr.wins[w + 1])
        /\ ex' = ex \cup P!Exercised(Cfg, obs')
\* a library goroutine panicked while this schedule ran (the process died): one more, final, observation
Crash == /\ w = Len(Tr.wins) /\ Tr.crash /\ w' = w + 1 /\ ti' = ti
         /\ obs' = [obs EXCEPT !.panic = TRUE, !.quiet = FALSE] /\ ex' = ex
Spec == Init /\ [][Next \/ Crash]_vars

Judge ==
  /\ (w > 0 => LET f == P!Failing(Cfg, obs) IN
               f # {} => PrintT(ToJson([t |-> "PVIOL", ti |-> ti, w |-> w, preds |-> f])))
  /\ ((w = Len(Tr.wins) + (IF Tr.crash THEN 1 ELSE 0)) => PrintT(ToJson([t |-> "DONE", ti |-> ti, w |-> w, ex |-> ex])))
====
