---- MODULE OpticsMC ----
(* C01 / C02, exhaustive over shapes: every request TLC lists for a shape (Optics!Requests) is derived as coded and
   judged by the statements' predicates.
     C01_LensExact     valid requests (both variants of the derivation): footprint = the field's extent, Put changes
                       exactly the field's cells, Get reads them
     C02_Sound         unrepaired derivation: every request outside the two known-unsound classes is a panic or a
                       sound by-value focus
     C02_SoundRepaired repaired derivation: every request at all
     C02_Unrepaired*   NOT expected to hold: the unrepaired derivation on all requests - TLC answers with the
                       lens-through-embedded-pointer shape / the pointer container (documented in the evidence) *)
EXTENDS LayoutShapes, Optics, LayoutBoundary
CONSTANTS WithBoundary
MCInit == sh \in (IF WithBoundary THEN {<<>>} \cup BoundarySetHseq ELSE {<<>>})
Spec == MCInit /\ [][Next]_sh

AllRequests(P(_,_,_,_)) == sh # <<>> => LET u == Unfold(sh)  l == Listing(sh)  rs == Requests(sh, l) IN \A r \in 1..Len(rs) : P(sh, u, l, rs[r])
C01_LensExact == sh # <<>> => LensExact(sh, FALSE)
C01_LensExactRepaired == sh # <<>> => LensExact(sh, TRUE)
C02_Sound == AllRequests(LAMBDA s, u, l, rq : KnownUnsound(l, rq) \/ DeriveSound(s, u, l, rq, FALSE))
C02_SoundRepaired == AllRequests(LAMBDA s, u, l, rq : DeriveSound(s, u, l, rq, TRUE))
\* the dynamic container argument of Putt / Gett (independent of the shape)
C02_Reflector == ReflectorSound
C02_UnrepairedPtrEmb == AllRequests(LAMBDA s, u, l, rq : rq.cont # "T" \/ DeriveSound(s, u, l, rq, FALSE))
C02_UnrepairedAll == AllRequests(LAMBDA s, u, l, rq : DeriveSound(s, u, l, rq, FALSE))
====
