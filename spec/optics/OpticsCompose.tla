---- MODULE OpticsCompose ----
(* github.com/fogfish/golem/optics - composed optics (Join, BiMap*, Getter, Setter, ForShapeN, NewLensM, Iso, Morphism)
   over the cell values of one or two structures (C04).  Structures here embed by value only, so every cell of a
   shape is stored in the struct itself and a structure's state is the vector of its cell values.

   I layer (as written in lens.go / iso.go / shape.go):
     LGet / LPut      a lens is a tree: Prim(focus) or Join(a, b); Join's Put is the three steps of the code -
                      get the outer value, put the inner into that copy, put the copy back
     UGet / UPut      the wrappers: bimap (codec), getter (fmap: Put does nothing), setter (cmap: Get is the zero value)
     ShPut / ShGet    shapeN: nested Put chain, right to left; tuple Get
     MGet / MPut      the map lens
     Forward / Inverse   iso = one Get and one Put; morphism = the loop over the list, nil entries skipped
   P layer (statement of C04):
     AbsFocus         the nested field a Join focuses; JoinIsLens: Join behaves as Prim(AbsFocus)
     Lawful           PutGet, GetPut, PutPut on the converted value; Frame: only the focus changes
     ShapeAsComponents, MapOnlyKey, RoundTrip (Forward then Inverse restores the source), frames of both structures *)
EXTENDS Optics

(* ------------------------------------------------------------------ value vectors *)
Sub(vals, f) == [c \in 1..(f[2] - f[1] + 1) |-> vals[f[1] + c - 1]]
Replace(vals, f, ys) == [c \in 1..Len(vals) |-> IF f[1] <= c /\ c <= f[2] THEN ys[c - f[1] + 1] ELSE vals[c]]
\* "value number k" of a field with cells cs[f]: every leaf takes k modulo the number of values of its type
Val(cs, f, k) == [c \in 1..(f[2] - f[1] + 1) |-> k % cs[f[1] + c - 1].nv]

(* ------------------------------------------------------------------ I: lenses as trees *)
Prim(f) == [kind |-> "prim", f |-> f]
Join(a, b) == [kind |-> "join", a |-> a, b |-> b]
RECURSIVE LGet(_,_), LPut(_,_,_), AbsFocus(_)
LGet(l, vals) == IF l.kind = "prim" THEN Sub(vals, l.f) ELSE LGet(l.b, LGet(l.a, vals))
LPut(l, vals, ys) == IF l.kind = "prim" THEN Replace(vals, l.f, ys)
                     ELSE LET va == LGet(l.a, vals) IN LPut(l.a, vals, LPut(l.b, va, ys))
\* P: the nested field a lens tree focuses, as a cell range of the outermost structure
AbsFocus(l) == IF l.kind = "prim" THEN l.f
               ELSE LET fa == AbsFocus(l.a)  fb == AbsFocus(l.b) IN <<fa[1] + fb[1] - 1, fa[1] + fb[2] - 1>>

(* ------------------------------------------------------------------ I: wrappers on a single-cell lens *)
\* conversions between the focus type A and the view type B, on value numbers: "cast" keeps the number (BiMapS/B/I/F:
\* B(a)), "rot" is a bijection that is not its own inverse (so that a confusion of the two directions shows)
Fwd(conv, x, nv) == IF conv = "rot" THEN (x + 1) % nv ELSE x
Inv(conv, y, nv) == IF conv = "rot" THEN (y + nv - 1) % nv ELSE y
\* w = [kind |-> "lens" | "bimap" | "getter" | "setter", l |-> lens tree, conv |-> .., nv |-> values of the focus type]
UGet(w, vals) == CASE w.kind = "lens" -> LGet(w.l, vals)
                   [] w.kind \in {"bimap", "getter"} -> <<Fwd(w.conv, LGet(w.l, vals)[1], w.nv)>>
                   [] w.kind = "setter" -> <<0>>
UPut(w, vals, ys) == CASE w.kind = "lens" -> LPut(w.l, vals, ys)
                       [] w.kind \in {"bimap", "setter"} -> LPut(w.l, vals, <<Inv(w.conv, ys[1], w.nv)>>)
                       [] w.kind = "getter" -> vals

(* ------------------------------------------------------------------ I: shapeN over component lenses ls = <<l1..lN>> *)
RECURSIVE ShPutFrom(_,_,_,_)
ShPutFrom(ls, vals, ys, i) == IF i = 0 THEN vals ELSE ShPutFrom(ls, LPut(ls[i], vals, ys[i]), ys, i - 1)   \* lens.a.Put(lens.b.Put(lens.c.Put(s, c), b), a)
ShPut(ls, vals, ys) == ShPutFrom(ls, vals, ys, Len(ls))
ShGet(ls, vals) == [i \in 1..Len(ls) |-> LGet(ls[i], vals)]

(* ------------------------------------------------------------------ I: map lens; a map = [key -> value number], -1 = absent *)
MGet(m, key) == IF m[key] = -1 THEN 0 ELSE m[key]
MPut(m, key, y) == [m EXCEPT ![key] = y]

(* ------------------------------------------------------------------ I: iso / morphism between structures S and T (or a map) *)
\* a list entry:
\*   [kind |-> "iso",   s |-> lens tree on S, t |-> lens tree on T, sw |-> wrapper on the S side, tw |-> wrapper on the T side]
\*                      a wrapper = [kind |-> "lens" (none) | "bimap" | "getter" | "setter", conv |-> .., nv |-> ..]:
\*                      optics.Iso over plain field lenses or over BiMap / BiMapS,B,I,F / Getter / Setter lenses
\*   [kind |-> "isoM",  s |-> lens tree on S, key |-> map key]                 (the target is a map)
\*   [kind |-> "morph", seq |-> entries]                                        a Morphism as an entry of a Morphism
\*   [kind |-> "nil"]
Nil == [kind |-> "nil"]
PlainW == [kind |-> "lens", conv |-> "", nv |-> 0]
WOf(w, l) == [kind |-> w.kind, l |-> l, conv |-> w.conv, nv |-> w.nv]
RECURSIVE IsoFwd(_,_,_), IsoInv(_,_,_), FwdFrom(_,_,_,_), InvFrom(_,_,_,_)
\* iso.Forward: ta.Put(t, sa.Get(s));  iso.Inverse: sa.Put(s, ta.Get(t));  morphism: the loop, nil entries skipped
IsoFwd(e, sv, tv) == CASE e.kind = "isoM" -> MPut(tv, e.key, LGet(e.s, sv)[1])
                       [] e.kind = "morph" -> FwdFrom(e.seq, 1, sv, tv)
                       [] OTHER -> UPut(WOf(e.tw, e.t), tv, UGet(WOf(e.sw, e.s), sv))
IsoInv(e, tv, sv) == CASE e.kind = "isoM" -> LPut(e.s, sv, <<MGet(tv, e.key)>>)
                       [] e.kind = "morph" -> InvFrom(e.seq, 1, tv, sv)
                       [] OTHER -> UPut(WOf(e.sw, e.s), sv, UGet(WOf(e.tw, e.t), tv))
FwdFrom(seq, i, sv, tv) == IF i > Len(seq) THEN tv ELSE FwdFrom(seq, i + 1, sv, IF seq[i].kind = "nil" THEN tv ELSE IsoFwd(seq[i], sv, tv))
InvFrom(seq, i, tv, sv) == IF i > Len(seq) THEN sv ELSE InvFrom(seq, i + 1, tv, IF seq[i].kind = "nil" THEN sv ELSE IsoInv(seq[i], tv, sv))
MForward(seq, sv, tv) == FwdFrom(seq, 1, sv, tv)      \* the new T
MInverse(seq, tv, sv) == InvFrom(seq, 1, tv, sv)      \* the new S
\* the isos a list really applies, nested Morphisms flattened, nil dropped
RECURSIVE LeavesFrom(_,_)
LeavesFrom(seq, i) == IF i > Len(seq) THEN <<>>
                      ELSE (CASE seq[i].kind = "nil" -> <<>> [] seq[i].kind = "morph" -> LeavesFrom(seq[i].seq, 1) [] OTHER -> <<seq[i]>>)
                           \o LeavesFrom(seq, i + 1)
Leaves(seq) == LeavesFrom(seq, 1)

(* ------------------------------------------------------------------ P: predicates *)
InFocus(f, c) == f[1] <= c /\ c <= f[2]
SameOutside(a, b, f) == Len(a) = Len(b) /\ \A c \in 1..Len(a) : InFocus(f, c) \/ a[c] = b[c]
\* Join of lenses is the lens on the nested field
JoinIsLens(l, vals, ys) == LET f == AbsFocus(l) IN LGet(l, vals) = Sub(vals, f) /\ LPut(l, vals, ys) = Replace(vals, f, ys)
\* the three laws on the (converted) value, and the frame
Lawful(w, vals, y1, y2) ==
  /\ UGet(w, UPut(w, vals, y1)) = y1                       \* PutGet
  /\ UPut(w, vals, UGet(w, vals)) = vals                   \* GetPut
  /\ UPut(w, UPut(w, vals, y1), y2) = UPut(w, vals, y2)    \* PutPut
  /\ SameOutside(UPut(w, vals, y1), vals, AbsFocus(w.l))   \* Frame
GetterNeverWrites(w, vals, y) == UPut(w, vals, y) = vals
SetterWritesConverted(w, vals, y) == UPut(w, vals, y) = Replace(vals, AbsFocus(w.l), <<Inv(w.conv, y[1], w.nv)>>) /\ UGet(w, vals) = <<0>>
\* shapeN = its component lenses, each on its own field (components with pairwise different fields)
ShapeAsComponents(ls, vals, ys) ==
  /\ \A c \in 1..Len(vals) : LET I == {i \in 1..Len(ls) : InFocus(AbsFocus(ls[i]), c)} IN
        ShPut(ls, vals, ys)[c] = IF I = {} THEN vals[c] ELSE LET i == CHOOSE i \in I : TRUE IN ys[i][c - AbsFocus(ls[i])[1] + 1]
  /\ ShGet(ls, vals) = [i \in 1..Len(ls) |-> Sub(vals, AbsFocus(ls[i]))]
MapOnlyKey(m, key, y) == MGet(MPut(m, key, y), key) = y /\ \A k \in DOMAIN m \ {key} : MPut(m, key, y)[k] = m[k]
\* Forward then Inverse restores the source; Forward touches only the target foci, Inverse only the source foci.
\* (the isos of a list have pairwise different target foci; an iso reads through a lawful or read-only optic on the
\* source side.)  After Forward a lawful target optic shows what the source optic showed; a Setter target holds the
\* converted value; a Getter target is never written.
Live(seq) == {i \in 1..Len(seq) : seq[i].kind # "nil"}
RoundTrip(seq, sv, tv) ==
  LET lv == Leaves(seq)  t1 == MForward(seq, sv, tv)  s1 == MInverse(seq, t1, sv) IN
  /\ s1 = sv
  /\ \A i \in 1..Len(lv) : LET e == lv[i]  shown == UGet(WOf(e.sw, e.s), sv) IN
       CASE e.tw.kind \in {"lens", "bimap"} -> UGet(WOf(e.tw, e.t), t1) = shown
         [] e.tw.kind = "setter" -> LGet(e.t, t1) = <<Inv(e.tw.conv, shown[1], e.tw.nv)>>
         [] e.tw.kind = "getter" -> LGet(e.t, t1) = LGet(e.t, tv)
  /\ \A c \in 1..Len(tv) : (\E i \in 1..Len(lv) : InFocus(AbsFocus(lv[i].t), c)) \/ t1[c] = tv[c]
RoundTripM(seq, sv, m) ==
  LET m1 == MForward(seq, sv, m)  s1 == MInverse(seq, m1, sv) IN
  /\ s1 = sv
  /\ \A i \in Live(seq) : m1[seq[i].key] = LGet(seq[i].s, sv)[1]
  /\ \A k \in DOMAIN m : (\E i \in Live(seq) : seq[i].key = k) \/ m1[k] = m[k]
\* Inverse from any target state: only the source foci change
InverseFrame(seq, tv, sv) ==
  LET s1 == MInverse(seq, tv, sv)  lv == Leaves(seq) IN \A c \in 1..Len(sv) : (\E i \in 1..Len(lv) : InFocus(AbsFocus(lv[i].s), c)) \/ s1[c] = sv[c]

(* ------------------------------------------------------------------ the optics TLC lists for a structure *)
\* lenses by name whose first match is a leaf: [key, ty, cell, nv]
LeafLenses(sh) ==
  LET l == Listing(sh)  cs == Cells(sh)
      ks == SetToSeq({k \in KeysOf(l) : IsLeaf(FieldAt(sh, l[FirstKey(l, k)].pos))})
  IN [i \in 1..Len(ks) |-> LET j == FirstKey(l, ks[i])  c == Focus(sh, l[j].pos)[1] IN
                             [key |-> ks[i], ty |-> l[j].ty, cell |-> c, nv |-> cs[c].nv]]
\* chains of by-name links container -> field -> field ...: the Joins.  A link's focus is relative to its container.
RECURSIVE ChainsFrom(_,_,_)
ChainsFrom(st, cname, d) ==
  LET l == Listing(st) IN
  UNION { LET j == FirstKey(l, k)  f == FieldAt(st, l[j].pos)
              link == [cont |-> cname, key |-> k, ty |-> l[j].ty, rel |-> Focus(st, l[j].pos), pos |-> l[j].pos] IN
          {<<link>>} \cup (IF d > 1 /\ HasSub(f) THEN {<<link>> \o c : c \in ChainsFrom(f.sub, f.ty, d - 1)} ELSE {})
        : k \in KeysOf(l) }
\* the two ways to nest a chain of links into Joins (they coincide for one and two links)
RECURSIVE LeftNest(_,_), RightNest(_,_)
LeftNest(ch, n) == IF n = 1 THEN Prim(ch[1].rel) ELSE Join(LeftNest(ch, n - 1), Prim(ch[n].rel))
RightNest(ch, i) == IF i = Len(ch) THEN Prim(ch[i].rel) ELSE Join(Prim(ch[i].rel), RightNest(ch, i + 1))
Tree(ch, nest) == IF nest = "left" THEN LeftNest(ch, Len(ch)) ELSE RightNest(ch, 1)

RECURSIVE AbsPos(_,_)
AbsPos(ch, i) == IF i > Len(ch) THEN <<>> ELSE ch[i].pos \o AbsPos(ch, i + 1)

\* a few structure states: three rotations of a pattern in which neighbouring cells differ
Pattern(cs, r) == [c \in 1..Len(cs) |-> (c + r) % cs[c].nv]
====
