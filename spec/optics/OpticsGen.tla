---- MODULE OpticsGen ----
(* C01 / C02 behaviour generator: for a seeded sample of the enumerated shapes (and every boundary shape) TLC prints
     cells     the cells of the shape in depth-first order (own = stored in the struct itself) and the padding bytes
     reqs      every request of Optics!Requests with what the statements demand of it (Want: panic / lens on which
               cells / first match behind a pointer) and what the derivation-as-coded does (model: <<without, with>> the repaired checks)
     foreign   the classes of dynamic container arguments for Putt / Gett with what the statement demands of each
     script    a multi-step Put script over the shape's first valid single lenses with the cell values expected
               after every step (P-level PutCells) and the values the following Get must return
   lib/fam_optics.py compiles the shapes and a subset of the requests into Go; harness/opticsdrv executes them. *)
EXTENDS OpticsMC, Json
CONSTANTS Seed, Modulus

Selected == sh # <<>> /\ (Modulus = 1 \/ (Checksum(sh) + Seed) % Modulus = 0 \/ (WithBoundary /\ sh \in BoundarySetHseq))

WantJ(l, foc, rq, w) ==
  IF w.out = "panic" THEN [out |-> "panic", why |-> w.why]
  ELSE [out |-> w.out, why |-> w.why, ents |-> w.ents,
        foci |-> [i \in 1..Len(w.ents) |-> foc[w.ents[i]]],
        ext |-> [i \in 1..Len(w.ents) |-> ExtOf(l, w.ents[i])],
        alt |-> [i \in 1..Len(w.ents) |-> IF l[w.ents[i]].byval THEN <<>>
                                           ELSE SetToSeq({[ent |-> j, focus |-> foc[j], ext |-> ExtOf(l, j)] : j \in AltEnts(l, rq, i)})]]
ScriptLen == 8
RECURSIVE ScriptFrom(_,_,_,_,_,_,_)
ScriptFrom(j, vals, core, ws, foc, cs, ck) ==
  IF j > ScriptLen \/ core = <<>> THEN <<>>
  ELSE LET r == core[((j * 2 + ck) % Len(core)) + 1]
           v == (j + ck) % MaxVals
           f == foc[ws[r].ents[1]]
           nv == PutCells(cs, vals, f[1], f[2], v)
       IN <<[rq |-> r, k |-> v, vals |-> nv, get |-> [c \in 1..(f[2] - f[1] + 1) |-> nv[f[1] + c - 1]]]>>
          \o ScriptFrom(j + 1, nv, core, ws, foc, cs, ck)
Emit ==
  Selected =>
  LET u == Unfold(sh)  l == Listing(sh)  rs == Requests(sh, l)  cs == Cells(sh)  ck == Checksum(sh)
      ws == [r \in 1..Len(rs) |-> Want(l, rs[r])]
      foc == [j \in 1..Len(l) |-> Focus(sh, l[j].pos)]
      valid == {r \in 1..Len(rs) : ws[r].out = "lens" /\ Arity(rs[r]) = 1}
      core == LET s == SetToSeq(valid) IN SubSeq(SortSeq(s, LAMBDA a, b : a < b), 1, IF Len(s) < 4 THEN Len(s) ELSE 4)
  IN PrintT(ToJson(
       [t |-> "shape", ck |-> ck, boundary |-> (WithBoundary /\ sh \in BoundarySetHseq),
        fields |-> sh, size |-> SSize(sh), align |-> SAlign(sh),
        cells |-> cs, holes |-> SetToSeq(HoleBytes(sh)),
        listing |-> [j \in 1..Len(l) |-> [key |-> l[j].key, ty |-> l[j].ty, byval |-> l[j].byval, abs |-> l[j].abs,
                                           size |-> l[j].size, path |-> NamePath(sh, l[j].pos)]],
        reqs |-> [r \in 1..Len(rs) |-> [by |-> rs[r].by, cont |-> rs[r].cont, names |-> rs[r].names, types |-> rs[r].types, ent |-> rs[r].ent, close |-> rs[r].close,
                                         want |-> WantJ(l, foc, rs[r], ws[r]),
                                         model |-> <<Derive(sh, u, l, rs[r], FALSE).out, Derive(sh, u, l, rs[r], TRUE).out>>,
                                         core |-> \E i \in 1..Len(core) : core[i] = r]],
        foreign |-> SetToSeq({[class |-> c, want |-> ForeignWant(c)] : c \in ForeignClasses}),
        script |-> ScriptFrom(1, CellVals(cs, InitMem(sh)), core, ws, foc, cs, ck)]))
====
