---- MODULE OpticsComposeGen ----
(* C04 behaviour generator: for a seeded sample of the enumerated pairs (S, T) and the boundary pairs TLC prints
     S, T       the structures with their cells
     optics     the table of optics on S: plain leaf lenses, every Join chain (both nestings), BiMap / Getter / Setter
                wrappers with their conversion, ShapeN for N = 2..9 - each with the cells it focuses
     isos, isosM, lists   type-compatible isos S<->T (over plain and over BiMap / Getter / Setter lenses, and Morphisms
                used as entries) and S<->map, and the lists (0 = nil) for Morphism
     scripts    short programs (<= 3 steps) with the state of S, T and the map expected after every step
   lib/fam_optics.py compiles the programs to Go; harness/opticsdrv executes them. *)
EXTENDS OpticsComposeMC, Json
CONSTANTS Seed, Modulus

IsBoundary == WithBoundary /\ <<sS, sT>> \in BoundaryPairs
Selected == sS # <<>> /\ sT # <<>> /\ (Modulus = 1 \/ (SB!Checksum(sS) * 31 + SB!Checksum(sT) + Seed) % Modulus = 0 \/ IsBoundary)

MinOf(a, b) == IF a < b THEN a ELSE b
NoLinks == <<>>
OpticTable(sh, cs, lens, wrapped) ==
  LET chains == SetToSeq({ch \in ChainsFrom(sh, "T0", 3) : Len(ch) >= 2})
      O(kind, nest, conv, links, names, types, foci, nv) ==
         [kind |-> kind, nest |-> nest, conv |-> conv, links |-> links, names |-> names, types |-> types, foci |-> foci, nv |-> nv]
      plain == [i \in 1..Len(lens) |-> O("lens", "", "", NoLinks, <<lens[i].key>>, <<lens[i].ty>>, <<<<lens[i].cell, lens[i].cell>>>>, lens[i].nv)]
      J(ch, nest) == O("join", nest, "", [i \in 1..Len(ch) |-> [cont |-> ch[i].cont, key |-> ch[i].key, ty |-> ch[i].ty]],
                       <<>>, <<ch[Len(ch)].ty>>, <<AbsFocus(Tree(ch, nest))>>, 0)
      joins == [i \in 1..(2 * Len(chains)) |-> IF i <= Len(chains) THEN J(chains[i], "left") ELSE J(chains[i - Len(chains)], "right")]
      wl == SelectSeq(lens, LAMBDA x : x.nv <= 3)      \* the view types of the harness have three values
      nw == MinOf(Len(wl), wrapped)
      W(i, kind, conv) == O(kind, "", conv, NoLinks, <<wl[i].key>>, <<wl[i].ty>>, <<<<wl[i].cell, wl[i].cell>>>>, wl[i].nv)
      wraps == [n \in 1..(nw * 6) |-> LET i == ((n - 1) \div 6) + 1  k == (n - 1) % 6 IN
                  W(i, CASE k \in {0, 1} -> "bimap" [] k \in {2, 3} -> "getter" [] OTHER -> "setter", IF k % 2 = 0 THEN "rot" ELSE "cast")]
      shapes == [n \in 1..(MinOf(Len(lens), 9) - 1) |->
                  O("shape", "", "", NoLinks, [i \in 1..(n + 1) |-> lens[i].key], [i \in 1..(n + 1) |-> lens[i].ty],
                    [i \in 1..(n + 1) |-> <<lens[i].cell, lens[i].cell>>], 0)]
  IN plain \o joins \o wraps \o (IF Len(lens) >= 2 THEN shapes ELSE <<>>)

\* the state after Put of value numbers ys (one per component) through optic o, and what Get then returns
TreeOf(o) == Prim(o.foci[1])
OPut(o, cs, vals, ys) ==
  CASE o.kind \in {"lens", "join"} -> Replace(vals, o.foci[1], Val(cs, o.foci[1], ys[1]))
    [] o.kind = "shape" -> ShPut([i \in 1..Len(o.foci) |-> Prim(o.foci[i])], vals, [i \in 1..Len(o.foci) |-> Val(cs, o.foci[i], ys[i])])
    [] OTHER -> UPut([kind |-> o.kind, l |-> TreeOf(o), conv |-> o.conv, nv |-> o.nv], vals, <<ys[1] % o.nv>>)
OGet(o, cs, vals) ==
  CASE o.kind \in {"lens", "join"} -> <<Sub(vals, o.foci[1])>>
    [] o.kind = "shape" -> [i \in 1..Len(o.foci) |-> Sub(vals, o.foci[i])]
    [] OTHER -> <<UGet([kind |-> o.kind, l |-> TreeOf(o), conv |-> o.conv, nv |-> o.nv], vals)>>
Step(op, ref, ks, sv, tv, m, get) == [op |-> op, ref |-> ref, ks |-> ks, S |-> sv, T |-> tv, M |-> m, get |-> get]
OpticScript(ot, n, cs, sv, tv, m) ==
  LET o == ot[n]  a == Len(o.foci)
      k1 == [i \in 1..a |-> (i + n) % 3]  k2 == [i \in 1..a |-> (i + n + 1) % 3]
      s1 == OPut(o, cs, sv, k1)  s2 == OPut(o, cs, s1, k2)
      o3 == ot[(n % Len(ot)) + 1]  k3 == [i \in 1..Len(o3.foci) |-> (i + 2) % 3]  s3 == OPut(o3, cs, s2, k3)
  IN << Step("put", n, k1, s1, tv, m, OGet(o, cs, s1)), Step("put", n, k2, s2, tv, m, OGet(o, cs, s2)),
        Step("put", (n % Len(ot)) + 1, k3, s3, tv, m, OGet(o3, cs, s3)) >>
MorphScript(isos, q, ot, cs, sv, tv, m, isMap) ==
  LET es == Entries(isos, q)
      t1 == MForward(es, sv, IF isMap THEN m ELSE tv)
      s2 == OPut(ot[1], cs, sv, <<2>>)
      s3 == MInverse(es, t1, s2)
  IN << Step(IF isMap THEN "mfwd" ELSE "fwd", q, <<>>, sv, IF isMap THEN tv ELSE t1, IF isMap THEN t1 ELSE m, <<>>),
        Step("put", 1, <<2>>, s2, IF isMap THEN tv ELSE t1, IF isMap THEN t1 ELSE m, OGet(ot[1], cs, s2)),
        Step(IF isMap THEN "minv" ELSE "inv", q, <<>>, s3, IF isMap THEN tv ELSE t1, IF isMap THEN t1 ELSE m, <<>>) >>
Take(s, n) == SubSeq(s, 1, MinOf(Len(s), n))
Emit ==
  Selected =>
  LET csS == Cells(sS)  csT == Cells(sT)  ls == LeafLenses(sS)  lt == LeafLenses(sT)
      isos == IsoSeq(ls, lt)  im == IF Len(ls) > 0 THEN IsoSeqM(ls) ELSE <<>>
      ot == OpticTable(sS, csS, ls, IF IsBoundary THEN 9 ELSE 3)
      lists == SetToSeq(Lists(isos))  listsM == SetToSeq(Lists(im))
      sv == Pattern(csS, 0)  tv == Pattern(csT, 1)
  IN PrintT(ToJson(
       [t |-> "pair", ck |-> SB!Checksum(sS) * 31 + SB!Checksum(sT), boundary |-> IsBoundary,
        S |-> [fields |-> sS, size |-> SSize(sS), align |-> SAlign(sS), cells |-> csS, holes |-> SetToSeq(HoleBytes(sS))],
        T |-> [fields |-> sT, size |-> SSize(sT), align |-> SAlign(sT), cells |-> csT, holes |-> SetToSeq(HoleBytes(sT))],
        lensS |-> ls, lensT |-> lt,
        mapty |-> IF Len(ls) > 0 THEN ls[1].ty ELSE "",
        optics |-> ot,
        isos |-> [n \in 1..Len(isos) |->
                    [kind |-> isos[n].kind, si |-> isos[n].si, ti |-> isos[n].ti, sw |-> isos[n].sw, tw |-> isos[n].tw, x |-> isos[n].x,
                     seqix |-> isos[n].seqix,
                     leaves |-> LET lv == Leaves(<<isos[n]>>) IN
                                [i \in 1..Len(lv) |-> [s |-> AbsFocus(lv[i].s)[1], t |-> AbsFocus(lv[i].t)[1], sw |-> lv[i].sw, tw |-> lv[i].tw]]]],
        isosM |-> [n \in 1..Len(im) |-> [si |-> im[n].si, key |-> im[n].key]],
        lists |-> lists, listsM |-> listsM,
        init |-> [S |-> sv, T |-> tv, M |-> EmptyMap],
        scripts |-> [n \in 1..Len(ot) |-> OpticScript(ot, n, csS, sv, tv, EmptyMap)]
                    \o (IF Len(ot) = 0 THEN <<>> ELSE
                        [n \in 1..Len(Take(lists, 24)) |-> MorphScript(isos, lists[n], ot, csS, sv, tv, EmptyMap, FALSE)]
                        \o [n \in 1..Len(Take(listsM, 16)) |-> MorphScript(im, listsM[n], ot, csS, sv, tv, EmptyMap, TRUE)])]))
====
