---- MODULE Optics ----
(* github.com/fogfish/golem/optics - Lens / Reflector derivation and the memory they touch, over Layout shapes.

   I layer (lens.go, reflector.go as written):
     Derive        ForProductN / ForSpectrumN: no names -> hseq.NewN (first match by type), names -> attr[0:N]
                   (slice bounds panic when fewer) and hseq.New(names...) (first match by key), then NewLens /
                   NewReflector per component: panic unless the entry's declared type is the requested one.
                   The lens keeps the entry; its *footprint* is the byte interval
                       [RootOffs + Offset, RootOffs + Offset + sizeof(A))   relative to the *S it is given.
                   The parameter `guarded` selects the variant of NewLens / NewReflector: TRUE adds the repaired
                   checks (the container must be a struct; a field of that name and type must be stored by value at
                   that very offset), FALSE is the code without them.  Which variant the tree under test follows
                   is observed by the harness (SPEC-DRIFT if neither); verdicts never depend on it.
     PutBytes / GetBytes   the raw write / read of the footprint on a byte-granular abstract memory (the actions
                   Put / Get / Putt / Gett over it, with the dynamic `case *S` switch, are in OpticsMemMC)
   P layer (statements of C01 and C02):
     Want          what a request must yield: "panic" (unknown name, absent type, other type, too few names,
                   container not a struct), "lens" on the first matching field when that field is stored by value,
                   "ptr" when the first match lies behind an embedded pointer: a panic, or an optic whose footprint
                   is exactly a by-value field of the requested type (and key) - AltEnts; TLC found that the repaired
                   derivation accepts such coincidences, e.g. struct{ *E{F1 int8; f2 int64}; f2 int64 } / "f2"
     Focus         the cells of a field = what a lens on it may read and write
     PutCells      the field's cells take the value, every other cell, hole and guard byte keeps its content

   Abstract memory: one value per byte of [-Guard, size + Guard); a *cell* (leaf field or embedded pointer) holds
   value x when all its bytes hold x (x mod the number of values of its type), and is corrupt (-1) otherwise. *)
EXTENDS Hseq, SequencesExt

(* ------------------------------------------------------------------ cells *)
RECURSIVE CellsFrom(_,_,_,_,_), CellCount(_), CellsBefore(_,_)
\* depth-first: a leaf is a cell; an embedded pointer is a cell followed by the cells of its pointee (own = FALSE:
\* they live elsewhere); value-embedded and named structs contribute the cells of their fields
CellsFrom(st, i, base, own, path) ==
  IF i > Len(st) THEN <<>>
  ELSE LET f == st[i]  o == base + Offsets(st)[i]  p == Append(path, f.name) IN
       (IF IsLeaf(f) THEN <<[path |-> p, ty |-> f.ty, kind |-> "leaf", own |-> own, off |-> IF own THEN o ELSE -1,
                             size |-> FSize(f), nv |-> LeafVals(f.ty)]>>
        ELSE IF f.emb = "ptr" THEN <<[path |-> p, ty |-> f.ty, kind |-> "ptr", own |-> own, off |-> IF own THEN o ELSE -1,
                                      size |-> 8, nv |-> 3]>> \o CellsFrom(f.sub, 1, 0, FALSE, p)
        ELSE CellsFrom(f.sub, 1, o, own, p))
       \o CellsFrom(st, i + 1, base, own, path)
Cells(sh) == CellsFrom(sh, 1, 0, TRUE, <<>>)
FieldCells(f) == IF IsLeaf(f) THEN 1 ELSE IF f.emb = "ptr" THEN 1 + CellCount(f.sub) ELSE CellCount(f.sub)
CellCount(st) == IF st = <<>> THEN 0 ELSE FieldCells(Head(st)) + CellCount(Tail(st))
CellsBefore(st, p) == LET i == p[1]  pre == CellCount(SubSeq(st, 1, i - 1)) IN
  IF Len(p) = 1 THEN pre ELSE pre + (IF st[i].emb = "ptr" THEN 1 ELSE 0) + CellsBefore(st[i].sub, Tail(p))
\* the cells of the field at position p: <<lo, hi>>, empty when hi < lo.  The focus of an embedded pointer field is
\* the pointer cell only.
Focus(sh, p) == LET f == FieldAt(sh, p)  lo == CellsBefore(sh, p) + 1 IN
  IF IsLeaf(f) \/ f.emb = "ptr" THEN <<lo, lo>> ELSE <<lo, lo + CellCount(f.sub) - 1>>

(* ------------------------------------------------------------------ requests *)
\* a request: [by |-> "name" | "type" | "entry", cont |-> "T" | "*T", names |-> seq, types |-> seq, ent, close]; N = Len(types)
Arity(rq) == Len(rq.types)

(* ---- I: derivation as coded *)
\* the repaired NewLens accepts an entry only if a field with that name and type is stored by value at that offset
Anchored(l, e) == \E j \in 1..Len(l) : l[j].byval /\ l[j].name = e.name /\ l[j].ty = e.ty /\ l[j].abs = e.root + e.off
Derive(sh, u, l, rq, guarded) ==      \* u = Unfold(sh); l = Listing(sh) is used by the repaired check only
  LET n == Arity(rq)
      ix == IF rq.by = "type" THEN NewByTypes(u, rq.types)
            ELSE IF rq.by = "entry" THEN <<rq.ent>>                    \* NewLens / NewReflector on hseq.New[T]()[ent - 1]
            ELSE IF Len(rq.names) < n THEN <<0>>                     \* attr[0:n]: slice bounds out of range
            ELSE NewByNames(u, SubSeq(rq.names, 1, n))
      bad(i) == \/ u[ix[i]].ty # rq.types[i]                          \* NewLens: invalid type
                \/ guarded /\ (rq.cont # "T" \/ ~Anchored(l, u[ix[i]]))
  IN IF Panics(ix) THEN [out |-> "panic"]
     ELSE IF \E i \in 1..n : bad(i) THEN [out |-> "panic"]
     ELSE [out |-> "lens",
           lens |-> [i \in 1..n |-> LET e == u[ix[i]] IN
                       [entry |-> ix[i], lo |-> e.root + e.off, hi |-> e.root + e.off + FSize(FieldAt(sh, e.pos))]]]

(* ---- P: what the statements require of a request *)
WantIx(l, rq) ==
  LET n == Arity(rq) IN
  IF rq.by = "type" THEN [i \in 1..n |-> FirstType(l, rq.types[i])]
  ELSE IF rq.by = "entry" THEN <<rq.ent>>
  ELSE IF Len(rq.names) < n THEN <<0>>
  ELSE [i \in 1..n |-> FirstKey(l, rq.names[i])]
\* l = Listing(sh).  out: "panic" | "lens" | "ptr"; ents: the listing positions of the first matches
Want(l, rq) ==
  LET ix == WantIx(l, rq)  n == Len(ix) IN
  IF rq.cont # "T" THEN [out |-> "panic", why |-> "pointer-container", ents |-> <<>>]
  ELSE IF rq.by = "name" /\ Len(rq.names) < Arity(rq) THEN [out |-> "panic", why |-> "too-few-names", ents |-> <<>>]
  ELSE IF \E i \in 1..n : ix[i] = 0 THEN [out |-> "panic", why |-> IF rq.by = "type" THEN "absent-type" ELSE "unknown-name", ents |-> <<>>]
  ELSE IF \E i \in 1..n : l[ix[i]].ty # rq.types[i] THEN [out |-> "panic", why |-> "type-mismatch", ents |-> <<>>]
  ELSE [out |-> IF \E i \in 1..n : ~l[ix[i]].byval THEN "ptr" ELSE "lens", why |-> "", ents |-> ix]
ExtOf(l, j) == IF l[j].byval THEN <<l[j].abs, l[j].abs + l[j].size>> ELSE <<-1, -1>>
\* when the first match hides behind a pointer, an optic on a by-value field of the requested type (and, by name, of
\* the requested key) still "stays inside a field of the requested type": the acceptable alternatives
AltEnts(l, rq, i) == {j \in 1..Len(l) : l[j].byval /\ l[j].ty = rq.types[i] /\ (rq.by = "type" \/ l[j].key = rq.names[i])}

\* C02: a derivation is a panic or an optic on a by-value field of the requested type whose footprint is that field
DeriveSound(sh, u, l, rq, guarded) ==
  LET d == Derive(sh, u, l, rq, guarded)  w == Want(l, rq) IN
  CASE w.out = "lens" -> d.out = "lens" /\ \A i \in 1..Arity(rq) : <<d.lens[i].lo, d.lens[i].hi>> = ExtOf(l, w.ents[i]) /\ d.lens[i].entry = w.ents[i]
    [] w.out = "ptr" -> d.out = "panic" \/ \A i \in 1..Arity(rq) : \E j \in AltEnts(l, rq, i) : <<d.lens[i].lo, d.lens[i].hi>> = ExtOf(l, j)
    [] OTHER -> d.out = "panic"
\* the classes of requests on which the unrepaired code is known to be unsound
KnownUnsound(l, rq) == rq.cont # "T" \/ Want(l, rq).out = "ptr"

(* ------------------------------------------------------------------ Reflector: the dynamic type of the container argument *)
\* classes of things a caller can hand to Putt / Gett of a Reflector derived for container type T:
\*   own         *T                         nil-own     (*T)(nil)
\*   twin        *T' , T' another struct type with the same field sequence (same names, same types)
\*   twin-tags   the same with different struct tags          defined   *X with `type X T`
\*   ptr-ptr     **T        value  T        nil  the nil interface        other  *U, U an unrelated struct
\*   unsafe      unsafe.Pointer(&t)         uintptr           first-field  pointer to T's first bytes as *[1]byte
ForeignClasses == {"own", "nil-own", "twin", "twin-tags", "defined", "ptr-ptr", "value", "nil", "other", "unsafe", "uintptr", "first-field"}
\* I: Putt / Gett as coded - `case *S:` (a nil *S is a *S), everything else panics before touching memory
PuttAsCoded(class) == IF class \in {"own", "nil-own"} THEN "put" ELSE "panic"
\* P (C02): "a Reflector given anything but a pointer to its own container type panics and modifies nothing".
\* A nil *T is a pointer of its own container type: nothing is demanded of it.
ForeignWant(class) == CASE class = "own" -> "put" [] class = "nil-own" -> "any" [] OTHER -> "panic"
ReflectorSound == \A c \in ForeignClasses : ForeignWant(c) = "panic" => PuttAsCoded(c) = "panic"

(* ------------------------------------------------------------------ the requests TLC lists for a shape *)
OtherType(t) == CASE t = "int8" -> "bool" [] t = "bool" -> "int8" [] t = "int16" -> "uint16" [] t = "uint16" -> "int16"
                  [] t = "int64" -> "float64" [] t = "float64" -> "int64" [] t = "*int" -> "int64" [] t = "string" -> "any"
                  [] t = "any" -> "string" [] t = "int32" -> "int16" [] t = "[]byte" -> "string" [] t = "[3]int8" -> "int8"
                  [] t = "struct{}" -> "[0]int64" [] t = "[0]int64" -> "struct{}" [] t = "float32" -> "int32"
                  [] t = "complex128" -> "string" [] t = "fmt.Stringer" -> "any" [] OTHER -> "int8"
\* a type that is *not* the entry's: same size where the palette has one; E <-> *E for embedded structs
Mismatch(sh, x) == LET f == FieldAt(sh, x.pos) IN
  IF f.emb = "ptr" THEN f.ty ELSE IF f.emb = "val" THEN "*" \o f.ty ELSE OtherType(f.ty)
CycS(s, n, stride) == [i \in 1..n |-> s[((i * stride + n) % Len(s)) + 1]]
Requests(sh, l) ==
  LET keys == SetToSeq(KeysOf(l))
      types == SetToSeq(TypesOf(l))
      tyOf(k) == l[FirstKey(l, k)].ty
      R(by, cont, ns, ts) == [by |-> by, cont |-> cont, names |-> ns, types |-> ts, ent |-> 0, close |-> FALSE]
      \* requests with a type that is structurally close to the field's but not identical (CloseTypes): by name, by
      \* type (absent close types must fail, present ones are ordinary requests), and NewLens / NewReflector handed
      \* a hand-picked entry of the listing (by = "entry": once with the entry's own type, once with a close one)
      closeN == SetToSeq({[R("name", "T", <<k>>, <<c>>) EXCEPT !.close = TRUE] : <<k, c>> \in {<<k, c>> \in KeysOf(l) \X CloseAll(TypesOf(l)) : c \in CloseTypes(tyOf(k))}})
      closeT == SetToSeq({[R("type", "T", <<>>, <<c>>) EXCEPT !.close = TRUE] : c \in CloseAll(TypesOf(l))})
      closeE == SetToSeq({[R("entry", "T", <<>>, <<c>>) EXCEPT !.close = TRUE, !.ent = j] :
                            <<j, c>> \in {<<j, c>> \in (1..Len(l)) \X (CloseAll(TypesOf(l)) \cup TypesOf(l)) : l[j].byval /\ CloseTypes(l[j].ty) # {} /\ (c = l[j].ty \/ c \in CloseTypes(l[j].ty))}})
      \* every type is assignable to `any`: a request by name for the focus type `any` on a field of another type must panic
      \* (a guard that only asks for assignability accepts it, and a two-word Put then covers the field's neighbours)
      anyN == SetToSeq({R("name", "T", <<k>>, <<"any">>) : k \in {k \in KeysOf(l) : tyOf(k) # "any"}})
      single == [i \in 1..Len(keys) |-> R("name", "T", <<keys[i]>>, <<tyOf(keys[i])>>)]
      wrong == [i \in 1..Len(keys) |-> R("name", "T", <<keys[i]>>, <<Mismatch(sh, l[FirstKey(l, keys[i])])>>)]
      bytype == [i \in 1..Len(types) |-> R("type", "T", <<>>, <<types[i]>>)]
      nary == [n \in 2..9 |-> LET ns == CycS(keys, n, 1) IN R("name", "T", ns, [i \in 1..n |-> tyOf(ns[i])])]
      naryT == [n \in 2..9 |-> R("type", "T", <<>>, CycS(types, n, 1))]
      few == [n \in 2..4 |-> LET ns == CycS(keys, n, 1) IN R("name", "T", SubSeq(ns, 1, n - 1), [i \in 1..n |-> tyOf(ns[i])])]
      onebad == [n \in 2..4 |-> LET ns == CycS(keys, n, 1) IN
                   R("name", "T", ns, [i \in 1..n |-> IF i = n - 1 THEN Mismatch(sh, l[FirstKey(l, ns[i])]) ELSE tyOf(ns[i])])]
  IN single \o wrong \o bytype
     \o [n \in 1..8 |-> nary[n + 1]] \o [n \in 1..8 |-> naryT[n + 1]] \o [n \in 1..3 |-> few[n + 1]] \o [n \in 1..3 |-> onebad[n + 1]]
     \o << R("name", "T", <<"zz">>, <<l[1].ty>>), R("name", "T", <<"">>, <<l[1].ty>>), R("type", "T", <<>>, <<"uintptr">>),
           R("name", "T", <<keys[1], "zz">>, <<tyOf(keys[1]), "int8">>), R("type", "T", <<>>, <<types[1], "uintptr">>),
           R("name", "*T", <<keys[1]>>, <<tyOf(keys[1])>>), R("type", "*T", <<>>, <<types[1]>>),
           R("name", "*T", <<"zz">>, <<"int8">>) >>
     \o closeN \o closeT \o closeE \o anyN

(* ------------------------------------------------------------------ abstract memory *)
Guard == 8
GuardVal == 9
\* The modelled bytes: all of [-Guard, size + Guard) for ordinary structs.  For a container with a huge array only the
\* bytes next to a *cut* are kept - a cut is the start or end of a cell, of an as-coded footprint, or of the struct.
\* Every write starts and ends at a cut, so each stretch between two cuts is written entirely or not at all and is
\* represented by the byte at its start.
Cuts(sh) == LET cs == Cells(sh)  u == Unfold(sh) IN
            {0, SSize(sh)} \cup {cs[c].off : c \in {c \in 1..Len(cs) : cs[c].own}} \cup {cs[c].off + cs[c].size : c \in {c \in 1..Len(cs) : cs[c].own}}
            \cup {u[j].root + u[j].off : j \in 1..Len(u)} \cup {u[j].root + u[j].off + FSize(FieldAt(sh, u[j].pos)) : j \in 1..Len(u)}
Bytes(sh) == IF SSize(sh) <= 4096 THEN (0 - Guard)..(SSize(sh) + Guard - 1)
             ELSE ((0 - Guard)..(0 - 1)) \cup (SSize(sh)..(SSize(sh) + Guard - 1))
                  \cup {b \in UNION {{c - 1, c, c + 1} : c \in Cuts(sh)} : b >= 0 /\ b < SSize(sh)}
InitMem(sh) == [b \in Bytes(sh) |-> IF b < 0 \/ b >= SSize(sh) THEN GuardVal ELSE 0]
\* I: the raw write / read of a footprint (bytes outside the modelled window are simply not recorded)
PutBytes(mem, lo, hi, v) == [b \in DOMAIN mem |-> IF lo <= b /\ b < hi THEN v ELSE mem[b]]
CellVal(mem, c) == IF c.size = 0 THEN 0
                   ELSE LET x == mem[c.off] IN IF \A b \in {b \in DOMAIN mem : c.off <= b /\ b < c.off + c.size} : mem[b] = x THEN x % c.nv ELSE -1
\* the values of the own cells (cells behind a pointer are not in this memory: -2); cs = Cells(sh)
CellVals(cs, mem) == [c \in 1..Len(cs) |-> IF cs[c].own THEN CellVal(mem, cs[c]) ELSE -2]
GetBytes(cs, mem, lo, hi) ==      \* what the read returns, decoded cell by cell (non-empty cells fully inside the footprint)
  [c \in {c \in 1..Len(cs) : cs[c].own /\ cs[c].size > 0 /\ lo <= cs[c].off /\ cs[c].off + cs[c].size <= hi} |-> CellVal(mem, cs[c])]
\* P: Put of value v through a lens with focus <<flo, fhi>>
PutCells(cs, vals, flo, fhi, v) == [c \in 1..Len(cs) |-> IF flo <= c /\ c <= fhi /\ cs[c].own THEN v % cs[c].nv ELSE vals[c]]
\* bytes that must keep their content: everything outside the focused field's extent
Outside(mem, elo, ehi) == [b \in {b \in DOMAIN mem : b < elo \/ b >= ehi} |-> mem[b]]

\* C01 on one by-value entry j of the listing: the footprint of the lens that keeps the unfolded entry u[j] is the
\* field's extent; a Put through it gives exactly the field's cells the value and leaves every other cell, hole and
\* guard byte alone; Get reads exactly those cells
EntryExact(sh, u, l, cs, j) ==
  LET lo == u[j].root + u[j].off  hi == lo + FSize(FieldAt(sh, u[j].pos))  f == Focus(sh, l[j].pos)  m0 == InitMem(sh) IN
  /\ lo = l[j].abs /\ hi = l[j].abs + l[j].size
  /\ \A v \in 1..2 :
       LET m1 == PutBytes(m0, lo, hi, v) IN
       /\ CellVals(cs, m1) = PutCells(cs, CellVals(cs, m0), f[1], f[2], v)
       /\ Outside(m1, l[j].abs, l[j].abs + l[j].size) = Outside(m0, l[j].abs, l[j].abs + l[j].size)
       /\ LET g == GetBytes(cs, m1, lo, hi) IN
            /\ DOMAIN g = {c \in f[1]..f[2] : cs[c].own /\ cs[c].size > 0}
            /\ \A c \in DOMAIN g : g[c] = v % cs[c].nv
\* ... and every request the statement calls valid derives the lens of its first-match entry
LensExact(sh, guarded) ==
  LET u == Unfold(sh)  l == Listing(sh)  rs == Requests(sh, l)  cs == Cells(sh) IN
  /\ \A j \in 1..Len(l) : l[j].byval => EntryExact(sh, u, l, cs, j)
  /\ \A r \in 1..Len(rs) :
       LET w == Want(l, rs[r]) IN
       w.out = "lens" => LET d == Derive(sh, u, l, rs[r], guarded) IN
                         d.out = "lens" /\ \A i \in 1..Arity(rs[r]) : d.lens[i].entry = w.ents[i] /\ <<d.lens[i].lo, d.lens[i].hi>> = ExtOf(l, w.ents[i])
====
