---- MODULE Layout ----
(* Struct shapes and their gc/amd64 memory layout, declaratively.

   A *shape* is a finite tree: a sequence of fields
       [name |-> STRING, tag |-> [txt, key], ty |-> STRING, emb |-> "no" | "val" | "ptr", sub |-> shape]
     emb = "no",  ty \in PaletteTypes : a leaf of a palette type (sub = <<>>)
     emb = "no",  ty \notin Palette   : a field of a *named struct type* ty = "S<n>" whose fields are `sub`
     emb = "val" / "ptr"              : an embedded struct type ty = "E<n>" (by value / by pointer) with fields `sub`;
                                        the field's name is the type's name (Go rule)
   The palette lists Go types by (size, align) class.  `tag` is the struct tag: txt = the value of the `hseq` key
   as written ("" = none, "json" = a tag with other keys only), key = its first comma-separated part. *)
EXTENDS Integers, Sequences, FiniteSets, TLC

PaletteTypes == {"bool", "int8", "int16", "int32", "int64", "string", "[]byte", "*int", "any", "[3]int8",
                 "struct{}", "[0]int64", "uint16", "float64", "float32", "complex128", "[65536]byte", "uintptr", "fmt.Stringer",
                 "map[string]int", "map[int]int", "map[int8]int", "chan int", "<-chan int", "chan<- int",
                 "uint8", "opticsdrv.Label", "opticsdrv.Tag", "opticsdrv.Byte8", "opticsdrv.Count", "Same", "PkgSame"}

LeafSize(t) == CASE t = "bool" -> 1 [] t = "int8" -> 1 [] t = "int16" -> 2 [] t = "int32" -> 4 [] t = "int64" -> 8
                 [] t = "string" -> 16 [] t = "[]byte" -> 24 [] t = "*int" -> 8 [] t = "any" -> 16
                 [] t = "[3]int8" -> 3 [] t = "struct{}" -> 0 [] t = "[0]int64" -> 0 [] t = "uint16" -> 2
                 [] t = "float64" -> 8 [] t = "float32" -> 4 [] t = "complex128" -> 16 [] t = "[65536]byte" -> 65536
                 [] t = "uintptr" -> 8 [] t = "fmt.Stringer" -> 16
                 [] t \in {"map[string]int", "map[int]int", "map[int8]int", "chan int", "<-chan int", "chan<- int", "opticsdrv.Count"} -> 8
                 [] t \in {"uint8", "opticsdrv.Byte8"} -> 1 [] t \in {"opticsdrv.Label", "opticsdrv.Tag", "Same", "PkgSame"} -> 16
LeafAlign(t) == CASE t = "bool" -> 1 [] t = "int8" -> 1 [] t = "int16" -> 2 [] t = "int32" -> 4 [] t = "int64" -> 8
                 [] t = "string" -> 8 [] t = "[]byte" -> 8 [] t = "*int" -> 8 [] t = "any" -> 8
                 [] t = "[3]int8" -> 1 [] t = "struct{}" -> 1 [] t = "[0]int64" -> 8 [] t = "uint16" -> 2
                 [] t = "float64" -> 8 [] t = "float32" -> 4 [] t = "complex128" -> 8 [] t = "[65536]byte" -> 1
                 [] t = "uintptr" -> 8 [] t = "fmt.Stringer" -> 8
                 [] t \in {"map[string]int", "map[int]int", "map[int8]int", "chan int", "<-chan int", "chan<- int", "opticsdrv.Count"} -> 8
                 [] t \in {"uint8", "opticsdrv.Byte8"} -> 1 [] t \in {"opticsdrv.Label", "opticsdrv.Tag", "Same", "PkgSame"} -> 8
\* types that are *not* identical to t but structurally close to it: maps with the same element type and another key
\* type, channels of another direction, defined types (type Label string, type Tag string, type Byte8 uint8,
\* type Count int64 in the harness) against their underlying type and against each other; "Same" / "PkgSame": two
\* *different* defined types with the same printed name and the same kind - `type Same string` declared inside the function
\* that declares the struct, and the package-level `type Same string` of the same package, reached through an alias
CloseClasses == { {"map[string]int", "map[int]int", "map[int8]int"}, {"chan int", "<-chan int", "chan<- int"},
                  {"string", "opticsdrv.Label", "opticsdrv.Tag"}, {"Same", "PkgSame"}, {"uint8", "opticsdrv.Byte8"}, {"int64", "opticsdrv.Count"} }
CloseTypes(t) == UNION {C \ {t} : C \in {C \in CloseClasses : t \in C}}
CloseAll(S) == UNION {CloseTypes(t) : t \in S}
\* how many distinguishable values the harness knows for a leaf type (value index 0 = the zero value)
\* `any`: the nil interface, two boxed floats (+0, -0) and four non-nil interfaces that hold a nil (pointer, map, slice,
\* func); fmt.Stringer (an interface with a method): nil, a typed nil pointer, a non-nil pointer
LeafVals(t) == CASE t = "bool" -> 2 [] t = "struct{}" -> 1 [] t = "[0]int64" -> 1 [] t = "any" -> 7 [] OTHER -> 3
MaxVals == 7

NoTag == [txt |-> "", key |-> ""]

IsLeaf(f)   == f.emb = "no" /\ f.ty \in PaletteTypes
IsNamed(f)  == f.emb = "no" /\ f.ty \notin PaletteTypes     \* non-embedded field of a named struct type
IsEmb(f)    == f.emb # "no"
HasSub(f)   == ~IsLeaf(f)
\* the declared Go type of the field, as hseq reports it (reflect.StructField.Type)
DeclType(f) == IF f.emb = "ptr" THEN "*" \o f.ty ELSE f.ty

MaxOf(a, b) == IF a > b THEN a ELSE b
AlignUp(o, a) == ((o + a - 1) \div a) * a

RECURSIVE SSize(_), SAlign(_), OffsFrom(_,_,_)
FSize(f)  == IF f.emb = "ptr" THEN 8 ELSE IF IsLeaf(f) THEN LeafSize(f.ty) ELSE SSize(f.sub)
FAlign(f) == IF f.emb = "ptr" THEN 8 ELSE IF IsLeaf(f) THEN LeafAlign(f.ty) ELSE SAlign(f.sub)
\* struct alignment = the largest field alignment (1 for the empty struct)
SAlign(sh) == IF sh = <<>> THEN 1 ELSE MaxOf(FAlign(Head(sh)), SAlign(Tail(sh)))
\* offsets of fields i.. of sh when the first free byte is o: every field at the next multiple of its alignment
OffsFrom(sh, i, o) == IF i > Len(sh) THEN <<>>
                      ELSE LET a == AlignUp(o, FAlign(sh[i])) IN <<a>> \o OffsFrom(sh, i + 1, a + FSize(sh[i]))
Offsets(sh) == OffsFrom(sh, 1, 0)
EndOf(sh) == IF sh = <<>> THEN 0 ELSE Offsets(sh)[Len(sh)] + FSize(sh[Len(sh)])
\* size: a non-empty struct that ends in a zero-size field gets one byte of padding (golang/go#9401),
\* then everything is rounded up to the struct's alignment
SSize(sh) == LET e == EndOf(sh)
                 e2 == IF e > 0 /\ FSize(sh[Len(sh)]) = 0 THEN e + 1 ELSE e
             IN AlignUp(e2, SAlign(sh))

(* ---- positions: a field is addressed by its index path <<i1, i2, ...>> from the top struct *)
RECURSIVE FieldAt(_,_), TrueOffset(_,_), ByValue(_,_)
FieldAt(sh, p) == IF Len(p) = 1 THEN sh[p[1]] ELSE FieldAt(sh[p[1]].sub, Tail(p))
\* the real byte offset of the field in the outer struct; meaningful when no pointer is crossed on the way
TrueOffset(sh, p) == IF Len(p) = 1 THEN Offsets(sh)[p[1]]
                     ELSE Offsets(sh)[p[1]] + TrueOffset(sh[p[1]].sub, Tail(p))
\* the field is stored inside the outer struct's own memory (no embedded pointer among its proper ancestors)
ByValue(sh, p) == IF Len(p) = 1 THEN TRUE ELSE sh[p[1]].emb # "ptr" /\ ByValue(sh[p[1]].sub, Tail(p))
NamePath(sh, p) == [j \in 1..Len(p) |-> FieldAt(sh, SubSeq(p, 1, j)).name]

(* ---- padding holes of the outer struct's own memory: maximal byte ranges covered by no leaf.
   Leaves(sh, base) = extents <<lo, hi>> of all leaf cells stored by value (pointers are 8-byte leaves). *)
RECURSIVE LeafExtents(_,_)
LeafExtents(sh, base) ==
  LET os == Offsets(sh) IN
  UNION { LET f == sh[i] IN
          IF f.emb = "ptr" \/ IsLeaf(f) THEN {<<base + os[i], base + os[i] + FSize(f)>>}
          ELSE LeafExtents(f.sub, base + os[i]) : i \in 1..Len(sh) }
\* a byte is padding when no leaf covers it
HoleBytes(sh) == LET ex == LeafExtents(sh, 0)
                     big == {e \in ex : e[2] - e[1] > 4096}        \* huge arrays: not enumerated byte by byte
                     cand == UNION {IF e \in big THEN {} ELSE e[1]..(e[2] - 1) : e \in ex}
                     rest == IF big = {} THEN 0..(SSize(sh) - 1)
                             ELSE UNION {(lo)..(hi - 1) : <<lo, hi>> \in {<<a, b>> \in ({0} \cup {e[2] : e \in ex}) \X ({SSize(sh)} \cup {e[1] : e \in ex}) :
                                                                       a <= b /\ b - a <= 64 /\ \A e \in ex : e[2] <= a \/ e[1] >= b \/ e[1] = e[2]}}
                 IN {b \in rest : \A e \in ex : b < e[1] \/ b >= e[2]}
====
