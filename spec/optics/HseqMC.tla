---- MODULE HseqMC ----
(* C03, exhaustive: on every shape within the bound (and on the boundary shapes) the unfold-as-coded equals the
   declarative listing, the scans return the first match, selection keeps the request order. *)
EXTENDS LayoutShapes, Hseq, LayoutBoundary
CONSTANTS WithBoundary
MCInit == sh \in (IF WithBoundary THEN {<<>>} \cup BoundarySetHseq ELSE {<<>>})
Spec == MCInit /\ [][Next]_sh

C03_Listing == UnfoldIsListing(sh)
C03_Lookup == ScansAreFirstMatch(sh, "zz", "uintptr")
C03_InBounds == ByValueInBounds(sh)
\* New(names) keeps the requested order (all pairs of keys, both orders, the repeated key); FMapN is positional
C03_Select == LET u == Unfold(sh)  l == Listing(sh) IN
  \A a \in KeysOf(l), b \in KeysOf(l) :
     LET ix == NewByNames(u, <<a, b>>) IN ix = <<FirstKey(l, a), FirstKey(l, b)>> /\ FMapN(ix, 2) = ix /\ FMapN(ix, 3) = <<>>
====
