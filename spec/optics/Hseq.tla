---- MODULE Hseq ----
(* github.com/fogfish/golem/hseq over the shapes of Layout.tla.

   I layer - the code as written (hseq.go):
     Unfold          `unfold`: running `offset`, ID = len(seq) at the moment of the append, every embedded struct
                     (by value or through a pointer: `ft.Kind() == Ptr -> ft.Elem()`) is appended and then
                     descended into with `offset + fv.Offset` - also when the descent crosses a pointer
     FieldKey        first comma-separated part of the `hseq` tag, else the field name
     ForName/ForType/ForNameMaybe   linear first-match scans; New(names) / New1..9 / FMap1..9 positional
   P layer - what the statement of C03 promises (declarative):
     Listing         depth-first pre-order of the fields, an embedded struct immediately followed by its fields;
                     IDs = consecutive positions; for entries reached without crossing a pointer the real offset
                     (Layout!TrueOffset)
     first match = the least position with the key / type *)
EXTENDS Layout

FieldKey(f) == IF f.tag.key # "" THEN f.tag.key ELSE f.name

(* ------------------------------------------------------------------ I: unfold as coded *)
\* an entry = hseq.Type[T]: StructField (name, tag -> key, declared type, Offset), RootOffs, ID;
\* `crossed` and `pos` are ghost fields (not in the code): was a pointer crossed, and which field is this
RECURSIVE UnfoldFrom(_,_,_,_,_,_)
UnfoldFrom(cat, i, seq, offset, crossed, pos) ==
  IF i > Len(cat) THEN seq
  ELSE LET fv == cat[i]
           e == [name |-> fv.name, key |-> FieldKey(fv), ty |-> DeclType(fv), root |-> offset,
                 off |-> Offsets(cat)[i], id |-> Len(seq), crossed |-> crossed, pos |-> Append(pos, i)]
       IN IF IsEmb(fv)      \* fv.Anonymous && ft.Kind() == reflect.Struct  (ft already dereferenced)
          THEN UnfoldFrom(cat, i + 1,
                          UnfoldFrom(fv.sub, 1, Append(seq, e), offset + e.off, crossed \/ fv.emb = "ptr", Append(pos, i)),
                          offset, crossed, pos)
          ELSE UnfoldFrom(cat, i + 1, Append(seq, e), offset, crossed, pos)
Unfold(sh) == UnfoldFrom(sh, 1, <<>>, 0, FALSE, <<>>)

\* linear scans as coded: index of the first hit, 0 = fell off the end (panic / (zero, false))
RECURSIVE ScanKey(_,_,_), ScanType(_,_,_)
ScanKey(seq, i, k) == IF i > Len(seq) THEN 0 ELSE IF seq[i].key = k THEN i ELSE ScanKey(seq, i + 1, k)
ScanType(seq, i, t) == IF i > Len(seq) THEN 0 ELSE IF seq[i].ty = t THEN i ELSE ScanType(seq, i + 1, t)
ForName(seq, k) == ScanKey(seq, 1, k)
ForType(seq, t) == ScanType(seq, 1, t)
\* hseq.New[T](names...) / hseq.NewN[T, A...]: sequence of indices into the full listing; a 0 anywhere = panic
NewByNames(seq, names) == [i \in 1..Len(names) |-> ForName(seq, names[i])]
NewByTypes(seq, types) == [i \in 1..Len(types) |-> ForType(seq, types[i])]
Panics(ix) == \E i \in 1..Len(ix) : ix[i] = 0
\* FMapN(ts, f1..fN): function i receives ts[i]; shorter ts -> index out of range (panic)
FMapN(ts, n) == IF Len(ts) < n THEN <<>> ELSE [i \in 1..n |-> ts[i]]

(* ------------------------------------------------------------------ P: the listing the statement describes *)
RECURSIVE PosFrom(_,_,_)
PosFrom(sh, i, prefix) ==
  IF i > Len(sh) THEN <<>>
  ELSE <<Append(prefix, i)>>
       \o (IF IsEmb(sh[i]) THEN PosFrom(sh[i].sub, 1, Append(prefix, i)) ELSE <<>>)
       \o PosFrom(sh, i + 1, prefix)
Listing(sh) ==
  LET ps == PosFrom(sh, 1, <<>>) IN
  [j \in 1..Len(ps) |->
     LET f == FieldAt(sh, ps[j])  bv == ByValue(sh, ps[j]) IN
     [name |-> f.name, key |-> FieldKey(f), ty |-> DeclType(f), id |-> j - 1, byval |-> bv,
      abs |-> IF bv THEN TrueOffset(sh, ps[j]) ELSE -1, size |-> FSize(f), pos |-> ps[j]]]
FirstKey(l, k) == LET S == {j \in 1..Len(l) : l[j].key = k} IN IF S = {} THEN 0 ELSE CHOOSE j \in S : \A x \in S : j <= x
FirstType(l, t) == LET S == {j \in 1..Len(l) : l[j].ty = t} IN IF S = {} THEN 0 ELSE CHOOSE j \in S : \A x \in S : j <= x
KeysOf(l) == {l[j].key : j \in 1..Len(l)}
TypesOf(l) == {l[j].ty : j \in 1..Len(l)}

(* ------------------------------------------------------------------ I refines P (checked by HseqMC on every shape) *)
UnfoldIsListing(sh) ==
  LET u == Unfold(sh)  l == Listing(sh) IN
  /\ Len(u) = Len(l)
  /\ \A j \in 1..Len(l) :
       /\ u[j].pos = l[j].pos /\ u[j].name = l[j].name /\ u[j].key = l[j].key /\ u[j].ty = l[j].ty
       /\ u[j].id = j - 1
       /\ u[j].crossed = ~l[j].byval
       /\ l[j].byval => u[j].root + u[j].off = l[j].abs
ScansAreFirstMatch(sh, unknownKey, absentType) ==
  LET u == Unfold(sh)  l == Listing(sh) IN
  /\ \A k \in KeysOf(l) \cup {unknownKey} : ForName(u, k) = FirstKey(l, k)
  /\ \A t \in TypesOf(l) \cup {absentType} \cup CloseAll(TypesOf(l)) : ForType(u, t) = FirstType(l, t)
\* entries stored by value lie inside the struct (used by Optics: such an entry is a legitimate focus)
ByValueInBounds(sh) ==
  LET l == Listing(sh) IN \A j \in 1..Len(l) : l[j].byval => l[j].abs >= 0 /\ l[j].abs + l[j].size <= SSize(sh)
====
