---- MODULE OpticsComposeMC ----
(* C04, exhaustive over pairs of structures (S, T) built by the LayoutShapes actions (value embedding only).
     C04_Single   on every S: every Join chain to depth 3 (both nestings) is the lens on the nested field and lawful;
                  BiMap (both conversions) lawful on the converted value; Getter never writes; Setter writes exactly
                  the converted value; ShapeN = its component lenses
     C04_Pair     on every (S, T): for every list of length <= 3 over the type-compatible isos (pairwise different
                  target fields) and nil, from several states of both structures: Forward then Inverse restores S,
                  Forward changes only the target foci, Inverse only the source foci; the same against a map *)
EXTENDS OpticsCompose
CONSTANTS LeafTypes, EmbKinds, NamedStructs, NameMode, TagMode, MaxFields, MaxDepth, MaxSub, MaxTotal,
          MaxFieldsT, MaxDepthT, MaxTotalT, MaxIsos
VARIABLES sS, sT
SB == INSTANCE LayoutShapes WITH sh <- sS, TypePrefix <- ""
TB == INSTANCE LayoutShapes WITH sh <- sT, TypePrefix <- "U", NamedStructs <- FALSE, MaxFields <- MaxFieldsT, MaxDepth <- MaxDepthT, MaxTotal <- MaxTotalT
Init == sS = <<>> /\ sT = <<>>
Next == (sT = <<>> /\ SB!Next /\ UNCHANGED sT) \/ (sS # <<>> /\ TB!Next /\ UNCHANGED sS)
Spec == Init /\ [][Next]_<<sS, sT>>

Wraps(x) == {[kind |-> k, l |-> Prim(<<x.cell, x.cell>>), conv |-> cv, nv |-> x.nv] : k \in {"bimap", "getter", "setter"}, cv \in {"rot", "cast"}}
C04_Single ==
  (sS # <<>> /\ sT = <<>>) =>
  LET cs == Cells(sS)  lens == LeafLenses(sS)  mems == {Pattern(cs, r) : r \in 0..2} IN
  /\ \A ch \in ChainsFrom(sS, "T0", 3), nest \in {"left", "right"}, vals \in mems :
       LET l == Tree(ch, nest)  f == AbsFocus(l) IN
       /\ f = Focus(sS, AbsPos(ch, 1))
       /\ \A k \in 0..2 : JoinIsLens(l, vals, Val(cs, f, k))
       /\ Lawful([kind |-> "lens", l |-> l], vals, Val(cs, f, 1), Val(cs, f, 2))
  /\ \A i \in 1..Len(lens), vals \in mems : \A w \in Wraps(lens[i]) : \A y \in 0..(lens[i].nv - 1) :
       CASE w.kind = "bimap" -> Lawful(w, vals, <<y>>, <<(y + 1) % w.nv>>)
         [] w.kind = "getter" -> GetterNeverWrites(w, vals, <<y>>) /\ UGet(w, vals) = <<Fwd(w.conv, vals[lens[i].cell], w.nv)>>
         [] w.kind = "setter" -> SetterWritesConverted(w, vals, <<y>>)
  /\ \A n \in 2..Len(lens), vals \in mems, r \in 0..2 :
       LET ls == [i \in 1..n |-> Prim(<<lens[i].cell, lens[i].cell>>)]  ys == [i \in 1..n |-> <<(i + r) % lens[i].nv>>]
       IN ShapeAsComponents(ls, vals, ys)

\* the isos of a pair: same leaf type on both sides
IsoSet(ls, lt) == LET all == {[kind |-> "iso", s |-> Prim(<<ls[i].cell, ls[i].cell>>), t |-> Prim(<<lt[j].cell, lt[j].cell>>), si |-> i, ti |-> j] :
                                i \in {i \in 1..Len(ls) : TRUE}, j \in {j \in 1..Len(lt) : TRUE}} IN
                  {x \in all : ls[x.si].ty = lt[x.ti].ty}
\* lists of length <= 3 whose different isos have different target fields
Lists(isos) == LET E == isos \cup {Nil}
                   ok(q) == \A a \in 1..Len(q), b \in 1..Len(q) : (q[a].kind # "nil" /\ q[b].kind # "nil" /\ q[a] # q[b]) => q[a].ti # q[b].ti
               IN {q \in (UNION {[1..n -> E] : n \in 1..3}) : ok(q)}
Some(S, n) == IF Cardinality(S) <= n THEN S ELSE {x \in S : Cardinality({y \in S : y.si * 100 + y.ti < x.si * 100 + x.ti}) < n}
MapKeys == {"k1", "k2", "k3"}
IsoSetM(ls) == {[kind |-> "isoM", s |-> Prim(<<ls[i].cell, ls[i].cell>>), key |-> k, si |-> i, ti |-> IF k = "k1" THEN 1 ELSE 2] :
                  i \in {i \in 1..Len(ls) : ls[i].ty = ls[1].ty}, k \in {"k1", "k2"}}
C04_Pair ==
  (sS # <<>> /\ sT # <<>>) =>
  LET csS == Cells(sS)  csT == Cells(sT)  ls == LeafLenses(sS)  lt == LeafLenses(sT) IN
  /\ \A q \in Lists(Some(IsoSet(ls, lt), MaxIsos)), r1 \in 0..2, r2 \in 0..2 :
       /\ RoundTrip(q, Pattern(csS, r1), Pattern(csT, r2))
       /\ InverseFrame(q, Pattern(csT, r2), Pattern(csS, r1))
  /\ Len(ls) > 0 =>
       \A q \in Lists(Some(IsoSetM(ls), MaxIsos)), r1 \in 0..2, m \in {[k \in MapKeys |-> -1], [k \in MapKeys |-> IF k = "k3" THEN 2 ELSE 1]} :
          /\ RoundTripM(q, Pattern(csS, r1), m)
          /\ InverseFrame(q, m, Pattern(csS, r1))
          /\ \A k \in MapKeys : MapOnlyKey(m, k, 2)
====
