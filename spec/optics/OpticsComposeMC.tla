---- MODULE OpticsComposeMC ----
(* C04, exhaustive over pairs of structures (S, T) built by the LayoutShapes actions (value embedding only).
     C04_Single   on every S: every Join chain to depth 3 (both nestings) is the lens on the nested field and lawful;
                  BiMap (both conversions) lawful on the converted value; Getter never writes; Setter writes exactly
                  the converted value; ShapeN = its component lenses
     C04_Pair     on every (S, T): for every list of length <= 3 over the type-compatible isos (pairwise different
                  target fields) and nil, from several states of both structures: Forward then Inverse restores S,
                  Forward changes only the target foci, Inverse only the source foci; the same against a map *)
EXTENDS OpticsCompose, LayoutBoundary
CONSTANTS LeafTypes, EmbKinds, NamedStructs, NameMode, TagMode, MaxFields, MaxDepth, MaxSub, MaxTotal,
          MaxFieldsT, MaxDepthT, MaxTotalT, MaxIsos, WithBoundary, Reuse
VARIABLES sS, sT
SB == INSTANCE LayoutShapes WITH sh <- sS, TypePrefix <- ""
TB == INSTANCE LayoutShapes WITH sh <- sT, TypePrefix <- "U", NamedStructs <- FALSE, MaxFields <- MaxFieldsT, MaxDepth <- MaxDepthT, MaxTotal <- MaxTotalT
\* hand-written pairs (initial states next to the empty pair): Join chains through named and embedded structs with
\* padding, nine-field structs for the ShapeN arities, isos between fields at different offsets
BoundaryPairs == {
  << Boundary[15], << L("F1", "int8"), L("f2", "int64"), L("F3", "int16"), L("f4", "[3]int8") >> >>,
  << Boundary[13], << L("I", "*int"), L("H", "any"), L("G", "int32"), L("F", "[]byte"), L("E", "int8"), L("D", "string"), L("C", "int16"), L("B", "int64"), L("A", "bool") >> >>,
  << Boundary[14], Boundary[14] >>,
  << Boundary[6], << L("A", "bool"), L("B", "int64"), L("C", "bool"), L("D", "int32"), L("E", "int16") >> >>,
  << << L("A", "int8"), NS("S", "S1", << L("A", "int8"), EV("E1", << L("B", "int64"), NS("T", "S2", << L("C", "int16"), L("D", "bool") >>) >>), L("Z", "string") >>), L("B", "int64") >>,
     << L("A", "string"), EV("UE1", << L("B", "int8"), L("C", "int64") >>) >> >>,
  << Boundary[18], << L("X", "float64"), L("Y", "uint16"), L("Z", "[]byte"), L("W", "string") >> >>,
  \* one field for each of BiMapF / BiMapB / BiMapS (BiMapI is everywhere)
  << << L("A", "float64"), L("B", "[]byte"), L("C", "string"), L("D", "float64"), L("E", "[]byte"), L("F", "string"), L("G", "int32"), L("H", "int32") >>,
     << L("X", "string"), L("Y", "float64"), L("Z", "[]byte") >> >> }

Init == \E p \in ({<<<<>>, <<>>>>} \cup (IF WithBoundary THEN BoundaryPairs ELSE {})) : sS = p[1] /\ sT = p[2]
Next == (sT = <<>> /\ SB!Next /\ UNCHANGED sT) \/ (sS # <<>> /\ TB!Next /\ UNCHANGED sS)
Spec == Init /\ [][Next]_<<sS, sT>>

Wraps(x) == {[kind |-> k, l |-> Prim(<<x.cell, x.cell>>), conv |-> cv, nv |-> x.nv] : k \in {"bimap", "getter", "setter"}, cv \in {"rot", "cast"}}
C04_Single ==
  (sS # <<>> /\ sT = <<>>) =>
  LET cs == Cells(sS)  lens == LeafLenses(sS)  mems == {Pattern(cs, r) : r \in 0..2} IN
  /\ \A ch \in ChainsFrom(sS, "T0", 3), nest \in {"left", "right"}, vals \in mems :
       LET l == Tree(ch, nest)  f == AbsFocus(l) IN
       /\ f = Focus(sS, AbsPos(ch, 1))
       /\ \A k \in 0..2 : JoinIsLens(l, vals, Val(cs, f, k))
       /\ Lawful([kind |-> "lens", l |-> l], vals, Val(cs, f, 1), Val(cs, f, 2))
  /\ \A i \in 1..Len(lens), vals \in mems : \A w \in Wraps(lens[i]) : \A y \in 0..(lens[i].nv - 1) :
       CASE w.kind = "bimap" -> Lawful(w, vals, <<y>>, <<(y + 1) % w.nv>>)
         [] w.kind = "getter" -> GetterNeverWrites(w, vals, <<y>>) /\ UGet(w, vals) = <<Fwd(w.conv, vals[lens[i].cell], w.nv)>>
         [] w.kind = "setter" -> SetterWritesConverted(w, vals, <<y>>)
  /\ \A n \in 2..Len(lens), vals \in mems, r \in 0..2 :
       LET ls == [i \in 1..n |-> Prim(<<lens[i].cell, lens[i].cell>>)]  ys == [i \in 1..n |-> <<(i + r) % lens[i].nv>>]
       IN ShapeAsComponents(ls, vals, ys)

\* the isos of a pair (same leaf type on both sides), at most MaxIsos of them, as a sequence
PlainIsos(ls, lt) == LET all == {<<i, j>> \in (1..Len(ls)) \X (1..Len(lt)) : ls[i].ty = lt[j].ty}
                         few == {x \in all : Cardinality({y \in all : y[1] * 100 + y[2] < x[1] * 100 + x[2]}) < MaxIsos}
                         sq == SetToSeq(few)
                     IN [n \in 1..Len(sq) |-> [kind |-> "iso", s |-> Prim(<<ls[sq[n][1]].cell, ls[sq[n][1]].cell>>),
                                                 t |-> Prim(<<lt[sq[n][2]].cell, lt[sq[n][2]].cell>>), si |-> sq[n][1], ti |-> sq[n][2],
                                                 sw |-> PlainW, tw |-> PlainW, x |-> FALSE, seqix |-> <<>>]]
Castable(t) == t \in {"int8", "int16", "int32", "int64", "string", "[]byte", "float64"}
\* ... followed by isos over wrapped lenses on the first pair of three-valued fields, and by Morphisms used as entries:
\*   BiMap/BiMap with the same and with different conversions, Getter -> Setter, BiMapX/BiMapX (x = TRUE),
\*   Morphism(wrapped, nil, wrapped), Morphism(plain) and Morphism(Getter->Setter iso, another plain iso)
IsoSeq(ls, lt) ==
  LET plain == PlainIsos(ls, lt)
      c3 == {n \in 1..Len(plain) : ls[plain[n].si].nv = 3 /\ lt[plain[n].ti].nv = 3}
      b == IF c3 = {} THEN 0 ELSE CHOOSE n \in c3 : \A m \in c3 : n <= m
      W(k, cv) == [kind |-> k, conv |-> cv, nv |-> 3]
      V(sk, scv, tk, tcv, x) == [plain[b] EXCEPT !.sw = W(sk, scv), !.tw = W(tk, tcv), !.x = x]
      wrapped == IF b = 0 THEN <<>>
                 ELSE << V("bimap", "rot", "bimap", "rot", FALSE), V("bimap", "rot", "bimap", "cast", FALSE), V("getter", "rot", "setter", "cast", FALSE) >>
                      \o (IF Castable(ls[plain[b].si].ty) THEN << V("bimap", "cast", "bimap", "cast", TRUE) >> ELSE <<>>)
      base == plain \o wrapped
      other == IF Len(plain) = 0 THEN 0 ELSE IF b # 1 THEN 1 ELSE IF Len(plain) >= 2 /\ plain[2].ti # plain[1].ti THEN 2 ELSE 0
      N(q) == [kind |-> "morph", seq |-> [i \in 1..Len(q) |-> IF q[i] = 0 THEN Nil ELSE base[q[i]]], seqix |-> q,
               s |-> Prim(<<1, 1>>), t |-> Prim(<<1, 1>>), si |-> 0, ti |-> 0, sw |-> PlainW, tw |-> PlainW, x |-> FALSE]
      w1 == Len(plain) + 1
      nested == (IF Len(plain) = 0 THEN <<>> ELSE << N(<<1>>) >>)
                \o (IF b = 0 THEN <<>> ELSE << N(<<w1, 0, w1>>) >> \o (IF other = 0 THEN <<>> ELSE << N(<<w1 + 2, other>>) >>))
  IN base \o nested
NPlain(isos) == Cardinality({n \in 1..Len(isos) : isos[n].kind = "iso" /\ isos[n].sw.kind = "lens" /\ isos[n].tw.kind = "lens"})
\* the target cells an entry writes
Targets(e) == LET lv == Leaves(<<e>>) IN {AbsFocus(lv[i].t)[1] : i \in 1..Len(lv)}
MapKeys == {"k1", "k2", "k3"}
\* ... against a map[string]A, A = the type of the first leaf lens of S: fields of that type paired with two keys
IsoSeqM(ls) == LET all == {<<i, k>> \in (1..Len(ls)) \X {1, 2} : ls[i].ty = ls[1].ty}
                   few == {x \in all : Cardinality({y \in all : y[1] * 100 + y[2] < x[1] * 100 + x[2]}) < MaxIsos}
                   sq == SetToSeq(few)
               IN [n \in 1..Len(sq) |-> [kind |-> "isoM", s |-> Prim(<<ls[sq[n][1]].cell, ls[sq[n][1]].cell>>),
                                           key |-> IF sq[n][2] = 1 THEN "k1" ELSE "k2", si |-> sq[n][1], ti |-> sq[n][2]]]
\* lists (of indices into an iso sequence, 0 = nil) whose different entries write different targets: every list of
\* length <= 3 over the plain isos and nil; every list of length <= 2 over all entries; and x, nil, x / x, plain, x
ListsOver(isos, n, len) == LET ok(q) == \A a \in 1..Len(q), b \in 1..Len(q) :
                                          (q[a] # 0 /\ q[b] # 0 /\ q[a] # q[b]) => Targets(isos[q[a]]) \cap Targets(isos[q[b]]) = {}
                           IN {q \in (UNION {[1..m -> 0..n] : m \in 1..len}) : ok(q)}
Lists(isos) == IF Len(isos) > 0 /\ isos[1].kind = "isoM"
               THEN LET ok(q) == \A a \in 1..Len(q), b \in 1..Len(q) : (q[a] # 0 /\ q[b] # 0 /\ q[a] # q[b]) => isos[q[a]].ti # isos[q[b]].ti
                    IN {q \in (UNION {[1..n -> 0..Len(isos)] : n \in 1..3}) : ok(q)}
               ELSE LET np == NPlain(isos)  ext == (np + 1)..Len(isos) IN
                    ListsOver(isos, np, 3) \cup ListsOver(isos, Len(isos), 2)
                    \cup {<<a, 0, a>> : a \in ext}
                    \cup {q \in {<<a, p, a>> : a \in ext, p \in 1..np} : Targets(isos[q[1]]) \cap Targets(isos[q[2]]) = {}}
Entries(isos, q) == [i \in 1..Len(q) |-> IF q[i] = 0 THEN Nil ELSE isos[q[i]]]
EmptyMap == [k \in MapKeys |-> -1]
FullMap == [k \in MapKeys |-> IF k = "k3" THEN 2 ELSE 1]
C04_Pair ==
  (sS # <<>> /\ sT # <<>>) =>
  LET csS == Cells(sS)  csT == Cells(sT)  ls == LeafLenses(sS)  lt == LeafLenses(sT)  isos == IsoSeq(ls, lt) IN
  /\ \A q \in Lists(isos), r1 \in 0..2, r2 \in 0..2 :
       /\ RoundTrip(Entries(isos, q), Pattern(csS, r1), Pattern(csT, r2))
       /\ InverseFrame(Entries(isos, q), Pattern(csT, r2), Pattern(csS, r1))
  /\ Len(ls) > 0 =>
       LET im == IsoSeqM(ls) IN
       \A q \in Lists(im), r1 \in 0..2, m \in {EmptyMap, FullMap} :
          /\ RoundTripM(Entries(im, q), Pattern(csS, r1), m)
          /\ InverseFrame(Entries(im, q), m, Pattern(csS, r1))
          /\ \A k \in MapKeys : MapOnlyKey(m, k, 2)
====
