---- MODULE LayoutBoundary ----
(* Hand-written boundary shapes that every generated batch contains (and that are initial states of the models, so
   the invariants are checked on them too): padding holes, zero-size fields at the end, depth-3 embedding,
   duplicate names / types across depths, tags, pointer embedding (incl. the shapes of the two known C02 inputs),
   wide structs for the arities 1..9, named struct fields. *)
EXTENDS Layout

L(n, t) == [name |-> n, tag |-> NoTag, ty |-> t, emb |-> "no", sub |-> <<>>]
LT(n, t, txt, key) == [name |-> n, tag |-> [txt |-> txt, key |-> key], ty |-> t, emb |-> "no", sub |-> <<>>]
EV(n, s) == [name |-> n, tag |-> NoTag, ty |-> n, emb |-> "val", sub |-> s]
EP(n, s) == [name |-> n, tag |-> NoTag, ty |-> n, emb |-> "ptr", sub |-> s]
ET(n, k, s, txt, key) == [name |-> n, tag |-> [txt |-> txt, key |-> key], ty |-> n, emb |-> k, sub |-> s]
NS(n, t, s) == [name |-> n, tag |-> NoTag, ty |-> t, emb |-> "no", sub |-> s]

Boundary == <<
  \* 1 padding holes between every pair of fields
  << L("A", "bool"), L("B", "int64"), L("C", "int8"), L("D", "int32"), L("E", "int16") >>,
  \* 2-5 zero-size fields: at the end (extra byte, rounded), at the start, alone, [0]int64 raising the alignment
  << L("A", "int64"), L("B", "struct{}") >>,
  << L("A", "int8"), L("B", "[0]int64") >>,
  << L("A", "struct{}") >>,
  << L("A", "[0]int64"), L("B", "int8"), L("C", "struct{}"), L("D", "int16") >>,
  \* 6 depth-3 value embedding with padding at every level
  << L("A", "int8"), EV("E1", << L("B", "int16"), EV("E2", << L("C", "int32"), EV("E3", << L("D", "int64"), L("E", "bool") >>), L("F", "bool") >>), L("G", "bool") >>), L("H", "bool") >>,
  \* 7 the same names and types at several depths (first match = outermost-first in listing order)
  << EV("E1", << L("A", "int16"), EV("E2", << L("A", "int32"), L("B", "int16") >>) >>), L("A", "int8"), L("B", "int32") >>,
  \* 8 tags: renamed onto an existing name, options, empty name part, other keys only, tagged embedded struct
  << LT("A", "int8", "B", "B"), L("B", "int16"), LT("C", "int32", "B,opt", "B"), LT("D", "int64", ",opt", ""), LT("E", "string", "json", ""),
     ET("E1", "val", << LT("F", "bool", "A", "A") >>, "D,x", "D") >>,
  \* 9 the first known C02 input: type Inner struct{A, B int64}; type Outer struct{*Inner; X, Y int64}
  << EP("Inner", << L("A", "int64"), L("B", "int64") >>), L("X", "int64"), L("Y", "int64") >>,
  \* 10 TLC's own counterexample: struct{ struct{ *struct{ x string } } } - the footprint leaves the struct
  << EV("E1", << EP("E2", << L("x", "string") >>) >>) >>,
  \* 11 pointer inside pointer, value inside pointer, fields before and after
  << L("A", "int8"), EP("E1", << L("B", "int64"), EP("E2", << L("C", "int16") >>), EV("E3", << L("D", "int8"), L("A", "int8") >>) >>), L("D", "int8") >>,
  \* 12 a name that exists by value *after* a pointer-hidden one (first match is the hidden one)
  << EP("E1", << L("A", "int32") >>), L("A", "int32"), L("B", "int32") >>,
  \* 13, 14 wide: nine distinct types, nine equal types
  << L("A", "bool"), L("B", "int64"), L("C", "int16"), L("D", "string"), L("E", "int8"), L("F", "[]byte"), L("G", "int32"), L("H", "any"), L("I", "*int") >>,
  << L("A", "int16"), L("B", "int16"), L("C", "int16"), L("D", "int16"), L("E", "int16"), L("F", "int16"), L("G", "int16"), L("H", "int16"), L("I", "int16") >>,
  \* 15 named struct fields (one entry each), also below an embedded struct
  << L("A", "int8"), NS("S", "S1", << L("A", "int8"), L("B", "int64") >>), EV("E1", << NS("T", "S2", << L("C", "int16"), NS("U", "S3", << L("D", "[3]int8") >>) >>), L("B", "bool") >>) >>,
  \* 16 empty embedded structs, zero-size embedded struct last
  << EV("E1", << >>), L("A", "int8"), EV("E2", << L("B", "struct{}") >>) >>,
  \* 17 unexported names everywhere
  << L("a", "int8"), EV("e1", << L("b", "string"), L("c", "int8") >>), L("d", "[3]int8"), L("e", "int16") >>,
  \* 18 the rest of the palette
  << L("A", "[3]int8"), L("B", "any"), L("C", "bool"), L("D", "[]byte"), L("E", "[0]int64"), L("F", "*int"), L("G", "uint16"), L("H", "float64") >>,
  \* 19 a pointer-hidden first match whose as-coded offset coincides with a by-value field of the same name and type
  \*    (found by TLC on the repaired derivation: accepting it is sound - the optic is on the outer f2)
  << EP("E1", << L("F1", "int8"), L("f2", "int64") >>), L("f2", "int64") >>,
  \* 20 floating point and complex leaves (values +0, -0, NaN: equal is not identical), an interface holding them
  << L("A", "float64"), L("B", "float32"), L("C", "complex128"), L("D", "any"), L("E", "float64"), L("F", "int8") >>,
  \* 21-23 containers larger than 64 KiB: the big array first, in the middle, inside a value-embedded struct (once the
  \*       field offset, once the root offset carries the large part)
  << L("Big", "[65536]byte"), L("A", "int8"), L("B", "int64"), L("C", "int16") >>,
  << L("A", "int16"), L("Big", "[65536]byte"), L("B", "int32"), L("C", "string") >>,
  << L("A", "int8"), EV("E1", << L("Pad", "[65536]byte"), L("B", "int64") >>), EV("E2", << L("C", "int16"), L("D", "int64") >>), L("E", "int8") >>,
  \* 24-26 one struct type used twice: value-embedded in two different embedded structs; embedded at two depths;
  \*       embedded, as a plain named field and behind an embedded pointer
  << EV("A", << EV("E", << L("x", "int8"), L("y", "int64") >>), L("p", "int16") >>), EV("B", << L("q", "int8"), EV("E", << L("x", "int8"), L("y", "int64") >>) >>), L("z", "int8") >>,
  << EV("E", << L("x", "int16"), L("y", "int8") >>), EV("A", << L("p", "int64"), EV("E", << L("x", "int16"), L("y", "int8") >>) >>), L("z", "int32") >>,
  << EV("E", << L("x", "int16"), L("y", "int8") >>), NS("X", "E", << L("x", "int16"), L("y", "int8") >>), EP("P", << L("q", "int8"), EV("E", << L("x", "int16"), L("y", "int8") >>) >>), L("z", "int8") >>,
  \* 27 interface-typed fields (their values include non-nil interfaces holding nil pointers / maps / slices / funcs)
  << L("A", "any"), L("B", "fmt.Stringer"), L("C", "int8"), EV("E1", << L("D", "any"), L("F", "fmt.Stringer") >>) >>,
  \* 28, 29 maps that differ in the key type only and channels that differ in the direction only (the wanted one is
  \*        never the first); and a struct that has just one of each family (the close types are absent)
  << L("A", "map[string]int"), L("B", "map[int]int"), L("C", "chan int"), L("D", "<-chan int"), L("E", "chan<- int"), L("F", "map[int8]int") >>,
  << L("A", "int8"), L("B", "map[string]int"), EV("E1", << L("C", "<-chan int"), L("D", "int64") >>) >>,
  \* 30, 31 defined types over predeclared ones next to their underlying types
  << L("A", "string"), L("B", "opticsdrv.Label"), L("C", "opticsdrv.Tag"), L("D", "uint8"), L("E", "opticsdrv.Byte8"), L("F", "opticsdrv.Count"), L("G", "int64") >>,
  << L("A", "opticsdrv.Tag"), EV("E1", << L("B", "opticsdrv.Byte8"), L("C", "opticsdrv.Count") >>), L("D", "opticsdrv.Label") >>,
  \* 32-34 a tag names the field, the Go name does not: a tagged field whose Go name and type also belong to an earlier
  \*       field inside a value-embedded struct; a tagged field inside the embedded struct whose Go name and type belong to
  \*       an earlier field of the outer struct; tags that are the Go names of other fields of the same type
  << EV("E1", << L("Title", "int16"), L("B", "int8") >>), LT("Title", "int16", "title", "title"), L("C", "int64") >>,
  << L("X", "int32"), EV("E1", << L("P", "int8"), LT("X", "int32", "inner", "inner") >>), L("Q", "int8") >>,
  << LT("A", "int16", "B", "B"), L("B", "int16"), LT("C", "int16", "A", "A"), L("D", "int16") >>
>>
BoundarySet == {Boundary[i] : i \in 1..Len(Boundary)}
\* hseq and the lens derivations (C01-C03; not the composed optics): two different defined types that print alike -
\* the function-local `Same` and the package-level `Same` (alias PkgSame) - the wanted one not being the first; one of them only
BoundaryHseq == <<
  << L("A", "PkgSame"), L("B", "Same"), L("C", "string"), EV("E1", << L("D", "Same"), L("F", "PkgSame") >>) >>,
  << L("A", "Same"), L("B", "PkgSame"), L("C", "int8") >>,
  << L("A", "int8"), L("B", "PkgSame"), L("C", "string") >>,
  << L("A", "Same"), EV("E1", << L("B", "string") >>) >>
>>
BoundarySetHseq == BoundarySet \cup {BoundaryHseq[i] : i \in 1..Len(BoundaryHseq)}
====
