---- MODULE HseqGen ----
(* C03 behaviour generator: for a seeded sample of the enumerated shapes (and every boundary shape) TLC prints the
   shape with everything the statement promises about it - the listing, every lookup by name and by type with its
   first match (0 = must fail), selections by name / type tuples of the arities 1..9 in request order.
   lib/fam_optics.py turns the shapes into Go source; the Go harness compares hseq's answers with these. *)
EXTENDS HseqMC, Json, SequencesExt
CONSTANTS Seed, Modulus

Selected == sh # <<>> /\ (Modulus = 1 \/ (Checksum(sh) + Seed) % Modulus = 0 \/ (WithBoundary /\ sh \in BoundarySetHseq))

Cyc(s, n, stride) == [i \in 1..n |-> s[((i * stride + n) % Len(s)) + 1]]
Rev(s) == [i \in 1..Len(s) |-> s[Len(s) + 1 - i]]
Emit ==
  Selected =>
  LET l == Listing(sh)
      keys == SetToSeq(KeysOf(l))
      types == SetToSeq(TypesOf(l))
      nameTuples == {Cyc(keys, n, 1) : n \in 1..9} \cup {Cyc(keys, n, 2) : n \in 2..9}
                    \cup {Rev([j \in 1..Len(l) |-> l[j].key]), <<keys[1], "zz">>, <<"zz">>}
      typeTuples == {Cyc(types, n, 1) : n \in 1..9} \cup {Cyc(types, n, 3) : n \in 2..9} \cup {<<types[1], "uintptr">>}
      \* the embedded struct types of the shape unfolded on their own, and a second outer struct that embeds the first of them
      \* behind an int64 (another offset): what the process has unfolded before must not matter
      LJ(x) == LET lx == Listing(x) IN [j \in 1..Len(lx) |-> [key |-> lx[j].key, name |-> lx[j].name, id |-> lx[j].id, ty |-> lx[j].ty,
                                                              byval |-> lx[j].byval, abs |-> lx[j].abs, path |-> NamePath(x, lx[j].pos)]]
      embs == Structs(sh)
      firstEmb == {i \in 1..Len(sh) : IsEmb(sh[i])}
      outer2 == IF firstEmb = {} THEN <<>>
                ELSE LET i == CHOOSE i \in firstEmb : \A k \in firstEmb : i <= k IN
                     << [name |-> "Pad0", tag |-> NoTag, ty |-> "int64", emb |-> "no", sub |-> <<>>], sh[i] >>
  IN PrintT(ToJson(
       [t |-> "shape", ck |-> Checksum(sh), boundary |-> (WithBoundary /\ sh \in BoundarySetHseq),
        fields |-> sh, size |-> SSize(sh), align |-> SAlign(sh),
        listing |-> [j \in 1..Len(l) |-> [key |-> l[j].key, name |-> l[j].name, id |-> l[j].id, ty |-> l[j].ty,
                                           byval |-> l[j].byval, abs |-> l[j].abs, path |-> NamePath(sh, l[j].pos)]],
        names |-> SetToSeq({[q |-> k, first |-> FirstKey(l, k)] : k \in KeysOf(l) \cup {"zz", ""}}),
        types |-> SetToSeq({[q |-> ty, first |-> FirstType(l, ty)] : ty \in TypesOf(l) \cup {"uintptr"} \cup CloseAll(TypesOf(l))}),
        sel |-> SetToSeq({[names |-> ns, ix |-> [i \in 1..Len(ns) |-> FirstKey(l, ns[i])]] : ns \in nameTuples}),
        selt |-> SetToSeq({[types |-> ts, ix |-> [i \in 1..Len(ts) |-> FirstType(l, ts[i])]] : ts \in typeTuples}),
        subs |-> SetToSeq({[ty |-> x.ty, listing |-> LJ(x.sub)] : x \in embs}),
        outer2 |-> [fields |-> outer2, listing |-> IF outer2 = <<>> THEN <<>> ELSE LJ(outer2)]]))
====
