---- MODULE LayoutShapes ----
(* Shapes built by actions, so that TLC's breadth-first search enumerates every shape within a bound exactly once
   (every reachable state IS a shape: distinct states - 1 = number of shapes) and several workers share the work.

   A shape grows in depth-first declaration order.  The *spine* is the chain top struct -> its last field's
   struct -> ... as long as the last field has a sub-structure; a new field may be appended at any level of the
   spine (appending at a shallower level implicitly "closes" the deeper structs, because they stop being last):
     AddLeaf(level, type, name, tag)       a field of a palette type
     OpenEmbedded(level, val|ptr, tag)     an embedded struct type E<n> (initially empty: `type E3 struct{}` is legal Go)
     OpenNamed(level, name, tag)           a field of a named struct type S<n> (not embedded: hseq lists it as one entry)
     ReuseStruct(level, type, how)         a finished struct type once more: embedded elsewhere or as a named field
   The construction order of a tree is unique, so no shape is reached twice. *)
EXTENDS Layout

CONSTANTS LeafTypes,     \* subset of PaletteTypes used for leaves
          EmbKinds,      \* subset of {"val", "ptr"}
          NamedStructs,  \* BOOLEAN: allow non-embedded struct-typed fields
          NameMode,      \* "uniq": F<n> by creation order | "pos": by position inside its struct (duplicates across depths) | "pool": any of NamePool
          TagMode,       \* "none" | "some" | "all"
          MaxFields,     \* fields per struct
          MaxDepth,      \* nesting levels (1 = flat)
          MaxSub,        \* sub-structures (embedded or named) per struct
          MaxTotal,      \* fields in the whole tree
          Reuse,         \* BOOLEAN: allow a finished struct type to be used a second time (ReuseStruct)
          TypePrefix     \* prepended to the generated type names (two structures in one scope need different type names)

VARIABLE sh

RECURSIVE CountFields(_), SpineIn(_,_), StructAt(_,_), AppendAt(_,_,_), TypeCount(_,_), Structs(_), SpineTypes(_,_)
CountFields(s) == IF s = <<>> THEN 0 ELSE 1 + CountFields(Head(s).sub) + CountFields(Tail(s))
\* how often the struct type ty occurs in the tree; a type that occurs more than once (ReuseStruct) is sealed: all its
\* occurrences must stay identical, so the spine does not descend into it
TypeCount(s, ty) == IF s = <<>> THEN 0
                    ELSE (IF HasSub(Head(s)) THEN (IF Head(s).ty = ty THEN 1 ELSE 0) + TypeCount(Head(s).sub, ty) ELSE 0) + TypeCount(Tail(s), ty)
SpineIn(root, s) == IF s # <<>> /\ HasSub(s[Len(s)]) /\ TypeCount(root, s[Len(s)].ty) = 1 THEN 1 + SpineIn(root, s[Len(s)].sub) ELSE 1
SpineDepth(s) == SpineIn(s, s)
\* all struct types of the tree as [ty, sub], and the names of those that are still open (on the spine)
Structs(s) == IF s = <<>> THEN {} ELSE (IF HasSub(Head(s)) THEN {[ty |-> Head(s).ty, sub |-> Head(s).sub]} \cup Structs(Head(s).sub) ELSE {}) \cup Structs(Tail(s))
SpineTypes(root, s) == IF s # <<>> /\ HasSub(s[Len(s)]) /\ TypeCount(root, s[Len(s)].ty) = 1 THEN {s[Len(s)].ty} \cup SpineTypes(root, s[Len(s)].sub) ELSE {}
Closed(s) == {x \in Structs(s) : x.ty \notin SpineTypes(s, s)}
StructAt(s, j) == IF j = 1 THEN s ELSE StructAt(s[Len(s)].sub, j - 1)
AppendAt(s, j, f) == IF j = 1 THEN Append(s, f) ELSE [s EXCEPT ![Len(s)].sub = AppendAt(@, j - 1, f)]

NumSub(st) == Cardinality({i \in 1..Len(st) : HasSub(st[i])})
NamesOf(st) == {st[i].name : i \in 1..Len(st)}

\* exported and unexported spellings alternate
Nm(prefix, lower, n) == (IF n % 2 = 0 THEN lower ELSE prefix) \o ToString(n)
NamePool == {"A", "b", "C"}
LeafNames(st, n) == CASE NameMode = "uniq" -> {Nm("F", "f", n)}
                      [] NameMode = "pos"  -> {Nm("F", "f", Len(st) + 1)}
                      [] NameMode = "pool" -> NamePool \ NamesOf(st)
\* tags: keys collide on purpose with field names used by the naming modes
TagSome == {NoTag, [txt |-> "F1", key |-> "F1"], [txt |-> "A,opt", key |-> "A"]}
TagAll == TagSome \cup {[txt |-> ",opt", key |-> ""], [txt |-> "json", key |-> ""], [txt |-> "f2", key |-> "f2"], [txt |-> "E2", key |-> "E2"]}
Tags == CASE TagMode = "none" -> {NoTag} [] TagMode = "some" -> TagSome [] TagMode = "all" -> TagAll

Init == sh = <<>>

Room(st) == Len(st) < MaxFields /\ CountFields(sh) < MaxTotal
AddLeaf == \E j \in 1..SpineDepth(sh) : LET st == StructAt(sh, j)  n == CountFields(sh) + 1 IN
             /\ Room(st)
             /\ \E t \in LeafTypes, nm \in LeafNames(st, n), tg \in Tags :
                  sh' = AppendAt(sh, j, [name |-> nm, tag |-> tg, ty |-> t, emb |-> "no", sub |-> <<>>])
OpenEmbedded == \E j \in 1..SpineDepth(sh) : LET st == StructAt(sh, j)  n == CountFields(sh) + 1 IN
             /\ Room(st) /\ j < MaxDepth /\ NumSub(st) < MaxSub
             /\ \E k \in EmbKinds, tg \in Tags :
                  sh' = AppendAt(sh, j, [name |-> TypePrefix \o Nm("E", "e", n), tag |-> tg, ty |-> TypePrefix \o Nm("E", "e", n), emb |-> k, sub |-> <<>>])
OpenNamed == NamedStructs /\ \E j \in 1..SpineDepth(sh) : LET st == StructAt(sh, j)  n == CountFields(sh) + 1 IN
             /\ Room(st) /\ j < MaxDepth /\ NumSub(st) < MaxSub
             /\ \E nm \in LeafNames(st, n), tg \in Tags :
                  sh' = AppendAt(sh, j, [name |-> nm, tag |-> tg, ty |-> TypePrefix \o "S" \o ToString(n), emb |-> "no", sub |-> <<>>])
\* a struct type that is already finished is used once more: embedded (by value / by pointer) in another struct, at another
\* depth, or as the type of a plain named field.  (Go forbids the same embedded type twice in one struct - the field
\* names would clash - and a type cannot contain itself by value: only finished types are reused.)
ReuseStruct == Reuse /\ \E j \in 1..SpineDepth(sh) : LET st == StructAt(sh, j)  n == CountFields(sh) + 1 IN
             /\ Room(st) /\ j < MaxDepth /\ NumSub(st) < MaxSub
             /\ \E x \in Closed(sh) :
                  \/ \E k \in EmbKinds : x.ty \notin NamesOf(st)
                        /\ sh' = AppendAt(sh, j, [name |-> x.ty, tag |-> NoTag, ty |-> x.ty, emb |-> k, sub |-> x.sub])
                  \/ NamedStructs /\ \E nm \in LeafNames(st, n) :
                        sh' = AppendAt(sh, j, [name |-> nm, tag |-> NoTag, ty |-> x.ty, emb |-> "no", sub |-> x.sub])
Next == AddLeaf \/ OpenEmbedded \/ OpenNamed \/ ReuseStruct

(* a cheap position-weighted checksum, used to draw a seeded sample of the enumerated shapes *)
RECURSIVE Sum(_,_)
Sum(s, w) == IF s = <<>> THEN 0
             ELSE LET f == Head(s) IN
                  (((w % 1009) + 1) * (FSize(f) * 7 + FAlign(f) * 3 + (IF f.emb = "ptr" THEN 5 ELSE IF f.emb = "val" THEN 11 ELSE 1)
                        + (IF f.tag.txt = "" THEN 0 ELSE 13)) + Sum(f.sub, w * 3 + 1) + Sum(Tail(s), w * 5 + 2)) % 1000003
Checksum(s) == Sum(s, 1)
====
