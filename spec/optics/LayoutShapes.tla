---- MODULE LayoutShapes ----
(* Shapes built by actions, so that TLC's breadth-first search enumerates every shape within a bound exactly once
   (every reachable state IS a shape: distinct states - 1 = number of shapes) and several workers share the work.

   A shape grows in depth-first declaration order.  The *spine* is the chain top struct -> its last field's
   struct -> ... as long as the last field has a sub-structure; a new field may be appended at any level of the
   spine (appending at a shallower level implicitly "closes" the deeper structs, because they stop being last):
     AddLeaf(level, type, name, tag)       a field of a palette type
     OpenEmbedded(level, val|ptr, tag)     an embedded struct type E<n> (initially empty: `type E3 struct{}` is legal Go)
     OpenNamed(level, name, tag)           a field of a named struct type S<n> (not embedded: hseq lists it as one entry)
   The construction order of a tree is unique, so no shape is reached twice. *)
EXTENDS Layout

CONSTANTS LeafTypes,     \* subset of PaletteTypes used for leaves
          EmbKinds,      \* subset of {"val", "ptr"}
          NamedStructs,  \* BOOLEAN: allow non-embedded struct-typed fields
          NameMode,      \* "uniq": F<n> by creation order | "pos": by position inside its struct (duplicates across depths) | "pool": any of NamePool
          TagMode,       \* "none" | "some" | "all"
          MaxFields,     \* fields per struct
          MaxDepth,      \* nesting levels (1 = flat)
          MaxSub,        \* sub-structures (embedded or named) per struct
          MaxTotal,      \* fields in the whole tree
          TypePrefix     \* prepended to the generated type names (two structures in one scope need different type names)

VARIABLE sh

RECURSIVE CountFields(_), SpineDepth(_), StructAt(_,_), AppendAt(_,_,_)
CountFields(s) == IF s = <<>> THEN 0 ELSE 1 + CountFields(Head(s).sub) + CountFields(Tail(s))
SpineDepth(s) == IF s # <<>> /\ HasSub(s[Len(s)]) THEN 1 + SpineDepth(s[Len(s)].sub) ELSE 1
StructAt(s, j) == IF j = 1 THEN s ELSE StructAt(s[Len(s)].sub, j - 1)
AppendAt(s, j, f) == IF j = 1 THEN Append(s, f) ELSE [s EXCEPT ![Len(s)].sub = AppendAt(@, j - 1, f)]

NumSub(st) == Cardinality({i \in 1..Len(st) : HasSub(st[i])})
NamesOf(st) == {st[i].name : i \in 1..Len(st)}

\* exported and unexported spellings alternate
Nm(prefix, lower, n) == (IF n % 2 = 0 THEN lower ELSE prefix) \o ToString(n)
NamePool == {"A", "b", "C"}
LeafNames(st, n) == CASE NameMode = "uniq" -> {Nm("F", "f", n)}
                      [] NameMode = "pos"  -> {Nm("F", "f", Len(st) + 1)}
                      [] NameMode = "pool" -> NamePool \ NamesOf(st)
\* tags: keys collide on purpose with field names used by the naming modes
TagSome == {NoTag, [txt |-> "F1", key |-> "F1"], [txt |-> "A,opt", key |-> "A"]}
TagAll == TagSome \cup {[txt |-> ",opt", key |-> ""], [txt |-> "json", key |-> ""], [txt |-> "f2", key |-> "f2"], [txt |-> "E2", key |-> "E2"]}
Tags == CASE TagMode = "none" -> {NoTag} [] TagMode = "some" -> TagSome [] TagMode = "all" -> TagAll

Init == sh = <<>>

Room(st) == Len(st) < MaxFields /\ CountFields(sh) < MaxTotal
AddLeaf == \E j \in 1..SpineDepth(sh) : LET st == StructAt(sh, j)  n == CountFields(sh) + 1 IN
             /\ Room(st)
             /\ \E t \in LeafTypes, nm \in LeafNames(st, n), tg \in Tags :
                  sh' = AppendAt(sh, j, [name |-> nm, tag |-> tg, ty |-> t, emb |-> "no", sub |-> <<>>])
OpenEmbedded == \E j \in 1..SpineDepth(sh) : LET st == StructAt(sh, j)  n == CountFields(sh) + 1 IN
             /\ Room(st) /\ j < MaxDepth /\ NumSub(st) < MaxSub
             /\ \E k \in EmbKinds, tg \in Tags :
                  sh' = AppendAt(sh, j, [name |-> TypePrefix \o Nm("E", "e", n), tag |-> tg, ty |-> TypePrefix \o Nm("E", "e", n), emb |-> k, sub |-> <<>>])
OpenNamed == NamedStructs /\ \E j \in 1..SpineDepth(sh) : LET st == StructAt(sh, j)  n == CountFields(sh) + 1 IN
             /\ Room(st) /\ j < MaxDepth /\ NumSub(st) < MaxSub
             /\ \E nm \in LeafNames(st, n), tg \in Tags :
                  sh' = AppendAt(sh, j, [name |-> nm, tag |-> tg, ty |-> TypePrefix \o "S" \o ToString(n), emb |-> "no", sub |-> <<>>])
Next == AddLeaf \/ OpenEmbedded \/ OpenNamed

(* a cheap position-weighted checksum, used to draw a seeded sample of the enumerated shapes *)
RECURSIVE Sum(_,_)
Sum(s, w) == IF s = <<>> THEN 0
             ELSE LET f == Head(s) IN
                  (((w % 1009) + 1) * (FSize(f) * 7 + FAlign(f) * 3 + (IF f.emb = "ptr" THEN 5 ELSE IF f.emb = "val" THEN 11 ELSE 1)
                        + (IF f.tag.txt = "" THEN 0 ELSE 13)) + Sum(f.sub, w * 3 + 1) + Sum(Tail(s), w * 5 + 2)) % 1000003
Checksum(s) == Sum(s, 1)
====
