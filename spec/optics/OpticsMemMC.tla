---- MODULE OpticsMemMC ----
(* The optics of Optics.tla as a transition system over the abstract byte memory (small shapes, every memory state
   reachable by Put / Putt of the values 0..2 through every by-value lens):
     Build        grow the shape (LayoutShapes actions); memory restarts zeroed between its guards
     Put(j, v)    lens on listing entry j, as coded: write v over the footprint [RootOffs+Offset, +size)
     Get(j)       read the footprint
     Putt / Gett  the Reflector: `case *S` as Put / Get, every other class of Optics!ForeignClasses panics and writes nothing
   Invariants (C01 / C02 on states): after Put exactly the focused cells hold the value and every byte outside the
   field's extent - other fields, padding, guards - is what it was; Get returns the focused cells; a rejected
   Putt / Gett leaves memory untouched. *)
EXTENDS LayoutShapes, Optics
VARIABLES mem, last
vars == <<sh, mem, last>>
None == [op |-> "none"]
MInit == sh = <<>> /\ mem = InitMem(<<>>) /\ last = None
Build == Next /\ mem' = InitMem(sh') /\ last' = None

ByVal(l) == {j \in 1..Len(l) : l[j].byval}
Foot(u, j) == <<u[j].root + u[j].off, u[j].root + u[j].off + FSize(FieldAt(sh, u[j].pos))>>
DoPut(j, v, how) == LET u == Unfold(sh)  fp == Foot(u, j) IN
  /\ mem' = PutBytes(mem, fp[1], fp[2], v)
  /\ last' = [op |-> "put", how |-> how, j |-> j, v |-> v, before |-> mem]
  /\ UNCHANGED sh
DoGet(j, how) == LET u == Unfold(sh)  fp == Foot(u, j) IN
  /\ last' = [op |-> "get", how |-> how, j |-> j, got |-> GetBytes(Cells(sh), mem, fp[1], fp[2]), before |-> mem]
  /\ UNCHANGED <<sh, mem>>
Reject(what) == last' = [op |-> "reject", what |-> what, before |-> mem] /\ UNCHANGED <<sh, mem>>
DynArgs == ForeignClasses \ {"nil-own"}        \* a nil *S is not dereferenced here
Ops == sh # <<>> /\ \E j \in ByVal(Listing(sh)) :
         \/ \E v \in 0..2 : DoPut(j, v, "Put")
         \/ DoGet(j, "Get")
         \/ \E a \in DynArgs : IF PuttAsCoded(a) = "put" THEN (\E v \in 0..2 : DoPut(j, v, a)) \/ DoGet(j, a)
                               ELSE Reject(a)
MNext == Build \/ Ops
MSpec == MInit /\ [][MNext]_vars

MemExact ==
  last.op # "none" =>
  LET l == Listing(sh)  cs == Cells(sh) IN
  CASE last.op = "put" ->
         LET x == l[last.j]  f == Focus(sh, x.pos) IN
         /\ CellVals(cs, mem) = PutCells(cs, CellVals(cs, last.before), f[1], f[2], last.v)
         /\ Outside(mem, x.abs, x.abs + x.size) = Outside(last.before, x.abs, x.abs + x.size)
    [] last.op = "get" ->
         LET x == l[last.j]  f == Focus(sh, x.pos)  vals == CellVals(cs, last.before) IN
         /\ DOMAIN last.got = {c \in f[1]..f[2] : cs[c].own /\ cs[c].size > 0}
         /\ \A c \in DOMAIN last.got : last.got[c] = vals[c]
         /\ mem = last.before
    [] last.op = "reject" -> mem = last.before /\ ForeignWant(last.what) = "panic"
\* only the reflector's own container type gets through Putt / Gett
OwnTypeOnly == (last.op \in {"put", "get"} /\ last.how \notin {"Put", "Get"}) => ForeignWant(last.how) = "put"
\* cells never become corrupt (a partially written cell would read -1)
NoTornCell == sh # <<>> => \A c \in 1..Len(Cells(sh)) : CellVals(Cells(sh), mem)[c] # -1
====
