package iterdrv

// Conformance harness for trait/seq and trait/pair (properties C14, C15).
//
// An expression tree (the JSON form printed by spec/seq/IterGen.tla / PairIterGen.tla) is interpreted over the real
// combinators: items are int (seq kind) or (int key, int value) (pair kind); predicates, mappings and flat-map
// functions are looked up by name in the fixed tables below, which repeat the tables of Iter.tla / PairIter.tla
// (TLC prints its tables once per run and checkTables compares them - a difference is a harness error, not a verdict).
//
//	VERIF_MODE=replay  VERIF_IN=<cases.jsonl from TLC>  VERIF_OUT=<findings.jsonl>          (replay_test.go)
//	VERIF_MODE=random  VERIF_SEED VERIF_N VERIF_DEPTH VERIF_KIND VERIF_OUT=<traces.jsonl>   (random_test.go)
//	VERIF_MODE=exec    VERIF_IN=<expressions.jsonl> VERIF_OUT=<traces.jsonl>                 (random_test.go)

import (
	"encoding/json"
	"errors"
	"fmt"

	"github.com/fogfish/golem/trait/pair"
	"github.com/fogfish/golem/trait/seq"
)

// ---------------------------------------------------------------------------- items and expressions

// item is what an iterator delivers: [x] for the seq kind, [key, value] for the pair kind.
// JSON: a number or a two-element array (what TLC prints for an integer / for <<k, v>>).
type item []int

func (it item) MarshalJSON() ([]byte, error) {
	if len(it) == 1 {
		return json.Marshal(it[0])
	}
	return json.Marshal([]int(it))
}

func (it *item) UnmarshalJSON(b []byte) error {
	if len(b) > 0 && b[0] == '[' {
		var a []int
		if err := json.Unmarshal(b, &a); err != nil {
			return err
		}
		*it = a
		return nil
	}
	var x int
	if err := json.Unmarshal(b, &x); err != nil {
		return err
	}
	*it = item{x}
	return nil
}

func (it item) eq(o item) bool {
	if len(it) != len(o) {
		return false
	}
	for i := range it {
		if it[i] != o[i] {
			return false
		}
	}
	return true
}

func itemsEq(a, b []item) bool {
	if len(a) != len(b) {
		return false
	}
	for i := range a {
		if !a[i].eq(b[i]) {
			return false
		}
	}
	return true
}

// Expr is one node of an expression tree.
//
//	nil | slice xs | from x | pfrom kv | tw/dw/flt p e | map m e | plus l r | join/toseq/fromseq j e
//	| joinx/toseqx/fromseqx p e a b   (flat-map by an expression-valued function)
type Expr struct {
	Op string `json:"op"`
	Xs []int  `json:"xs"`
	X  int    `json:"x"`
	KV []int  `json:"kv"`
	P  string `json:"p"`
	M  string `json:"m"`
	J  string `json:"j"`
	E  *Expr  `json:"e"`
	L  *Expr  `json:"l"`
	R  *Expr  `json:"r"`
	A  *Expr  `json:"a"` // joinx / toseqx / fromseqx: the function maps an item to A when P holds for it, else to B
	B  *Expr  `json:"b"`
}

func (e *Expr) MarshalJSON() ([]byte, error) {
	m := map[string]any{"op": e.Op}
	switch e.Op {
	case "nil":
	case "slice":
		xs := e.Xs
		if xs == nil {
			xs = []int{}
		}
		m["xs"] = xs
	case "from":
		m["x"] = e.X
	case "pfrom":
		m["kv"] = e.KV
	case "tw", "dw", "flt":
		m["p"], m["e"] = e.P, e.E
	case "map":
		m["m"], m["e"] = e.M, e.E
	case "plus":
		m["l"], m["r"] = e.L, e.R
	case "join", "toseq", "fromseq":
		m["j"], m["e"] = e.J, e.E
	case "joinx", "toseqx", "fromseqx":
		m["p"], m["e"], m["a"], m["b"] = e.P, e.E, e.A, e.B
	default:
		return nil, fmt.Errorf("unknown op %q", e.Op)
	}
	return json.Marshal(m)
}

func (e *Expr) String() string {
	b, _ := json.Marshal(e)
	return string(b)
}

func eNil() *Expr                  { return &Expr{Op: "nil"} }
func eSlice(xs ...int) *Expr       { return &Expr{Op: "slice", Xs: append([]int{}, xs...)} }
func eFrom(x int) *Expr            { return &Expr{Op: "from", X: x} }
func ePair(k, v int) *Expr         { return &Expr{Op: "pfrom", KV: []int{k, v}} }
func ePlus(l, r *Expr) *Expr       { return &Expr{Op: "plus", L: l, R: r} }
func eFlt(p string, e *Expr) *Expr { return &Expr{Op: "flt", P: p, E: e} }

// ---------------------------------------------------------------------------- function tables (= Iter.tla, PairIter.tla)

// harnessBug is the panic value of the harness itself (unknown name, malformed expression): never a verdict.
type harnessBug string

var seqPreds = map[string]func(int) bool{
	"lt2":  func(x int) bool { return x < 2 },
	"even": func(x int) bool { return x%2 == 0 },
	"tt":   func(int) bool { return true },
	"ff":   func(int) bool { return false },
}

var seqMaps = map[string]func(int) int{
	"inc": func(x int) int { return x + 1 },
	"dbl": func(x int) int { return 2 * x },
}

// flat-map functions are given as expression templates: the iterator they return is the interpretation of the
// template ("nil" and the empty slice: the function returns nil).
var seqJoins = map[string]func(int) *Expr{
	"nil": func(int) *Expr { return eNil() },
	"one": func(x int) *Expr { return eFrom(x) },
	"two": func(x int) *Expr { return eSlice(x, x+1) },
	"oddnil": func(x int) *Expr {
		if x%2 == 0 {
			return eSlice(x, x)
		}
		return eSlice()
	},
	"fev": func(x int) *Expr { return eFlt("even", eSlice(x, x+1, x+2)) },
}

var pairPreds = map[string]func(k, v int) bool{
	"klt12": func(k, v int) bool { return k < 12 },
	"veven": func(k, v int) bool { return v%2 == 0 },
	"kgtv":  func(k, v int) bool { return k > v },
	"pff":   func(k, v int) bool { return false },
}

var pairMaps = map[string]func(k, v int) int{
	"kmv":  func(k, v int) int { return k - v },
	"vdbl": func(k, v int) int { return 2 * v },
}

var pairJoins = map[string]func(k, v int) *Expr{ // pair.Join
	"pnil": func(k, v int) *Expr { return eNil() },
	"same": func(k, v int) *Expr { return ePair(k, v) },
	"swap": func(k, v int) *Expr { return ePair(v, k) },
	"dup":  func(k, v int) *Expr { return ePlus(ePair(k, v), ePair(k+1, v+2)) },
	"voddnil": func(k, v int) *Expr {
		if v%2 == 0 {
			return ePair(k, v)
		}
		return eNil()
	},
}

var toSeqJoins = map[string]func(k, v int) *Expr{ // pair.ToSeq
	"tnil":  func(k, v int) *Expr { return eNil() },
	"tvals": func(k, v int) *Expr { return eFrom(v) },
	"tkv":   func(k, v int) *Expr { return eSlice(k, v) },
	"tkodd": func(k, v int) *Expr {
		if k%2 == 0 {
			return eSlice()
		}
		return eSlice(k - v)
	},
}

var fromSeqJoins = map[string]func(x int) *Expr{ // pair.FromSeq
	"fnil": func(x int) *Expr { return eNil() },
	"kv":   func(x int) *Expr { return ePair(10+x, x) },
	"kv2":  func(x int) *Expr { return ePlus(ePair(10+x, x), ePair(20+x, x+1)) },
	"kvev": func(x int) *Expr {
		if x%2 == 0 {
			return ePair(10+x, x)
		}
		return eNil()
	},
}

func lookup[F any](tbl map[string]F, what, name string) F {
	f, ok := tbl[name]
	if !ok {
		panic(harnessBug(fmt.Sprintf("unknown %s %q", what, name)))
	}
	return f
}

// ---------------------------------------------------------------------------- interpretation over the real combinators

// call is one invocation of a user function as the library made it: name and argument(s).
type call struct {
	F string
	A item
}

func (c call) MarshalJSON() ([]byte, error) { return json.Marshal([]any{c.F, c.A}) }
func (c *call) UnmarshalJSON(b []byte) error {
	var raw []json.RawMessage
	if err := json.Unmarshal(b, &raw); err != nil || len(raw) != 2 {
		return fmt.Errorf("call: %s", b)
	}
	if err := json.Unmarshal(raw[0], &c.F); err != nil {
		return err
	}
	return json.Unmarshal(raw[1], &c.A)
}

func callsEq(a, b []call) bool {
	if len(a) != len(b) {
		return false
	}
	for i := range a {
		if a[i].F != b[i].F || !a[i].A.eq(b[i].A) {
			return false
		}
	}
	return true
}

type source struct{ orig, live []int }

// env accompanies one construction: the calls the library makes and the slices handed to FromSlice.
type env struct {
	calls []call
	srcs  []source
}

func (v *env) log(f string, a ...int) { v.calls = append(v.calls, call{F: f, A: item(a)}) }

// since returns the calls logged after mark (never nil, so that it prints as []).
func (v *env) since(mark int) []call { return append([]call{}, v.calls[mark:]...) }

func (v *env) sourcesIntact() bool {
	for _, s := range v.srcs {
		if len(s.orig) != len(s.live) {
			return false
		}
		for i := range s.orig {
			if s.orig[i] != s.live[i] {
				return false
			}
		}
	}
	return true
}

func (v *env) pred(name string) func(int) bool {
	f := lookup(seqPreds, "predicate", name)
	return func(x int) bool { v.log(name, x); return f(x) }
}

func (v *env) ppred(name string) func(int, int) bool {
	f := lookup(pairPreds, "pair predicate", name)
	return func(k, x int) bool { v.log(name, k, x); return f(k, x) }
}

// either is the expression-valued function of joinx: A where the selecting predicate holds, B otherwise.
func either(holds bool, e *Expr) *Expr {
	if holds {
		return e.A
	}
	return e.B
}

func (v *env) buildSeq(e *Expr) seq.Seq[int] {
	if e == nil {
		panic(harnessBug("missing sub-expression"))
	}
	switch e.Op {
	case "nil":
		return nil
	case "slice":
		live := append([]int{}, e.Xs...)
		v.srcs = append(v.srcs, source{orig: append([]int{}, e.Xs...), live: live})
		return seq.FromSlice(live)
	case "from":
		return seq.From(e.X)
	case "tw":
		return seq.TakeWhile(v.buildSeq(e.E), v.pred(e.P))
	case "dw":
		return seq.DropWhile(v.buildSeq(e.E), v.pred(e.P))
	case "flt":
		return seq.Filter(v.buildSeq(e.E), v.pred(e.P))
	case "map":
		f := lookup(seqMaps, "mapping", e.M)
		return seq.Map(v.buildSeq(e.E), func(x int) int { v.log(e.M, x); return f(x) })
	case "plus":
		l := v.buildSeq(e.L)
		r := v.buildSeq(e.R)
		return seq.Plus(l, r)
	case "join":
		f := lookup(seqJoins, "flat-map function", e.J)
		return seq.Join(v.buildSeq(e.E), func(x int) seq.Seq[int] { v.log(e.J, x); return v.buildSeq(f(x)) })
	case "joinx":
		sel := lookup(seqPreds, "predicate", e.P)
		return seq.Join(v.buildSeq(e.E), func(x int) seq.Seq[int] { v.log("joinx", x); return v.buildSeq(either(sel(x), e)) })
	case "toseqx":
		sel := lookup(pairPreds, "pair predicate", e.P)
		return pair.ToSeq(v.buildPair(e.E), func(k, x int) seq.Seq[int] { v.log("joinx", k, x); return v.buildSeq(either(sel(k, x), e)) })
	case "toseq":
		f := lookup(toSeqJoins, "ToSeq function", e.J)
		return pair.ToSeq(v.buildPair(e.E), func(k, x int) seq.Seq[int] { v.log(e.J, k, x); return v.buildSeq(f(k, x)) })
	}
	panic(harnessBug(fmt.Sprintf("op %q does not give a seq.Seq", e.Op)))
}

func (v *env) buildPair(e *Expr) pair.Seq[int, int] {
	if e == nil {
		panic(harnessBug("missing sub-expression"))
	}
	switch e.Op {
	case "nil":
		return nil
	case "pfrom":
		if len(e.KV) != 2 {
			panic(harnessBug("pfrom needs [k, v]"))
		}
		return pair.From(e.KV[0], e.KV[1])
	case "tw":
		return pair.TakeWhile(v.buildPair(e.E), v.ppred(e.P))
	case "dw":
		return pair.DropWhile(v.buildPair(e.E), v.ppred(e.P))
	case "flt":
		return pair.Filter(v.buildPair(e.E), v.ppred(e.P))
	case "map":
		f := lookup(pairMaps, "pair mapping", e.M)
		return pair.Map(v.buildPair(e.E), func(k, x int) int { v.log(e.M, k, x); return f(k, x) })
	case "plus":
		l := v.buildPair(e.L)
		r := v.buildPair(e.R)
		return pair.Plus(l, r)
	case "join":
		f := lookup(pairJoins, "pair flat-map function", e.J)
		return pair.Join(v.buildPair(e.E), func(k, x int) pair.Seq[int, int] { v.log(e.J, k, x); return v.buildPair(f(k, x)) })
	case "joinx":
		sel := lookup(pairPreds, "pair predicate", e.P)
		return pair.Join(v.buildPair(e.E), func(k, x int) pair.Seq[int, int] { v.log("joinx", k, x); return v.buildPair(either(sel(k, x), e)) })
	case "fromseqx":
		sel := lookup(seqPreds, "predicate", e.P)
		return pair.FromSeq(v.buildSeq(e.E), func(x int) pair.Seq[int, int] { v.log("joinx", x); return v.buildPair(either(sel(x), e)) })
	case "fromseq":
		f := lookup(fromSeqJoins, "FromSeq function", e.J)
		return pair.FromSeq(v.buildSeq(e.E), func(x int) pair.Seq[int, int] { v.log(e.J, x); return v.buildPair(f(x)) })
	}
	panic(harnessBug(fmt.Sprintf("op %q does not give a pair.Seq", e.Op)))
}

// ---------------------------------------------------------------------------- observing an iterator

// cursor hides the kind: what the documented loop needs, plus Key() read again after Value() for pairs.
type cursor interface {
	value() (it item, keyAfter int)
	next() bool
}

type seqCursor struct{ s seq.Seq[int] }

func (c seqCursor) value() (item, int) { return item{c.s.Value()}, 0 }
func (c seqCursor) next() bool         { return c.s.Next() }

type pairCursor struct{ s pair.Seq[int, int] }

func (c pairCursor) value() (item, int) {
	k := c.s.Key()
	x := c.s.Value()
	return item{k, x}, c.s.Key()
}
func (c pairCursor) next() bool { return c.s.Next() }

// build constructs the iterator for e; nil cursor = nil iterator.
func (v *env) build(kind string, e *Expr) cursor {
	if kind == "pair" {
		if s := v.buildPair(e); s != nil {
			return pairCursor{s}
		}
		return nil
	}
	if s := v.buildSeq(e); s != nil {
		return seqCursor{s}
	}
	return nil
}

type stepObs struct {
	V  item   `json:"v"`
	Ok bool   `json:"ok"`
	Vc []call `json:"vc"`
	Nc []call `json:"nc"`
	K2 int    `json:"k2"`
}

// postObs: v = Value() of the exhausted iterator, or panic = true (then v = 0); {false, 0} when nil / not probed
type postObs struct {
	Panic bool `json:"panic"`
	V     item `json:"v"`
}

func (p postObs) eq(o postObs) bool { return p.Panic == o.Panic && (p.Panic || p.V.eq(o.V)) }

// observation of one construction + the documented loop `for has := s != nil; has; has = s.Next() { s.Value() }`
type observation struct {
	Nil       bool      `json:"nil"`
	Cc        []call    `json:"cc"`
	Steps     []stepObs `json:"steps"`
	Post      postObs   `json:"post"`      // Value() of the exhausted iterator (nobody promises anything about it)
	PostPanic string    `json:"postpanic"` // the panic of that probe
	Repoll    string    `json:"repoll"`    // Next() of the exhausted iterator polled once more: "false" | "true" | "panic"; "none" when nil / not probed
	Truncated bool      `json:"truncated"` // gave up after `limit` steps
	Panic     string    `json:"panic"`     // the library panicked while constructing / draining
	SrcOK     bool      `json:"srcok"`
}

func (o *observation) values() []item {
	out := make([]item, len(o.Steps))
	for i, s := range o.Steps {
		out[i] = s.V
	}
	return out
}

func recovered(r any) string {
	if hb, ok := r.(harnessBug); ok {
		panic(hb)
	}
	return fmt.Sprint(r)
}

func observe(kind string, e *Expr, limit int) (o observation) {
	v := &env{}
	o.Cc, o.Steps, o.Post, o.Repoll = []call{}, []stepObs{}, postObs{V: item{0}}, "none"
	var c cursor
	func() {
		defer func() {
			if r := recover(); r != nil {
				o.Panic = recovered(r)
			}
		}()
		c = v.build(kind, e)
		o.Cc = v.since(0)
		o.Nil = c == nil
		for has := c != nil; has; {
			if len(o.Steps) >= limit {
				o.Truncated = true
				return
			}
			m0 := len(v.calls)
			it, k2 := c.value()
			m1 := len(v.calls)
			has = c.next()
			o.Steps = append(o.Steps, stepObs{V: it, Ok: has, Vc: v.since(m0)[:m1-m0], Nc: v.since(m1), K2: k2})
		}
	}()
	o.SrcOK = v.sourcesIntact()
	if c != nil && o.Panic == "" && !o.Truncated {
		func() {
			defer func() {
				if r := recover(); r != nil {
					o.PostPanic = recovered(r)
					o.Post = postObs{Panic: true, V: item{0}}
				}
			}()
			it, _ := c.value()
			o.Post = postObs{V: it}
		}()
		func() {
			defer func() {
				if r := recover(); r != nil {
					recovered(r)
					o.Repoll = "panic"
				}
			}()
			o.Repoll = fmt.Sprint(c.next())
		}()
	}
	return o
}

// forEachObs is one run of ForEach with a callback that fails on its (k+1)-th call.
type forEachObs struct {
	K       int    `json:"k"`
	Visited []item `json:"visited"`
	Err     string `json:"err"` // "same": the callback's error came back (possibly wrapped); "nil"; "other"
	Panic   string `json:"panic"`
	SrcOK   bool   `json:"srcok"`
}

type tooMany struct{}

func forEach(kind string, e *Expr, k, limit int) (o forEachObs) {
	v := &env{}
	o.K, o.Visited = k, []item{}
	mine := fmt.Errorf("stop at %d", k)
	visit := func(it item) error {
		if len(o.Visited) > limit {
			panic(tooMany{})
		}
		o.Visited = append(o.Visited, it)
		if len(o.Visited) == k+1 {
			return mine
		}
		return nil
	}
	func() {
		defer func() {
			if r := recover(); r != nil {
				if _, ok := r.(tooMany); ok {
					o.Err = "other"
					return
				}
				o.Panic = recovered(r)
			}
		}()
		var err error
		if kind == "pair" {
			err = pair.ForEach(v.buildPair(e), func(key, x int) error { return visit(item{key, x}) })
		} else {
			err = seq.ForEach(v.buildSeq(e), func(x int) error { return visit(item{x}) })
		}
		switch {
		case err == nil:
			o.Err = "nil"
		case errors.Is(err, mine):
			o.Err = "same"
		default:
			o.Err = "other"
		}
	}()
	o.SrcOK = v.sourcesIntact()
	return o
}
