package iterdrv

// Conformance harness for trait/seq and trait/pair (properties C14, C15).
//
// An expression tree (the JSON form printed by spec/seq/IterGen.tla / PairIterGen.tla) is interpreted over the real
// combinators: items are int (seq kind) or (int key, int value) (pair kind) in the model, and are carried into the Go
// element type (int, any, *box - see "element types" below) by a codec; predicates, mappings and flat-map
// functions are looked up by name in the fixed tables below, which repeat the tables of Iter.tla / PairIter.tla
// (TLC prints its tables once per run and checkTables compares them - a difference is a harness error, not a verdict)
// and always work on the model's integers.
//
//	VERIF_MODE=replay  VERIF_IN=<cases.jsonl from TLC>  VERIF_OUT=<findings.jsonl>          (replay_test.go)
//	VERIF_MODE=random  VERIF_SEED VERIF_N VERIF_DEPTH VERIF_KIND VERIF_OUT=<traces.jsonl>   (random_test.go)
//	VERIF_MODE=exec    VERIF_IN=<expressions.jsonl> VERIF_OUT=<traces.jsonl>                 (random_test.go)

import (
	"encoding/json"
	"errors"
	"fmt"

	"github.com/fogfish/golem/trait/pair"
	"github.com/fogfish/golem/trait/seq"
)

// ---------------------------------------------------------------------------- items and expressions

// item is what an iterator delivers: [x] for the seq kind, [key, value] for the pair kind.
// JSON: a number or a two-element array (what TLC prints for an integer / for <<k, v>>).
type item []int

func (it item) MarshalJSON() ([]byte, error) {
	if len(it) == 1 {
		return json.Marshal(it[0])
	}
	return json.Marshal([]int(it))
}

func (it *item) UnmarshalJSON(b []byte) error {
	if len(b) > 0 && b[0] == '[' {
		var a []int
		if err := json.Unmarshal(b, &a); err != nil {
			return err
		}
		*it = a
		return nil
	}
	var x int
	if err := json.Unmarshal(b, &x); err != nil {
		return err
	}
	*it = item{x}
	return nil
}

func (it item) eq(o item) bool {
	if len(it) != len(o) {
		return false
	}
	for i := range it {
		if it[i] != o[i] {
			return false
		}
	}
	return true
}

func itemsEq(a, b []item) bool {
	if len(a) != len(b) {
		return false
	}
	for i := range a {
		if !a[i].eq(b[i]) {
			return false
		}
	}
	return true
}

// Expr is one node of an expression tree.
//
//	nil | slice xs | from x | pfrom kv | tw/dw/flt p e | map m e | plus l r | join/toseq/fromseq j e
//	| joinx/toseqx/fromseqx p e a b   (flat-map by an expression-valued function)
type Expr struct {
	Op string `json:"op"`
	Xs []int  `json:"xs"`
	X  int    `json:"x"`
	KV []int  `json:"kv"`
	P  string `json:"p"`
	M  string `json:"m"`
	J  string `json:"j"`
	E  *Expr  `json:"e"`
	L  *Expr  `json:"l"`
	R  *Expr  `json:"r"`
	A  *Expr  `json:"a"` // joinx / toseqx / fromseqx: the function maps an item to A when P holds for it, else to B
	B  *Expr  `json:"b"`
}

func (e *Expr) MarshalJSON() ([]byte, error) {
	m := map[string]any{"op": e.Op}
	switch e.Op {
	case "nil":
	case "slice":
		xs := e.Xs
		if xs == nil {
			xs = []int{}
		}
		m["xs"] = xs
	case "from":
		m["x"] = e.X
	case "pfrom":
		m["kv"] = e.KV
	case "tw", "dw", "flt":
		m["p"], m["e"] = e.P, e.E
	case "map":
		m["m"], m["e"] = e.M, e.E
	case "plus":
		m["l"], m["r"] = e.L, e.R
	case "join", "toseq", "fromseq":
		m["j"], m["e"] = e.J, e.E
	case "joinx", "toseqx", "fromseqx":
		m["p"], m["e"], m["a"], m["b"] = e.P, e.E, e.A, e.B
	default:
		return nil, fmt.Errorf("unknown op %q", e.Op)
	}
	return json.Marshal(m)
}

func (e *Expr) String() string {
	b, _ := json.Marshal(e)
	return string(b)
}

func eNil() *Expr                  { return &Expr{Op: "nil"} }
func eSlice(xs ...int) *Expr       { return &Expr{Op: "slice", Xs: append([]int{}, xs...)} }
func eFrom(x int) *Expr            { return &Expr{Op: "from", X: x} }
func ePair(k, v int) *Expr         { return &Expr{Op: "pfrom", KV: []int{k, v}} }
func ePlus(l, r *Expr) *Expr       { return &Expr{Op: "plus", L: l, R: r} }
func eFlt(p string, e *Expr) *Expr { return &Expr{Op: "flt", P: p, E: e} }

// ---------------------------------------------------------------------------- function tables (= Iter.tla, PairIter.tla)

// harnessBug is the panic value of the harness itself (unknown name, malformed expression): never a verdict.
type harnessBug string

var seqPreds = map[string]func(int) bool{
	"lt2":  func(x int) bool { return x < 2 },
	"even": func(x int) bool { return x%2 == 0 },
	"tt":   func(int) bool { return true },
	"ff":   func(int) bool { return false },
}

var seqMaps = map[string]func(int) int{
	"inc": func(x int) int { return x + 1 },
	"dbl": func(x int) int { return 2 * x },
}

// flat-map functions are given as expression templates: the iterator they return is the interpretation of the
// template ("nil" and the empty slice: the function returns nil).
var seqJoins = map[string]func(int) *Expr{
	"nil": func(int) *Expr { return eNil() },
	"one": func(x int) *Expr { return eFrom(x) },
	"two": func(x int) *Expr { return eSlice(x, x+1) },
	"oddnil": func(x int) *Expr {
		if x%2 == 0 {
			return eSlice(x, x)
		}
		return eSlice()
	},
	"fev": func(x int) *Expr { return eFlt("even", eSlice(x, x+1, x+2)) },
}

var pairPreds = map[string]func(k, v int) bool{
	"klt12": func(k, v int) bool { return k < 12 },
	"veven": func(k, v int) bool { return v%2 == 0 },
	"kgtv":  func(k, v int) bool { return k > v },
	"pff":   func(k, v int) bool { return false },
}

var pairMaps = map[string]func(k, v int) int{
	"kmv":  func(k, v int) int { return k - v },
	"vdbl": func(k, v int) int { return 2 * v },
}

var pairJoins = map[string]func(k, v int) *Expr{ // pair.Join
	"pnil": func(k, v int) *Expr { return eNil() },
	"same": func(k, v int) *Expr { return ePair(k, v) },
	"swap": func(k, v int) *Expr { return ePair(v, k) },
	"dup":  func(k, v int) *Expr { return ePlus(ePair(k, v), ePair(k+1, v+2)) },
	"voddnil": func(k, v int) *Expr {
		if v%2 == 0 {
			return ePair(k, v)
		}
		return eNil()
	},
}

var toSeqJoins = map[string]func(k, v int) *Expr{ // pair.ToSeq
	"tnil":  func(k, v int) *Expr { return eNil() },
	"tvals": func(k, v int) *Expr { return eFrom(v) },
	"tkv":   func(k, v int) *Expr { return eSlice(k, v) },
	"tkodd": func(k, v int) *Expr {
		if k%2 == 0 {
			return eSlice()
		}
		return eSlice(k - v)
	},
}

var fromSeqJoins = map[string]func(x int) *Expr{ // pair.FromSeq
	"fnil": func(x int) *Expr { return eNil() },
	"kv":   func(x int) *Expr { return ePair(10+x, x) },
	"kv2":  func(x int) *Expr { return ePlus(ePair(10+x, x), ePair(20+x, x+1)) },
	"kvev": func(x int) *Expr {
		if x%2 == 0 {
			return ePair(10+x, x)
		}
		return eNil()
	},
}

func lookup[F any](tbl map[string]F, what, name string) F {
	f, ok := tbl[name]
	if !ok {
		panic(harnessBug(fmt.Sprintf("unknown %s %q", what, name)))
	}
	return f
}

// ---------------------------------------------------------------------------- interpretation over the real combinators

// call is one invocation of a user function as the library made it: name and argument(s).
type call struct {
	F string
	A item
}

func (c call) MarshalJSON() ([]byte, error) { return json.Marshal([]any{c.F, c.A}) }
func (c *call) UnmarshalJSON(b []byte) error {
	var raw []json.RawMessage
	if err := json.Unmarshal(b, &raw); err != nil || len(raw) != 2 {
		return fmt.Errorf("call: %s", b)
	}
	if err := json.Unmarshal(raw[0], &c.F); err != nil {
		return err
	}
	return json.Unmarshal(raw[1], &c.A)
}

func callsEq(a, b []call) bool {
	if len(a) != len(b) {
		return false
	}
	for i := range a {
		if a[i].F != b[i].F || !a[i].A.eq(b[i].A) {
			return false
		}
	}
	return true
}

// ---------------------------------------------------------------------------- element types
//
// The combinators are generic; the model's items are integers.  A codec carries the integers of a case into a Go
// element type and back, so that every case also runs over element types that have a nil value (a nil interface, a nil
// pointer): one integer Z of the model is coded as nil.  Everything the harness compares (drained lists, ForEach
// visits, the call log, the source slices) is compared after decoding, i.e. in the model's integers.

type box struct{ v int }

// undecodable is what dec answers for a Go value that no integer is coded as (it then shows up in the compared list).
const undecodable = -1000003

type codec[T any] struct {
	name  string
	enc   func(int) T
	dec   func(T) int
	isNil func(T) bool
}

func intCodec() codec[int] {
	return codec[int]{name: "int", enc: func(x int) int { return x }, dec: func(x int) int { return x }, isNil: func(int) bool { return false }}
}

// anyCodec: z -> nil interface; other odd values -> the int itself in the interface; other even values -> *box{v}
// (the interface holds different dynamic types).  Injective: z is the only integer coded as nil, an int codes itself,
// a *box its content; 0 is even and is coded as &box{0} (unless it is z).
func anyCodec(z int) codec[any] {
	return codec[any]{
		name: fmt.Sprintf("any/nil=%d", z),
		enc: func(x int) any {
			switch {
			case x == z:
				return nil
			case x%2 != 0:
				return x
			}
			return &box{x}
		},
		dec: func(t any) int {
			switch u := t.(type) {
			case nil:
				return z
			case int:
				if u != z && u%2 != 0 {
					return u
				}
			case *box:
				if u != nil && u.v != z && u.v%2 == 0 {
					return u.v
				}
			}
			return undecodable
		},
		isNil: func(t any) bool { return t == nil },
	}
}

// boxCodec: z -> nil pointer; other values -> &box{v}.
func boxCodec(z int) codec[*box] {
	return codec[*box]{
		name: fmt.Sprintf("*box/nil=%d", z),
		enc: func(x int) *box {
			if x == z {
				return nil
			}
			return &box{x}
		},
		dec: func(t *box) int {
			switch {
			case t == nil:
				return z
			case t.v == z:
				return undecodable
			}
			return t.v
		},
		isNil: func(t *box) bool { return t == nil },
	}
}

// ---------------------------------------------------------------------------- interpretation over the real combinators

// source is one slice handed to FromSlice: the whole backing array as it was made and as it is now (decoded), and the
// second iterator over the same array (never drained: the array is a source slice of another expression, too).
type source struct {
	orig  []int
	live  func() []int
	spare bool
	other any
}

// sentinels fill the spare capacity behind the window of a source slice.
var sentinels = []int{-7, -8, -9}

// env accompanies one construction: the calls the library makes and the slices handed to FromSlice.
type env struct {
	calls []call
	srcs  []source
	// layout of the source slices: bit (i mod 2) of mode says how the i-th slice of this construction is laid out -
	// 0: a window backing[:n] of an array of n+3 elements (spare capacity; the tail holds sentinels and the whole array
	// is the source of a second iterator), 1: an array of exactly n elements
	mode int
	nils int // nil elements met: coded for the library or decoded from what the library delivered
}

const layoutSpare = 0 // every source slice is a window with spare capacity (3: every one has len = cap, as a slice literal)

func (v *env) log(f string, a ...int) { v.calls = append(v.calls, call{F: f, A: item(a)}) }

// since returns the calls logged after mark (never nil, so that it prints as []).
func (v *env) since(mark int) []call { return append([]call{}, v.calls[mark:]...) }

func (v *env) sourcesIntact() bool {
	for _, s := range v.srcs {
		live := s.live()
		if len(s.orig) != len(live) {
			return false
		}
		for i := range s.orig {
			if s.orig[i] != live[i] {
				return false
			}
		}
	}
	return true
}

// either is the expression-valued function of joinx: A where the selecting predicate holds, B otherwise.
func either(holds bool, e *Expr) *Expr {
	if holds {
		return e.A
	}
	return e.B
}

// bld interprets expressions over the element type T: keys and values of pairs are both T.
type bld[T any] struct {
	v *env
	c codec[T]
}

func (b bld[T]) enc(x int) T {
	t := b.c.enc(x)
	if b.c.isNil(t) {
		b.v.nils++
	}
	return t
}

func (b bld[T]) dec(t T) int {
	if b.c.isNil(t) {
		b.v.nils++
	}
	return b.c.dec(t)
}

// source lays xs out as the env's mode says and returns the slice for FromSlice.
func (b bld[T]) source(xs []int) []T {
	v := b.v
	n := len(xs)
	spare := (v.mode>>(len(v.srcs)%2))&1 == 0
	orig := append([]int{}, xs...)
	if spare {
		orig = append(orig, sentinels...)
	}
	backing := make([]T, len(orig))
	for i, x := range orig {
		backing[i] = b.enc(x)
	}
	dec := b.c.dec
	v.srcs = append(v.srcs, source{orig: orig, spare: spare, other: seq.FromSlice(backing), live: func() []int {
		out := make([]int, len(backing))
		for i, t := range backing {
			out[i] = dec(t)
		}
		return out
	}})
	return backing[:n]
}

func (b bld[T]) pred(name string) func(T) bool {
	f := lookup(seqPreds, "predicate", name)
	return func(t T) bool { x := b.dec(t); b.v.log(name, x); return f(x) }
}

func (b bld[T]) ppred(name string) func(T, T) bool {
	f := lookup(pairPreds, "pair predicate", name)
	return func(kt, t T) bool { k, x := b.dec(kt), b.dec(t); b.v.log(name, k, x); return f(k, x) }
}

func (b bld[T]) seq(e *Expr) seq.Seq[T] {
	if e == nil {
		panic(harnessBug("missing sub-expression"))
	}
	v := b.v
	switch e.Op {
	case "nil":
		return nil
	case "slice":
		return seq.FromSlice(b.source(e.Xs))
	case "from":
		return seq.From(b.enc(e.X))
	case "tw":
		return seq.TakeWhile(b.seq(e.E), b.pred(e.P))
	case "dw":
		return seq.DropWhile(b.seq(e.E), b.pred(e.P))
	case "flt":
		return seq.Filter(b.seq(e.E), b.pred(e.P))
	case "map":
		f := lookup(seqMaps, "mapping", e.M)
		return seq.Map(b.seq(e.E), func(t T) T { x := b.dec(t); v.log(e.M, x); return b.enc(f(x)) })
	case "plus":
		l := b.seq(e.L)
		r := b.seq(e.R)
		return seq.Plus(l, r)
	case "join":
		f := lookup(seqJoins, "flat-map function", e.J)
		return seq.Join(b.seq(e.E), func(t T) seq.Seq[T] { x := b.dec(t); v.log(e.J, x); return b.seq(f(x)) })
	case "joinx":
		sel := lookup(seqPreds, "predicate", e.P)
		return seq.Join(b.seq(e.E), func(t T) seq.Seq[T] { x := b.dec(t); v.log("joinx", x); return b.seq(either(sel(x), e)) })
	case "toseqx":
		sel := lookup(pairPreds, "pair predicate", e.P)
		return pair.ToSeq(b.pair(e.E), func(kt, t T) seq.Seq[T] {
			k, x := b.dec(kt), b.dec(t)
			v.log("joinx", k, x)
			return b.seq(either(sel(k, x), e))
		})
	case "toseq":
		f := lookup(toSeqJoins, "ToSeq function", e.J)
		return pair.ToSeq(b.pair(e.E), func(kt, t T) seq.Seq[T] { k, x := b.dec(kt), b.dec(t); v.log(e.J, k, x); return b.seq(f(k, x)) })
	}
	panic(harnessBug(fmt.Sprintf("op %q does not give a seq.Seq", e.Op)))
}

func (b bld[T]) pair(e *Expr) pair.Seq[T, T] {
	if e == nil {
		panic(harnessBug("missing sub-expression"))
	}
	v := b.v
	switch e.Op {
	case "nil":
		return nil
	case "pfrom":
		if len(e.KV) != 2 {
			panic(harnessBug("pfrom needs [k, v]"))
		}
		return pair.From(b.enc(e.KV[0]), b.enc(e.KV[1]))
	case "tw":
		return pair.TakeWhile(b.pair(e.E), b.ppred(e.P))
	case "dw":
		return pair.DropWhile(b.pair(e.E), b.ppred(e.P))
	case "flt":
		return pair.Filter(b.pair(e.E), b.ppred(e.P))
	case "map":
		f := lookup(pairMaps, "pair mapping", e.M)
		return pair.Map(b.pair(e.E), func(kt, t T) T { k, x := b.dec(kt), b.dec(t); v.log(e.M, k, x); return b.enc(f(k, x)) })
	case "plus":
		l := b.pair(e.L)
		r := b.pair(e.R)
		return pair.Plus(l, r)
	case "join":
		f := lookup(pairJoins, "pair flat-map function", e.J)
		return pair.Join(b.pair(e.E), func(kt, t T) pair.Seq[T, T] { k, x := b.dec(kt), b.dec(t); v.log(e.J, k, x); return b.pair(f(k, x)) })
	case "joinx":
		sel := lookup(pairPreds, "pair predicate", e.P)
		return pair.Join(b.pair(e.E), func(kt, t T) pair.Seq[T, T] {
			k, x := b.dec(kt), b.dec(t)
			v.log("joinx", k, x)
			return b.pair(either(sel(k, x), e))
		})
	case "fromseqx":
		sel := lookup(seqPreds, "predicate", e.P)
		return pair.FromSeq(b.seq(e.E), func(t T) pair.Seq[T, T] { x := b.dec(t); v.log("joinx", x); return b.pair(either(sel(x), e)) })
	case "fromseq":
		f := lookup(fromSeqJoins, "FromSeq function", e.J)
		return pair.FromSeq(b.seq(e.E), func(t T) pair.Seq[T, T] { x := b.dec(t); v.log(e.J, x); return b.pair(f(x)) })
	}
	panic(harnessBug(fmt.Sprintf("op %q does not give a pair.Seq", e.Op)))
}

// ---------------------------------------------------------------------------- observing an iterator

// cursor hides the kind and the element type: what the documented loop needs (decoded), plus Key() read again after
// Value() for pairs.
type cursor interface {
	value() (it item, keyAfter int)
	next() bool
}

type seqCursor[T any] struct {
	s seq.Seq[T]
	b bld[T]
}

func (c seqCursor[T]) value() (item, int) { return item{c.b.dec(c.s.Value())}, 0 }
func (c seqCursor[T]) next() bool         { return c.s.Next() }

type pairCursor[T any] struct {
	s pair.Seq[T, T]
	b bld[T]
}

func (c pairCursor[T]) value() (item, int) {
	k := c.b.dec(c.s.Key())
	x := c.b.dec(c.s.Value())
	return item{k, x}, c.b.dec(c.s.Key())
}
func (c pairCursor[T]) next() bool { return c.s.Next() }

// build constructs the iterator for e; nil cursor = nil iterator.
func (b bld[T]) build(kind string, e *Expr) cursor {
	if kind == "pair" {
		if s := b.pair(e); s != nil {
			return pairCursor[T]{s, b}
		}
		return nil
	}
	if s := b.seq(e); s != nil {
		return seqCursor[T]{s, b}
	}
	return nil
}

type stepObs struct {
	V  item   `json:"v"`
	Ok bool   `json:"ok"`
	Vc []call `json:"vc"`
	Nc []call `json:"nc"`
	K2 int    `json:"k2"`
}

// postObs: v = Value() of the exhausted iterator, or panic = true (then v = 0); {false, 0} when nil / not probed
type postObs struct {
	Panic bool `json:"panic"`
	V     item `json:"v"`
}

func (p postObs) eq(o postObs) bool { return p.Panic == o.Panic && (p.Panic || p.V.eq(o.V)) }

// observation of one construction + the documented loop `for has := s != nil; has; has = s.Next() { s.Value() }`
type observation struct {
	Nil       bool      `json:"nil"`
	Cc        []call    `json:"cc"`
	Steps     []stepObs `json:"steps"`
	Post      postObs   `json:"post"`      // Value() of the exhausted iterator (nobody promises anything about it)
	PostPanic string    `json:"postpanic"` // the panic of that probe
	Repoll    string    `json:"repoll"`    // Next() of the exhausted iterator polled once more: "false" | "true" | "panic"; "none" when nil / not probed
	Truncated bool      `json:"truncated"` // gave up after `limit` steps
	Panic     string    `json:"panic"`     // the library panicked while constructing / draining
	SrcOK     bool      `json:"srcok"`
	Src       []srcObs  `json:"-"` // the source slices that differ from what they were
	Nils      int       `json:"-"` // nil elements met up to the end of the documented loop
}

// srcObs is one modified source slice: the whole backing array (window + sentinels when it has spare capacity).
type srcObs struct {
	Spare bool  `json:"spare"`
	Was   []int `json:"was"`
	Is    []int `json:"is"`
}

func (v *env) modified() []srcObs {
	out := []srcObs{}
	for _, s := range v.srcs {
		live := s.live()
		same := len(live) == len(s.orig)
		for i := 0; same && i < len(live); i++ {
			same = live[i] == s.orig[i]
		}
		if !same {
			out = append(out, srcObs{Spare: s.spare, Was: s.orig, Is: live})
		}
	}
	return out
}

func (o *observation) values() []item {
	out := make([]item, len(o.Steps))
	for i, s := range o.Steps {
		out[i] = s.V
	}
	return out
}

func recovered(r any) string {
	if hb, ok := r.(harnessBug); ok {
		panic(hb)
	}
	return fmt.Sprint(r)
}

func observeT[T any](c codec[T], mode int, kind string, e *Expr, limit int) (o observation) {
	v := &env{mode: mode}
	b := bld[T]{v: v, c: c}
	o.Cc, o.Steps, o.Post, o.Repoll = []call{}, []stepObs{}, postObs{V: item{0}}, "none"
	var cur cursor
	func() {
		defer func() {
			if r := recover(); r != nil {
				o.Panic = recovered(r)
			}
		}()
		cur = b.build(kind, e)
		o.Cc = v.since(0)
		o.Nil = cur == nil
		for has := cur != nil; has; {
			if len(o.Steps) >= limit {
				o.Truncated = true
				return
			}
			m0 := len(v.calls)
			it, k2 := cur.value()
			m1 := len(v.calls)
			has = cur.next()
			o.Steps = append(o.Steps, stepObs{V: it, Ok: has, Vc: v.since(m0)[:m1-m0], Nc: v.since(m1), K2: k2})
		}
	}()
	o.SrcOK = v.sourcesIntact()
	if !o.SrcOK {
		o.Src = v.modified()
	}
	o.Nils = v.nils
	if cur != nil && o.Panic == "" && !o.Truncated {
		func() {
			defer func() {
				if r := recover(); r != nil {
					o.PostPanic = recovered(r)
					o.Post = postObs{Panic: true, V: item{0}}
				}
			}()
			it, _ := cur.value()
			o.Post = postObs{V: it}
		}()
		func() {
			defer func() {
				if r := recover(); r != nil {
					recovered(r)
					o.Repoll = "panic"
				}
			}()
			o.Repoll = fmt.Sprint(cur.next())
		}()
	}
	return o
}

// forEachObs is one run of ForEach with a callback that fails on its (k+1)-th call.
type forEachObs struct {
	K       int      `json:"k"`
	Visited []item   `json:"visited"`
	Err     string   `json:"err"` // "same": the callback's error came back (possibly wrapped); "nil"; "other"
	Panic   string   `json:"panic"`
	SrcOK   bool     `json:"srcok"`
	Src     []srcObs `json:"-"`
	Nils    int      `json:"-"`
}

type tooMany struct{}

func forEachT[T any](c codec[T], mode int, kind string, e *Expr, k, limit int) (o forEachObs) {
	v := &env{mode: mode}
	b := bld[T]{v: v, c: c}
	o.K, o.Visited = k, []item{}
	mine := fmt.Errorf("stop at %d", k)
	visit := func(it item) error {
		if len(o.Visited) > limit {
			panic(tooMany{})
		}
		o.Visited = append(o.Visited, it)
		if len(o.Visited) == k+1 {
			return mine
		}
		return nil
	}
	func() {
		defer func() {
			if r := recover(); r != nil {
				if _, ok := r.(tooMany); ok {
					o.Err = "other"
					return
				}
				o.Panic = recovered(r)
			}
		}()
		var err error
		if kind == "pair" {
			err = pair.ForEach(b.pair(e), func(kt, t T) error { return visit(item{b.dec(kt), b.dec(t)}) })
		} else {
			err = seq.ForEach(b.seq(e), func(t T) error { return visit(item{b.dec(t)}) })
		}
		switch {
		case err == nil:
			o.Err = "nil"
		case errors.Is(err, mine):
			o.Err = "same"
		default:
			o.Err = "other"
		}
	}()
	o.SrcOK = v.sourcesIntact()
	if !o.SrcOK {
		o.Src = v.modified()
	}
	o.Nils = v.nils
	return o
}

// ---------------------------------------------------------------------------- element-type variants

// variant is one element type (with its codec) every case is executed over.
type variant interface {
	Name() string
	observe(mode int, kind string, e *Expr, limit int) observation
	forEach(mode int, kind string, e *Expr, k, limit int) forEachObs
}

type variantOf[T any] struct{ c codec[T] }

func (w variantOf[T]) Name() string { return w.c.name }
func (w variantOf[T]) observe(mode int, kind string, e *Expr, limit int) observation {
	return observeT(w.c, mode, kind, e, limit)
}
func (w variantOf[T]) forEach(mode int, kind string, e *Expr, k, limit int) forEachObs {
	return forEachT(w.c, mode, kind, e, k, limit)
}

// allVariants: int first (the only one the I-level comparisons are made for).
func allVariants() []variant {
	return []variant{variantOf[int]{intCodec()}, variantOf[any]{anyCodec(1)}, variantOf[any]{anyCodec(2)}, variantOf[*box]{boxCodec(1)}}
}

// codecSelfTest: enc is injective and dec its inverse on the integers the cases can contain; exactly z is nil.
func codecSelfTest() []string {
	bad := []string{}
	test := func(name string, rt func(int) (int, bool), z int, hasNil bool) {
		for x := -40; x <= 80; x++ {
			y, isnil := rt(x)
			if y != x {
				bad = append(bad, fmt.Sprintf("%s: dec(enc(%d)) = %d", name, x, y))
			}
			if isnil != (hasNil && x == z) {
				bad = append(bad, fmt.Sprintf("%s: enc(%d) nil = %v", name, x, isnil))
			}
		}
	}
	ic := intCodec()
	test(ic.name, func(x int) (int, bool) { t := ic.enc(x); return ic.dec(t), ic.isNil(t) }, 0, false)
	for _, z := range []int{0, 1, 2} {
		ac := anyCodec(z)
		test(ac.name, func(x int) (int, bool) { t := ac.enc(x); return ac.dec(t), ac.isNil(t) }, z, true)
		seen := map[any]int{} // distinct integers give distinct interface values (pointers differ per call: compare what they hold)
		for x := -40; x <= 80; x++ {
			t := ac.enc(x)
			key := t
			if p, ok := t.(*box); ok {
				key = *p
			}
			if y, dup := seen[key]; dup {
				bad = append(bad, fmt.Sprintf("%s: enc(%d) = enc(%d)", ac.name, x, y))
			}
			seen[key] = x
		}
		bc := boxCodec(z)
		test(bc.name, func(x int) (int, bool) { t := bc.enc(x); return bc.dec(t), bc.isNil(t) }, z, true)
	}
	return bad
}
