package iterdrv

// spec -> impl: every case printed by TLC (expression, expected drained list, expected ForEach runs, expected step
// trace) is executed on the real iterators.
//
//	P level (a difference is a "pviol" finding = a violation of the property):
//	  DrainedList      the values (for pairs: (Key(), Value())) delivered by the documented loop
//	  KeyValuePairing  Key() read before and after Value() of the same element differ
//	  ForEachVisits    what ForEach visited when the callback fails at its (k+1)-th call, for every k
//	  ForEachError     ForEach returns that error (nil when the callback never fails)
//	  SourceModified   a slice handed to FromSlice changed (the whole backing array is compared: the slices are laid out
//	                   with len = cap or as a window of a longer array that is the source of a second iterator, too)
//	  Panic / Hang     the library panicked / did not come back
//	Every case is executed once per element-type variant (int; any and *box with one integer of the model coded as nil):
//	the P level is compared for each of them after decoding, the I level for int only.
//	I level (a "drift" finding: the implementation-shaped model no longer describes the code):
//	  the user-function calls made while constructing and during each Value() / Next(), and what the exhausted
//	  iterator answers when asked once more.

import (
	"encoding/json"
	"fmt"
	"os"
	"slices"
	"strings"
	"sync/atomic"
	"testing"
	"time"

	"verifharness/vio"
)

type feExpect struct {
	Visited []item `json:"visited"`
	Failed  bool   `json:"failed"`
}

type genCase struct {
	T      string     `json:"t"`
	Kind   string     `json:"kind"`
	Expr   *Expr      `json:"expr"`
	List   []item     `json:"list"`
	Fe     []feExpect `json:"fe"`
	Nil    bool       `json:"nil"`
	Cc     []call     `json:"cc"`
	Steps  []stepObs  `json:"steps"`
	Post   postObs    `json:"post"`
	Repoll string     `json:"repoll"`
	Ci     *int       `json:"ci"` // --replay of a stored case: the index it had (the layout of the source slices depends on it)
}

type finding struct {
	T    string `json:"t"` // "pviol" | "drift" | "harness"
	Case int    `json:"case"`
	At   int    `json:"at"` // the index that chose the layout of the source slices (= case, except in a --replay)
	Kind string `json:"kind"`
	Elem string `json:"elem"` // the element-type variant the case was executed over
	Expr *Expr  `json:"expr,omitempty"`
	Pred string `json:"pred"`
	K    int    `json:"k"` // ForEach: index of the failing callback call
	Want any    `json:"want"`
	Got  any    `json:"got"`
	Src  string `json:"src,omitempty"` // SourceModified: how the modified slice was laid out
}

type elemStats struct {
	Elem     string `json:"elem"`
	Cases    int    `json:"cases"`    // cases executed over this element type
	NilCases int    `json:"nilcases"` // ... in which a nil element was handed to / delivered by the library
	Built    int    `json:"built"`
}

type replayStats struct {
	Cases, Built, Steps, ForEachRuns int
	Elems                            []elemStats
}

const hangAfter = 30 * time.Second

// withWatchdog runs f; when it does not come back the finding is written and the process ends (the goroutine
// cannot be stopped): the orchestrator reports the hang and that the remaining cases were not executed.
func withWatchdog(out *vio.Out, onHang func() any, f func()) {
	done := make(chan struct{})
	go func() { defer close(done); f() }()
	select {
	case <-done:
	case <-time.After(hangAfter):
		out.Put(onHang())
		out.Put(map[string]any{"t": "aborted"})
		out.Close()
		os.Exit(0)
	}
}

// judgeCase executes case ci over the element-type variant w (the vi-th one).  The layout of the source slices changes
// from run to run (the drain, then every ForEach run), starting at a point that depends on the case and the variant.
func judgeCase(ci, at, vi int, w variant, c *genCase, out *vio.Out, st *replayStats, iLevel bool) {
	emit := func(level, pred string, k int, want, got any) {
		out.Put(finding{T: level, Case: ci, At: at, Kind: c.Kind, Elem: w.Name(), Expr: c.Expr, Pred: pred, K: k, Want: want, Got: got})
	}
	srcModified := func(k int, src []srcObs) {
		f := finding{T: "pviol", Case: ci, At: at, Kind: c.Kind, Elem: w.Name(), Expr: c.Expr, Pred: "SourceModified", K: k}
		if len(src) > 0 {
			f.Want, f.Got, f.Src = src[0].Was, src[0].Is, "len = cap"
			if src[0].Spare {
				f.Src = fmt.Sprintf("the first %d elements of a longer array handed to FromSlice; the whole array is compared", len(src[0].Was)-len(sentinels))
			}
		}
		out.Put(f)
	}
	es := &st.Elems[vi]
	es.Cases++
	nils := 0
	defer func() {
		if nils > 0 {
			es.NilCases++
		}
	}()
	mode := func(r int) int { return (at + vi + r) % 4 }
	// ---- the documented loop
	o := w.observe(mode(0), c.Kind, c.Expr, len(c.List)+2)
	nils += o.Nils
	st.Built++
	es.Built++
	st.Steps += len(o.Steps)
	switch {
	case o.Panic != "":
		emit("pviol", "Panic", 0, c.List, o.Panic)
	case !itemsEq(o.values(), c.List):
		emit("pviol", "DrainedList", 0, c.List, o.values())
	}
	if c.Kind == "pair" {
		for _, s := range o.Steps {
			if s.K2 != s.V[0] {
				emit("pviol", "KeyValuePairing", 0, s.V[0], s.K2)
				break
			}
		}
	}
	if !o.SrcOK {
		srcModified(0, o.Src)
	}
	// ---- ForEach, failing at every position and never
	for k := range c.Fe {
		f := w.forEach(mode(k+1), c.Kind, c.Expr, k, len(c.List)+2)
		nils += f.Nils
		st.Built++
		es.Built++
		st.ForEachRuns++
		want := "nil"
		if c.Fe[k].Failed {
			want = "same"
		}
		switch {
		case f.Panic != "":
			emit("pviol", "Panic", k, c.Fe[k].Visited, f.Panic)
		case !itemsEq(f.Visited, c.Fe[k].Visited):
			emit("pviol", "ForEachVisits", k, c.Fe[k].Visited, f.Visited)
		case f.Err != want:
			emit("pviol", "ForEachError", k, want, f.Err)
		}
		if !f.SrcOK {
			srcModified(k, f.Src)
		}
	}
	// ---- finer than the statement: calls and the exhausted iterator (only when the P level agrees; element type int)
	if !iLevel || o.Panic != "" || !itemsEq(o.values(), c.List) {
		return
	}
	if !callsEq(o.Cc, c.Cc) {
		emit("drift", "ConstructCalls", 0, c.Cc, o.Cc)
		return
	}
	if len(c.Steps) != len(o.Steps) {
		emit("drift", "StepCalls", 0, len(c.Steps), len(o.Steps))
		return
	}
	for i := range o.Steps {
		w, g := c.Steps[i], o.Steps[i]
		if w.Ok != g.Ok || !callsEq(w.Vc, g.Vc) || !callsEq(w.Nc, g.Nc) {
			emit("drift", "StepCalls", i, w, g)
			return
		}
	}
	if !c.Nil && !c.Post.eq(o.Post) {
		emit("drift", "Exhausted", 0, c.Post, o.Post)
		return
	}
	if c.Repoll != o.Repoll {
		emit("drift", "PolledAgain", 0, c.Repoll, o.Repoll)
	}
}

func TestReplay(t *testing.T) {
	if vio.Env("VERIF_MODE", "") != "replay" {
		t.Skip()
	}
	out, err := vio.Create(vio.Env("VERIF_OUT", ""))
	if err != nil {
		t.Fatal(err)
	}
	defer out.Close()
	for _, d := range codecSelfTest() {
		out.Put(finding{T: "harness", Pred: "Codec", Got: d})
	}
	// VERIF_ELEMS: "all" or the names of the variants to run (comma separated); VERIF_ELEM_EVERY = n: the variants other
	// than int run on the cases of depth <= 1 (a source alone, one combinator over sources) and on every n-th other case
	vars := allVariants()
	skip := make([]bool, len(vars))
	if sel := vio.Env("VERIF_ELEMS", "all"); sel != "all" {
		n := 0
		for vi, w := range vars {
			skip[vi] = !slices.Contains(strings.Split(sel, ","), w.Name())
			if !skip[vi] {
				n++
			}
		}
		if n == 0 {
			t.Fatalf("VERIF_ELEMS=%q names no element-type variant", sel)
		}
	}
	every := max(vio.EnvInt("VERIF_ELEM_EVERY", 1), 1)
	seed := vio.EnvInt("VERIF_SEED", 1)
	st := &replayStats{}
	for _, w := range vars {
		st.Elems = append(st.Elems, elemStats{Elem: w.Name()})
	}
	ci := 0
	tables := 0
	err = vio.ReadLines(vio.Env("VERIF_IN", ""), func(b []byte) error {
		var head struct {
			T string `json:"t"`
		}
		if err := json.Unmarshal(b, &head); err != nil {
			return err
		}
		switch head.T {
		case "tables":
			tables++
			for _, d := range checkTables(b) {
				out.Put(finding{T: "harness", Pred: "Tables", Got: d})
			}
			return nil
		case "case":
		default:
			return fmt.Errorf("unknown record %q", head.T)
		}
		var c genCase
		if err := json.Unmarshal(b, &c); err != nil {
			return err
		}
		idx, at := ci, ci
		ci++
		if c.Ci != nil {
			at = *c.Ci
		}
		small := depthOf(c.Expr) <= 1
		// one watchdog for the case: running holds the variant being executed
		var running atomic.Int32
		withWatchdog(out, func() any {
			return finding{T: "pviol", Case: idx, At: at, Kind: c.Kind, Elem: vars[running.Load()].Name(), Expr: c.Expr, Pred: "Hang", Want: c.List, Got: "no answer within " + hangAfter.String()}
		}, func() {
			for vi, w := range vars {
				if skip[vi] || w.Name() != "int" && !small && (at+vi+seed)%every != 0 {
					continue
				}
				running.Store(int32(vi))
				judgeCase(idx, at, vi, w, &c, out, st, w.Name() == "int")
			}
		})
		st.Cases++
		return nil
	})
	if err != nil {
		t.Fatal(err)
	}
	out.Put(map[string]any{"t": "stats", "cases": st.Cases, "built": st.Built, "steps": st.Steps, "foreach": st.ForEachRuns, "tables": tables, "elems": st.Elems})
}

// ---------------------------------------------------------------------------- the tables must be TLC's tables

type tlcTables struct {
	Kind   string             `json:"kind"`
	Lo     int                `json:"lo"`
	Grid   [][2]int           `json:"grid"`
	Preds  map[string][]bool  `json:"preds"`
	Maps   map[string][]int   `json:"maps"`
	Joins  map[string][]*Expr `json:"joins"`
	PPreds map[string][]bool  `json:"ppreds"`
	PMaps  map[string][]int   `json:"pmaps"`
	PJoins map[string][]*Expr `json:"pjoins"`
	TJoins map[string][]*Expr `json:"tjoins"`
	FJoins map[string][]*Expr `json:"fjoins"`
}

func sameNames[A, B any](what string, a map[string]A, b map[string]B, diffs *[]string) {
	for n := range a {
		if _, ok := b[n]; !ok {
			*diffs = append(*diffs, fmt.Sprintf("%s %q is in TLC's table only", what, n))
		}
	}
	for n := range b {
		if _, ok := a[n]; !ok {
			*diffs = append(*diffs, fmt.Sprintf("%s %q is in the harness table only", what, n))
		}
	}
}

// checkTables returns the differences between the tables TLC printed and the harness tables.
func checkTables(b []byte) (diffs []string) {
	var tt tlcTables
	if err := json.Unmarshal(b, &tt); err != nil {
		return []string{"tables record: " + err.Error()}
	}
	defer func() {
		if r := recover(); r != nil {
			diffs = append(diffs, fmt.Sprint(r))
		}
	}()
	cmp := func(what, name string, i int, want, got any) {
		w, _ := json.Marshal(want)
		g, _ := json.Marshal(got)
		if string(w) != string(g) {
			diffs = append(diffs, fmt.Sprintf("%s %s at point %d: TLC %s, harness %s", what, name, i, w, g))
		}
	}
	if tt.Kind == "seq" {
		sameNames("predicate", tt.Preds, seqPreds, &diffs)
		sameNames("mapping", tt.Maps, seqMaps, &diffs)
		sameNames("flat-map", tt.Joins, seqJoins, &diffs)
		for n, col := range tt.Preds {
			for i, w := range col {
				cmp("predicate", n, i, w, lookup(seqPreds, "predicate", n)(tt.Lo+i))
			}
		}
		for n, col := range tt.Maps {
			for i, w := range col {
				cmp("mapping", n, i, w, lookup(seqMaps, "mapping", n)(tt.Lo+i))
			}
		}
		for n, col := range tt.Joins {
			for i, w := range col {
				cmp("flat-map", n, i, w, lookup(seqJoins, "flat-map", n)(tt.Lo+i))
			}
		}
		return
	}
	sameNames("pair predicate", tt.PPreds, pairPreds, &diffs)
	sameNames("pair mapping", tt.PMaps, pairMaps, &diffs)
	sameNames("pair flat-map", tt.PJoins, pairJoins, &diffs)
	sameNames("ToSeq function", tt.TJoins, toSeqJoins, &diffs)
	sameNames("FromSeq function", tt.FJoins, fromSeqJoins, &diffs)
	for n, col := range tt.PPreds {
		for i, w := range col {
			cmp("pair predicate", n, i, w, lookup(pairPreds, "", n)(tt.Grid[i][0], tt.Grid[i][1]))
		}
	}
	for n, col := range tt.PMaps {
		for i, w := range col {
			cmp("pair mapping", n, i, w, lookup(pairMaps, "", n)(tt.Grid[i][0], tt.Grid[i][1]))
		}
	}
	for n, col := range tt.PJoins {
		for i, w := range col {
			cmp("pair flat-map", n, i, w, lookup(pairJoins, "", n)(tt.Grid[i][0], tt.Grid[i][1]))
		}
	}
	for n, col := range tt.TJoins {
		for i, w := range col {
			cmp("ToSeq function", n, i, w, lookup(toSeqJoins, "", n)(tt.Grid[i][0], tt.Grid[i][1]))
		}
	}
	for n, col := range tt.FJoins {
		for i, w := range col {
			cmp("FromSeq function", n, i, w, lookup(fromSeqJoins, "", n)(tt.Lo+i))
		}
	}
	return
}
