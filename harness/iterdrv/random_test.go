package iterdrv

// impl -> spec: seeded random deep expressions are executed on the real iterators and what was observed is recorded
// (one JSON object per line) for TLC to judge (spec/seq/IterTrace.tla, PairIterTrace.tla).
//
//	VERIF_MODE=random  VERIF_SEED=n VERIF_N=count VERIF_DEPTH=d (<= 6) VERIF_KIND=seq|pair VERIF_OUT=<traces.jsonl>
//	VERIF_MODE=exec    VERIF_IN=<lines {"kind":..,"expr":..}> VERIF_OUT=<traces.jsonl>    (re-execution of a stored case)

import (
	"encoding/json"
	"math/rand"
	"testing"

	"verifharness/vio"
)

type trace struct {
	Kind   string       `json:"kind"`
	Expr   *Expr        `json:"expr"`
	Depth  int          `json:"depth"`
	Cc     []call       `json:"cc"`
	Steps  []stepObs    `json:"steps"`
	Fe     []forEachObs `json:"fe"`
	SrcOK  bool         `json:"srcok"`
	Post   postObs      `json:"post"`
	Repoll string       `json:"repoll"`
	// not judged by TLC: reported by the orchestrator directly
	Panic     string `json:"panic"`
	Truncated bool   `json:"truncated"`
	PostPanic string `json:"postpanic"`
	Hang      bool   `json:"hang"`
}

const stepLimit = 4000

func execute(kind string, e *Expr, rng *rand.Rand) trace {
	// element type int; the source slices are windows with spare capacity while draining and are laid out differently
	// from one ForEach run to the next (see env.mode)
	o := observeT(intCodec(), layoutSpare, kind, e, stepLimit)
	t := trace{Kind: kind, Expr: e, Depth: depthOf(e), Cc: o.Cc, Steps: o.Steps, Fe: []forEachObs{}, SrcOK: o.SrcOK, Post: o.Post, Repoll: o.Repoll,
		Panic: o.Panic, Truncated: o.Truncated, PostPanic: o.PostPanic}
	if o.Panic != "" || o.Truncated {
		return t
	}
	n := len(o.Steps)
	ks := map[int]bool{0: true, n: true}
	if n > 0 {
		ks[n-1] = true
		ks[rng.Intn(n)] = true
	}
	for k := 0; k <= n; k++ {
		if !ks[k] {
			continue
		}
		f := forEachT(intCodec(), (k+1)%4, kind, e, k, n+2)
		if f.Panic != "" {
			t.Panic = "ForEach: " + f.Panic
		}
		t.SrcOK = t.SrcOK && f.SrcOK
		t.Fe = append(t.Fe, f)
	}
	return t
}

// bound is a syntactic upper bound of the length of any list met while evaluating e (the judge in TLC evaluates
// the eager loops of the cursor model recursively: very long intermediate lists exhaust its stack).
func bound(e *Expr) int {
	if e == nil {
		return 0
	}
	switch e.Op {
	case "nil":
		return 0
	case "slice":
		return len(e.Xs)
	case "from", "pfrom":
		return 1
	case "plus":
		return bound(e.L) + bound(e.R)
	case "join", "toseq", "fromseq":
		return 2 * bound(e.E) // no function of the tables returns more than two elements
	case "joinx", "toseqx", "fromseqx":
		return max(bound(e.E), bound(e.E)*max(bound(e.A), bound(e.B)))
	}
	return bound(e.E)
}

const maxBound = 120

func depthOf(e *Expr) int {
	if e == nil {
		return 0
	}
	d := 0
	for _, c := range []*Expr{e.E, e.L, e.R, e.A, e.B} {
		if c != nil {
			d = max(d, 1+depthOf(c))
		}
	}
	return d
}

// ---------------------------------------------------------------------------- random expressions

func names[F any](m map[string]F) []string {
	out := []string{}
	for n := range m {
		out = append(out, n)
	}
	// map order is random: sort for reproducibility
	for i := range out {
		for j := i + 1; j < len(out); j++ {
			if out[j] < out[i] {
				out[i], out[j] = out[j], out[i]
			}
		}
	}
	return out
}

var (
	nSeqPreds, nSeqMaps, nSeqJoins = names(seqPreds), names(seqMaps), names(seqJoins)
	nPairPreds, nPairMaps          = names(pairPreds), names(pairMaps)
	nPairJoins, nToSeq, nFromSeq   = names(pairJoins), names(toSeqJoins), names(fromSeqJoins)
)

// pick chooses a name; the functions that empty a list altogether are chosen less often, so that deep trees
// still deliver elements.
func pick(rng *rand.Rand, xs []string) string {
	weight := func(n string) int {
		switch n {
		case "ff", "pff", "nil", "pnil", "tnil", "fnil":
			return 1
		}
		return 5
	}
	total := 0
	for _, n := range xs {
		total += weight(n)
	}
	r := rng.Intn(total)
	for _, n := range xs {
		if r -= weight(n); r < 0 {
			return n
		}
	}
	return xs[0]
}

type gen struct {
	rng   *rand.Rand
	pairs bool // pair nodes allowed (C15)
}

func (g *gen) slice() *Expr {
	n := 1 + g.rng.Intn(5)
	if g.rng.Intn(10) == 0 {
		n = 0
	}
	xs := make([]int, n)
	for i := range xs {
		xs[i] = g.rng.Intn(6)
	}
	return eSlice(xs...)
}

// inner is the other branch of an expression-valued function: nil half of the time, so that nil inners are mixed in.
func (g *gen) inner(mk func(int) *Expr, d int) *Expr {
	if g.rng.Intn(2) == 0 {
		return eNil()
	}
	return mk(g.rng.Intn(d))
}

// seq generates a seq-kind expression of depth exactly d on at least one branch.
func (g *gen) seq(d int) *Expr {
	if d == 0 {
		switch r := g.rng.Intn(20); {
		case r < 14:
			return g.slice()
		case r < 19:
			return eFrom(g.rng.Intn(6))
		default:
			return eNil()
		}
	}
	ops := []string{"tw", "dw", "flt", "map", "plus", "plus", "plus", "join", "join", "joinx", "joinx"}
	if g.pairs {
		ops = append(ops, "toseq", "toseq", "toseq", "toseqx")
	}
	switch op := ops[g.rng.Intn(len(ops))]; op {
	case "tw", "dw", "flt":
		return &Expr{Op: op, P: pick(g.rng, nSeqPreds), E: g.seq(d - 1)}
	case "map":
		return &Expr{Op: op, M: pick(g.rng, nSeqMaps), E: g.seq(d - 1)}
	case "join":
		return &Expr{Op: op, J: pick(g.rng, nSeqJoins), E: g.seq(d - 1)}
	case "toseq":
		return &Expr{Op: op, J: pick(g.rng, nToSeq), E: g.pair(d - 1)}
	case "joinx":
		return &Expr{Op: op, P: pick(g.rng, nSeqPreds), E: g.seq(d - 1), A: g.seq(g.rng.Intn(d)), B: g.inner(g.seq, d)}
	case "toseqx":
		return &Expr{Op: op, P: pick(g.rng, nPairPreds), E: g.pair(d - 1), A: g.seq(g.rng.Intn(d)), B: g.inner(g.seq, d)}
	default:
		a, b := g.seq(d-1), g.seq(g.rng.Intn(d))
		if g.rng.Intn(2) == 0 {
			a, b = b, a
		}
		return ePlus(a, b)
	}
}

func (g *gen) pair(d int) *Expr {
	if d == 0 {
		switch r := g.rng.Intn(20); {
		case r < 12:
			x := g.rng.Intn(6)
			return ePair(10+x, x)
		case r < 19:
			return ePair(g.rng.Intn(16), g.rng.Intn(6))
		default:
			return eNil()
		}
	}
	if d == 1 && g.rng.Intn(2) == 0 {
		return &Expr{Op: "fromseq", J: "kv", E: g.slice()} // the canonical key-value list (key = 10 + value)
	}
	ops := []string{"tw", "dw", "flt", "map", "plus", "plus", "plus", "join", "join", "fromseq", "fromseq", "joinx", "fromseqx"}
	switch op := ops[g.rng.Intn(len(ops))]; op {
	case "tw", "dw", "flt":
		return &Expr{Op: op, P: pick(g.rng, nPairPreds), E: g.pair(d - 1)}
	case "map":
		return &Expr{Op: op, M: pick(g.rng, nPairMaps), E: g.pair(d - 1)}
	case "join":
		return &Expr{Op: op, J: pick(g.rng, nPairJoins), E: g.pair(d - 1)}
	case "fromseq":
		return &Expr{Op: op, J: pick(g.rng, nFromSeq), E: g.seq(d - 1)}
	case "joinx":
		return &Expr{Op: op, P: pick(g.rng, nPairPreds), E: g.pair(d - 1), A: g.pair(g.rng.Intn(d)), B: g.inner(g.pair, d)}
	case "fromseqx":
		return &Expr{Op: op, P: pick(g.rng, nSeqPreds), E: g.seq(d - 1), A: g.pair(g.rng.Intn(d)), B: g.inner(g.pair, d)}
	default:
		a, b := g.pair(d-1), g.pair(g.rng.Intn(d))
		if g.rng.Intn(2) == 0 {
			a, b = b, a
		}
		return ePlus(a, b)
	}
}

func TestRandom(t *testing.T) {
	if vio.Env("VERIF_MODE", "") != "random" {
		t.Skip()
	}
	out, err := vio.Create(vio.Env("VERIF_OUT", ""))
	if err != nil {
		t.Fatal(err)
	}
	defer out.Close()
	rng := rand.New(rand.NewSource(int64(vio.EnvInt("VERIF_SEED", 1))))
	kind := vio.Env("VERIF_KIND", "seq")
	maxDepth := min(vio.EnvInt("VERIF_DEPTH", 6), 6)
	g := &gen{rng: rng, pairs: kind == "pair"}
	for i := 0; i < vio.EnvInt("VERIF_N", 100); i++ {
		d := 1 + rng.Intn(maxDepth)
		k, e := "seq", (*Expr)(nil)
		if kind == "pair" && rng.Intn(3) > 0 {
			k, e = "pair", g.pair(d)
		} else {
			e = g.seq(d)
		}
		if bound(e) > maxBound {
			i-- // draw another one
			continue
		}
		guarded(out, k, e, rng)
	}
}

// guarded executes one expression under the watchdog of replay_test.go: a library call that never returns is recorded
// (hang = true) and ends the process.
func guarded(out *vio.Out, kind string, e *Expr, rng *rand.Rand) {
	withWatchdog(out, func() any {
		return trace{Kind: kind, Expr: e, Depth: depthOf(e), Cc: []call{}, Steps: []stepObs{}, Fe: []forEachObs{}, Post: postObs{V: item{0}}, Repoll: "none", Hang: true}
	}, func() { out.Put(execute(kind, e, rng)) })
}

func TestExec(t *testing.T) {
	if vio.Env("VERIF_MODE", "") != "exec" {
		t.Skip()
	}
	out, err := vio.Create(vio.Env("VERIF_OUT", ""))
	if err != nil {
		t.Fatal(err)
	}
	defer out.Close()
	rng := rand.New(rand.NewSource(1))
	err = vio.ReadLines(vio.Env("VERIF_IN", ""), func(b []byte) error {
		var in struct {
			Kind string `json:"kind"`
			Expr *Expr  `json:"expr"`
		}
		if err := json.Unmarshal(b, &in); err != nil {
			return err
		}
		guarded(out, in.Kind, in.Expr, rng)
		return nil
	})
	if err != nil {
		t.Fatal(err)
	}
}
