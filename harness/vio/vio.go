// Package vio holds the small amount of I/O shared by all harness packages: JSONL in, JSONL out.
package vio

import (
	"bufio"
	"encoding/json"
	"os"
	"strconv"
	"sync"
)

// Env returns the environment variable or a default.
func Env(k, def string) string {
	if v := os.Getenv(k); v != "" {
		return v
	}
	return def
}

func EnvInt(k string, def int) int {
	if v := os.Getenv(k); v != "" {
		if n, err := strconv.Atoi(v); err == nil {
			return n
		}
	}
	return def
}

// ReadLines calls f for every non-empty line of the file.
func ReadLines(path string, f func(line []byte) error) error {
	fh, err := os.Open(path)
	if err != nil {
		return err
	}
	defer fh.Close()
	sc := bufio.NewScanner(fh)
	sc.Buffer(make([]byte, 1<<20), 1<<28)
	for sc.Scan() {
		b := sc.Bytes()
		if len(b) == 0 {
			continue
		}
		if err := f(append([]byte{}, b...)); err != nil {
			return err
		}
	}
	return sc.Err()
}

// Out is a concurrency-safe JSONL writer.
type Out struct {
	mu sync.Mutex
	f  *os.File
	w  *bufio.Writer
}

func Create(path string) (*Out, error) {
	f, err := os.Create(path)
	if err != nil {
		return nil, err
	}
	return &Out{f: f, w: bufio.NewWriterSize(f, 1<<20)}, nil
}

func (o *Out) Put(v any) {
	b, err := json.Marshal(v)
	if err != nil {
		panic(err)
	}
	o.mu.Lock()
	o.w.Write(b)
	o.w.WriteByte('\n')
	o.mu.Unlock()
}

// Flush makes everything written so far durable enough to survive a crash of this process.
func (o *Out) Flush() {
	o.mu.Lock()
	o.w.Flush()
	o.mu.Unlock()
}

func (o *Out) Close() {
	o.Flush()
	o.f.Close()
}
