package seqadtdrv

// Conformance harness for internal/seq (staged as github.com/fogfish/golem/seq/...), property C19.
//
// A script works on three registers r0..r2 (1..3 in the model), all New() at the start:
//
//	new(i, xs)  r_i = New(xs...)     cons(i, x, j)  r_i = Cons(x, r_j)     tail(i, j)  r_i = Tail(r_j)  (r_j not empty)
//
// and is executed on four machines: {list.Trait, slice.Trait} x {int elements folded with the "lin" monoid
// (Empty = 1, Combine(x, y) = 2x + y), string elements folded with the "cat" monoid (Empty = "^", concatenation)}.
// After every step every register of every machine is observed: element list (Head / Tail until IsEmpty),
// Length, IsEmpty, Head, Foldable.Fold.
//
//	VERIF_MODE=replay  VERIF_IN=<cases.jsonl printed by SeqADTGen>  VERIF_OUT=<findings.jsonl>
//	    every script with the register contents TLC expects after every step; compares (P), and for the slice
//	    trait checks the I-level facts "Cons never returns memory of its argument" / "Tail is a re-slice" (drift).
//	VERIF_MODE=random  VERIF_SEED=s VERIF_N=traces VERIF_OPS=n  VERIF_OUT=<traces.jsonl>
//	    seeded random longer scripts, every observation recorded, to be judged by TLC (SeqADTTrace).
import (
	"encoding/json"
	"fmt"
	"math/rand"
	"os"
	"strconv"
	"strings"
	"sync"
	"testing"
	"unsafe"

	"github.com/fogfish/golem/pure/monoid"
	"github.com/fogfish/golem/seq"
	"github.com/fogfish/golem/seq/list"
	"github.com/fogfish/golem/seq/slice"

	"verifharness/vio"
)

const nregs = 3
const runaway = 5000 // no register of any script is that long: stops an extraction loop that does not end

type op struct {
	Op    string  `json:"op"`
	I     int     `json:"i"` // 1..3
	J     int     `json:"j"`
	X     int     `json:"x"`
	Xs    []int   `json:"xs"`
	Quiet bool    `json:"quiet,omitempty"` // recorded scripts: no observation after this step (long scripts)
	After [][]int `json:"after,omitempty"` // expected element lists of the three registers after the step
	Lin   []int   `json:"lin,omitempty"`   // expected lin folds
}

type obs struct {
	Elems []int  `json:"elems"`
	Len   int    `json:"len"`
	Empty bool   `json:"empty"`
	Head  int    `json:"head"` // 0: not asked (the model's register is empty)
	Fold  any    `json:"fold"` // lin: number, cat: codes (0 = the monoid's empty marker)
	Panic string `json:"panic"`
}

// machine is one implementation x element type, seen without its type parameters
type machine interface {
	name() string
	mon() string
	reset()
	apply(o op) (panicked string)
	observe(k int, askHead bool) obs
	ilayer() (caps []int, share [][]int) // slice only: capacity per register, offset distance of registers in one array
	adopt(from machine)                  // takes over the registers of another machine of the same kind (persistent values: shared from then on)
}

type mach[F, A any] struct {
	nm, mn string
	tr     seq.Seq[F, A]
	val    func(int) A
	unval  func(A) int
	m      monoid.Monoid[A]
	encF   func(A) any
	regs   [nregs]F
	il     func(regs [nregs]F) ([]int, [][]int)
}

func (m *mach[F, A]) adopt(from machine) { m.regs = from.(*mach[F, A]).regs }
func (m *mach[F, A]) name() string       { return m.nm }
func (m *mach[F, A]) mon() string        { return m.mn }
func (m *mach[F, A]) reset() {
	for i := range m.regs {
		m.regs[i] = m.tr.New()
	}
}

func (m *mach[F, A]) apply(o op) (panicked string) {
	defer func() {
		if r := recover(); r != nil {
			panicked = fmt.Sprint(r)
		}
	}()
	switch o.Op {
	case "new":
		xs := make([]A, len(o.Xs)) // a fresh argument slice per call, never touched again
		for i, x := range o.Xs {
			xs[i] = m.val(x)
		}
		m.regs[o.I-1] = m.tr.New(xs...)
	case "cons":
		m.regs[o.I-1] = m.tr.Cons(m.val(o.X), m.regs[o.J-1])
	case "tail":
		m.regs[o.I-1] = m.tr.Tail(m.regs[o.J-1])
	default:
		panic("harness: unknown op " + o.Op)
	}
	return ""
}

func (m *mach[F, A]) observe(k int, askHead bool) (o obs) {
	o.Elems = []int{}
	o.Fold = m.encF(m.m.Empty()) // a value of the right shape in case the observation panics before Fold
	defer func() {
		if r := recover(); r != nil {
			o.Panic = fmt.Sprint(r)
		}
	}()
	s := m.regs[k]
	o.Len = m.tr.Length(s)
	o.Empty = m.tr.IsEmpty(s)
	if askHead {
		o.Head = m.unval(m.tr.Head(s))
	}
	for t := s; !m.tr.IsEmpty(t); t = m.tr.Tail(t) {
		o.Elems = append(o.Elems, m.unval(m.tr.Head(t)))
		if len(o.Elems) >= runaway {
			break
		}
	}
	o.Fold = m.encF(seq.Foldable[F, A]{Seq: m.tr}.Fold(m.m, s))
	return
}

func (m *mach[F, A]) ilayer() ([]int, [][]int) {
	if m.il == nil {
		return nil, nil
	}
	return m.il(m.regs)
}

const noShare = -1000 // SeqADT.tla: SShare

func sliceLayer[A any](regs [nregs]slice.Seq[A]) ([]int, [][]int) {
	var zero A
	size := unsafe.Sizeof(zero)
	caps := make([]int, nregs)
	ptr := make([]uintptr, nregs)
	for i, r := range regs {
		caps[i] = cap(r)
		ptr[i] = uintptr(unsafe.Pointer(unsafe.SliceData([]A(r))))
	}
	share := make([][]int, nregs)
	for i := range regs {
		share[i] = make([]int, nregs)
		for j := range regs {
			share[i][j] = noShare
			// two windows of one array end at the same address (the array's end)
			if caps[i] > 0 && caps[j] > 0 && ptr[i]+uintptr(caps[i])*size == ptr[j]+uintptr(caps[j])*size {
				share[i][j] = (int(ptr[i]) - int(ptr[j])) / int(size)
			}
		}
	}
	return caps, share
}

// string elements: the decimal number followed by a comma ("12,"); the cat fold "^1,2,3," is read back as 0, 1, 2, 3
func digit(x int) string { return strconv.Itoa(x) + "," }
func undigit(s string) int {
	if !strings.HasSuffix(s, ",") {
		return -1
	}
	v, err := strconv.Atoi(strings.TrimSuffix(s, ","))
	if err != nil {
		return -1
	}
	return v
}
func encCat(s string) any {
	out := []int{}
	if strings.HasPrefix(s, "^") {
		out = append(out, 0)
		s = s[1:]
	}
	for s != "" {
		i := strings.IndexByte(s, ',')
		if i < 0 {
			return append(out, -1)
		}
		out = append(out, undigit(s[:i+1]))
		s = s[i+1:]
	}
	return out
}

const linMod = 1000003 // SeqADT.tla: LinMod

// machines returns the machines named in VERIF_MACH (a comma-separated list; empty: all of them).
func machines() []machine {
	all := allMachines()
	only := vio.Env("VERIF_MACH", "")
	if only == "" {
		return all
	}
	out := []machine{}
	for _, m := range all {
		for _, n := range strings.Split(only, ",") {
			if m.name() == n {
				out = append(out, m)
			}
		}
	}
	return out
}

func allMachines() []machine {
	lin := monoid.FromOp(1, func(x, y int) int { return (2*x + y) % linMod })
	cat := monoid.FromOp("^", func(x, y string) string { return x + y })
	id := func(x int) int { return x }
	encI := func(x int) any { return x }
	return []machine{
		&mach[list.Seq[int], int]{nm: "list/int", mn: "lin", tr: list.Trait[int]("seq.int"), val: id, unval: id, m: lin, encF: encI},
		&mach[slice.Seq[int], int]{nm: "slice/int", mn: "lin", tr: slice.Trait[int]("seq.int"), val: id, unval: id, m: lin, encF: encI, il: sliceLayer[int]},
		&mach[list.Seq[string], string]{nm: "list/string", mn: "cat", tr: list.Trait[string]("seq.string"), val: digit, unval: undigit, m: cat, encF: encCat},
		&mach[slice.Seq[string], string]{nm: "slice/string", mn: "cat", tr: slice.Trait[string]("seq.string"), val: digit, unval: undigit, m: cat, encF: encCat, il: sliceLayer[string]},
		// the traits are generic: ints and strings never meet a nil check or a comparison with the zero value.  Elements of
		// an interface type (the model's 2 is the nil interface, odd values are boxed ints, even ones pointers) and of a pointer
		// type (the model's 1 is the nil pointer - which is also the Empty of the fold's monoid)
		&mach[list.Seq[any], any]{nm: "list/any", mn: "lin", tr: list.Trait[any]("seq.any"), val: anyVal, unval: anyUnval, m: linAny, encF: func(a any) any { return anyUnval(a) }},
		&mach[slice.Seq[any], any]{nm: "slice/any", mn: "lin", tr: slice.Trait[any]("seq.any"), val: anyVal, unval: anyUnval, m: linAny, encF: func(a any) any { return anyUnval(a) }, il: sliceLayer[any]},
		&mach[list.Seq[*box], *box]{nm: "list/ptr", mn: "lin", tr: list.Trait[*box]("seq.ptr"), val: ptrVal, unval: ptrUnval, m: linPtr, encF: func(a *box) any { return ptrUnval(a) }},
		&mach[slice.Seq[*box], *box]{nm: "slice/ptr", mn: "lin", tr: slice.Trait[*box]("seq.ptr"), val: ptrVal, unval: ptrUnval, m: linPtr, encF: func(a *box) any { return ptrUnval(a) }, il: sliceLayer[*box]},
	}
}

type box struct{ v int }

const anyNil, ptrNil = 2, 1 // the model values that stand for the nil interface / the nil pointer

func anyVal(x int) any {
	switch {
	case x == anyNil:
		return nil
	case x%2 != 0:
		return x
	}
	return &box{x}
}

func anyUnval(a any) int {
	switch t := a.(type) {
	case nil:
		return anyNil
	case int:
		return t
	case *box:
		if t != nil {
			return t.v
		}
	}
	return -1
}

func ptrVal(x int) *box {
	if x == ptrNil {
		return nil
	}
	return &box{x}
}

func ptrUnval(p *box) int {
	if p == nil {
		return ptrNil
	}
	return p.v
}

var linAny = monoid.FromOp(anyVal(1), func(x, y any) any { return anyVal((2*anyUnval(x) + anyUnval(y)) % linMod) })
var linPtr = monoid.FromOp(ptrVal(1), func(x, y *box) *box { return ptrVal((2*ptrUnval(x) + ptrUnval(y)) % linMod) })

// ---------------------------------------------------------------------------- replay (spec -> impl)

type genCase struct {
	Hist []op `json:"hist"`
}

type finding struct {
	T    string `json:"t"` // "pviol" | "drift"
	Impl string `json:"impl"`
	Hist []op   `json:"hist"` // the script up to and including the failing step
	Reg  int    `json:"reg"`  // 1..3
	Pred string `json:"pred"`
	Want any    `json:"want"`
	Got  any    `json:"got"`
}

func eqInts(a, b []int) bool {
	if len(a) != len(b) {
		return false
	}
	for i := range a {
		if a[i] != b[i] {
			return false
		}
	}
	return true
}

func catOf(elems []int) []int { return append([]int{0}, elems...) }

// judge compares the observation of register k with what TLC expects (P_Observation of SeqADT.tla)
func judge(m machine, o op, k int, got obs, emit func(reg int, pred string, want, got any)) {
	want := o.After[k]
	if got.Panic != "" {
		emit(k+1, "panic", want, got.Panic)
		return
	}
	if !eqInts(got.Elems, want) {
		pred := "Persistence"
		if k == o.I-1 {
			pred = map[string]string{"new": "NewElements", "cons": "ConsElements", "tail": "TailElements"}[o.Op]
		}
		emit(k+1, pred, want, got.Elems)
		return // Length / Head / Fold of a register whose elements are already wrong: one finding
	}
	if got.Len != len(want) {
		emit(k+1, "Length", len(want), got.Len)
	}
	if got.Empty != (len(want) == 0) {
		emit(k+1, "IsEmpty", len(want) == 0, got.Empty)
	}
	if len(want) > 0 && got.Head != want[0] {
		emit(k+1, "Head", want[0], got.Head)
	}
	if m.mon() == "lin" {
		if f, ok := got.Fold.(int); !ok || f != o.Lin[k] {
			emit(k+1, "Fold", o.Lin[k], got.Fold)
		}
	} else if f, ok := got.Fold.([]int); !ok || !eqInts(f, catOf(want)) {
		emit(k+1, "Fold", catOf(want), got.Fold)
	}
}

func TestReplay(t *testing.T) {
	if vio.Env("VERIF_MODE", "") != "replay" {
		t.Skip()
	}
	out, err := vio.Create(vio.Env("VERIF_OUT", ""))
	if err != nil {
		t.Fatal(err)
	}
	defer out.Close()
	ms := machines()
	ncases, nsteps, nobs := 0, 0, 0
	err = vio.ReadLines(vio.Env("VERIF_IN", ""), func(b []byte) error {
		var c genCase
		if err := json.Unmarshal(b, &c); err != nil {
			return err
		}
		ncases++
		for _, m := range ms {
			m.reset()
			failed := false
			for si, o := range c.Hist {
				emit := func(reg int, pred string, want, got any) {
					failed = true
					out.Put(finding{T: "pviol", Impl: m.name(), Hist: c.Hist[:si+1], Reg: reg, Pred: pred, Want: want, Got: got})
				}
				if p := m.apply(o); p != "" {
					emit(o.I, "panic", o.After[o.I-1], p)
					break
				}
				nsteps++
				for k := 0; k < nregs; k++ {
					judge(m, o, k, m.observe(k, len(o.After[k]) > 0), emit)
					nobs++
				}
				if failed {
					break // what follows a broken step is not judged
				}
				// I level (slice only, target and source in different registers): Cons returns fresh memory, Tail re-slices
				if caps, share := m.ilayer(); caps != nil && o.I != o.J {
					i, j := o.I-1, o.J-1
					switch {
					case o.Op == "cons" && share[i][j] != noShare:
						out.Put(finding{T: "drift", Impl: m.name(), Hist: c.Hist[:si+1], Reg: o.I, Pred: "ConsFreshArray", Want: "no shared array", Got: share[i][j]})
					case o.Op == "tail" && caps[i] > 0 && share[i][j] != 1:
						out.Put(finding{T: "drift", Impl: m.name(), Hist: c.Hist[:si+1], Reg: o.I, Pred: "TailSameArray", Want: 1, Got: share[i][j]})
					}
				}
			}
		}
		return nil
	})
	if err != nil {
		t.Fatal(err)
	}
	out.Put(map[string]any{"t": "stats", "cases": ncases, "machines": len(ms), "steps": nsteps, "observations": nobs})
}

// ---------------------------------------------------------------------------- random (impl -> spec)

type comboObs struct {
	Regs  []obs   `json:"regs"`
	Caps  []int   `json:"caps"`  // slice machines only (else empty)
	Share [][]int `json:"share"` // slice machines only
	Panic string  `json:"panic"`
}

type step struct {
	Op  string     `json:"op"`
	I   int        `json:"i"`
	J   int        `json:"j"`
	X   int        `json:"x"`
	Xs  []int      `json:"xs"`
	Obs []comboObs `json:"obs"`
}

// record executes a script on fresh machines and records every observation.  mlen is the recorder's own
// bookkeeping of the lengths the script implies (which registers may be asked for their Head).
func record(script []op, follow bool) map[string]any {
	ms := machines()
	combos := combosOf(ms, true)
	mlen := [nregs]int{}
	steps := play(ms, &mlen, script)
	return map[string]any{"combos": combos, "steps": steps, "follow": follow}
}

func combosOf(ms []machine, reset bool) []map[string]any {
	combos := []map[string]any{}
	for _, m := range ms {
		if reset {
			m.reset()
		}
		caps, _ := m.ilayer()
		combos = append(combos, map[string]any{"name": m.name(), "mon": m.mon(), "slice": caps != nil})
	}
	return combos
}

// play applies a script to a set of machines and observes every register of every machine after every step.
func play(ms []machine, mlen *[nregs]int, script []op) []step {
	steps := []step{}
	for _, o := range script {
		switch o.Op {
		case "new":
			mlen[o.I-1] = len(o.Xs)
		case "cons":
			mlen[o.I-1] = mlen[o.J-1] + 1
		case "tail":
			mlen[o.I-1] = mlen[o.J-1] - 1
		}
		if o.Xs == nil {
			o.Xs = []int{}
		}
		st := step{Op: o.Op, I: o.I, J: o.J, X: o.X, Xs: o.Xs}
		dead := false
		panics := make([]string, len(ms))
		for mi, m := range ms {
			if panics[mi] = m.apply(o); panics[mi] != "" {
				dead = true // the script ends here: the registers of this machine are no longer defined
			}
		}
		st.Obs = []comboObs{}
		for mi, m := range ms {
			if o.Quiet && !dead {
				break // a quiet step: applied everywhere, observed nowhere
			}
			co := comboObs{Regs: []obs{}, Caps: []int{}, Share: [][]int{}, Panic: panics[mi]}
			if co.Panic == "" {
				for k := 0; k < nregs; k++ {
					co.Regs = append(co.Regs, m.observe(k, mlen[k] > 0))
				}
				if caps, share := m.ilayer(); caps != nil {
					co.Caps, co.Share = caps, share
				}
			}
			st.Obs = append(st.Obs, co)
		}
		steps = append(steps, st)
		if dead {
			break
		}
	}
	return steps
}

// TestConcurrent: the sequences are persistent values, so goroutines that go on from a common ancestor - each with its own
// registers - must each see exactly what they would see alone.  A common prefix is played on one set of machines, its
// registers are handed to four further sets, and four goroutines play their own scripts (Cons onto the shared sequences and
// onto what they built from them, Tail, New) at once.  One record per goroutine: the prefix followed by its own steps -
// a sequential history, judged by the same trace specification (P level only: follow = false).
func TestConcurrent(t *testing.T) {
	if vio.Env("VERIF_MODE", "") != "conc" {
		t.Skip()
	}
	out, err := vio.Create(vio.Env("VERIF_OUT", ""))
	if err != nil {
		t.Fatal(err)
	}
	defer out.Close()
	rng := rand.New(rand.NewSource(int64(vio.EnvInt("VERIF_SEED", 1))))
	rounds, k, n := vio.EnvInt("VERIF_N", 6), 4, 0
	for round := 0; round < rounds; round++ {
		base := machines()
		combos := combosOf(base, true)
		mlen := [nregs]int{}
		prefix := []op{{Op: "new", I: 1, Xs: []int{1, 2, 3}}, {Op: "cons", I: 2, J: 1, X: 2}, {Op: "cons", I: 3, J: 2, X: 1}}
		pre := play(base, &mlen, prefix)
		sets := make([][]machine, k)
		scripts := make([][]op, k)
		bursts := make([][]op, k)
		for g := 0; g < k; g++ {
			sets[g] = machines()
			for mi := range sets[g] {
				sets[g][mi].adopt(base[mi])
			}
			ml := mlen
			// a burst first: 300 Cons in a row onto one chain that starts at a shared sequence, applied machine by machine in
			// a tight loop and observed only afterwards (two goroutines that allocate from something they share meet here)
			from := 1 + rng.Intn(nregs)
			for j := 0; j < 300; j++ {
				o := op{Op: "cons", I: 3, J: 3, X: 1 + rng.Intn(3), Xs: []int{}, Quiet: true}
				if j == 0 {
					o.J = from
				}
				ml[2] = ml[o.J-1] + 1
				bursts[g] = append(bursts[g], o)
			}
			for j := 0; j < 6; j++ {
				o := op{I: 1 + rng.Intn(nregs), J: 1 + rng.Intn(nregs), Xs: []int{}}
				switch r := rng.Intn(10); {
				case r < 7:
					o.Op, o.X = "cons", 1+rng.Intn(3)
					ml[o.I-1] = ml[o.J-1] + 1
				case r < 8:
					o.Op, o.J, o.Xs = "new", 0, []int{1 + rng.Intn(3), 1 + rng.Intn(3)}
					ml[o.I-1] = 2
				default:
					if ml[o.J-1] == 0 {
						continue
					}
					o.Op = "tail"
					ml[o.I-1] = ml[o.J-1] - 1
				}
				scripts[g] = append(scripts[g], o)
			}
		}
		own := make([][]step, k)
		var start, done sync.WaitGroup
		start.Add(1)
		for g := 0; g < k; g++ {
			done.Add(1)
			go func() {
				defer done.Done()
				ml := mlen
				quiet := []step{}
				for _, o := range bursts[g] {
					ml[o.I-1] = ml[o.J-1] + 1
					quiet = append(quiet, step{Op: o.Op, I: o.I, J: o.J, X: o.X, Xs: o.Xs, Obs: []comboObs{}})
				}
				start.Wait()
				for _, m := range sets[g] {
					for _, o := range bursts[g] {
						if p := m.apply(o); p != "" { // (a panic inside the burst shows in the first observed step: the register is not what it should be)
							break
						}
					}
				}
				own[g] = append(quiet, play(sets[g], &ml, scripts[g])...)
			}()
		}
		start.Done()
		done.Wait()
		for g := 0; g < k; g++ {
			out.Put(map[string]any{"combos": combos, "steps": append(append([]step{}, pre...), own[g]...), "follow": false, "conc": k})
			n++
		}
	}
	out.Put(map[string]any{"t": "stats", "traces": n})
}

func TestRandom(t *testing.T) {
	if vio.Env("VERIF_MODE", "") != "random" {
		t.Skip()
	}
	out, err := vio.Create(vio.Env("VERIF_OUT", ""))
	if err != nil {
		t.Fatal(err)
	}
	defer out.Close()
	rng := rand.New(rand.NewSource(int64(vio.EnvInt("VERIF_SEED", 1))))
	ntr := vio.EnvInt("VERIF_N", 10)
	maxops := vio.EnvInt("VERIF_OPS", 40)
	const maxlen = 12 // lin folds stay small: 2^12
	for tr := 0; tr < ntr; tr++ {
		mlen := [nregs]int{} // which registers may be Tail'ed
		script := []op{}
		nvals := 3 + rng.Intn(3)
		nops := 5 + rng.Intn(maxops)
		for s := 0; s < nops; s++ {
			o := op{I: 1 + rng.Intn(nregs), J: 1 + rng.Intn(nregs), Xs: []int{}}
			switch r := rng.Intn(10); {
			case r < 2:
				o.Op, o.J = "new", 0
				for n := rng.Intn(5); n > 0; n-- {
					o.Xs = append(o.Xs, 1+rng.Intn(nvals))
				}
				mlen[o.I-1] = len(o.Xs)
			case r < 6 && mlen[o.J-1] < maxlen:
				o.Op, o.X = "cons", 1+rng.Intn(nvals)
				mlen[o.I-1] = mlen[o.J-1] + 1
			default:
				if mlen[o.J-1] == 0 {
					continue
				}
				o.Op = "tail"
				mlen[o.I-1] = mlen[o.J-1] - 1
			}
			script = append(script, o)
		}
		out.Put(record(script, true))
	}
	out.Put(map[string]any{"t": "stats", "traces": ntr})
}

// TestScript records one given script (VERIF_IN: a JSON list of operations): used by --replay.
func TestScript(t *testing.T) {
	if vio.Env("VERIF_MODE", "") != "script" {
		t.Skip()
	}
	b, err := os.ReadFile(vio.Env("VERIF_IN", ""))
	if err != nil {
		t.Fatal(err)
	}
	var script []op
	if err := json.Unmarshal(b, &script); err != nil {
		t.Fatal(err)
	}
	out, err := vio.Create(vio.Env("VERIF_OUT", ""))
	if err != nil {
		t.Fatal(err)
	}
	defer out.Close()
	quiet := false
	for _, o := range script {
		quiet = quiet || o.Quiet
	}
	out.Put(record(script, !quiet))
}

// ---------------------------------------------------------------------------- long scripts (impl -> spec)

// sizes around and beyond plausible internal thresholds (block sizes, growth steps)
var sizes = []int{0, 1, 2, 3, 4, 5, 7, 8, 9, 15, 16, 17, 31, 32, 33, 63, 64, 65, 127, 128, 129, 255, 256, 257, 1000}

func isSize(n int) bool {
	for _, s := range sizes {
		if s == n {
			return true
		}
	}
	return false
}

func seqOf(base, n int) []int {
	xs := make([]int, n)
	for i := range xs {
		xs[i] = base + i + 1 // distinct elements
	}
	return xs
}

// walk: r0 = New(n distinct elements); r2 = Cons(x, r0); r1 = Tail(r0); r1 = Tail(r1) ... down to empty, observed
// whenever the remaining length is one of `sizes` (r0 and r2 must stay what they were all the way).
func walkScript(base, n int) []op {
	sc := []op{{Op: "new", I: 1, Xs: seqOf(base, n)}, {Op: "cons", I: 3, J: 1, X: base + n + 1}}
	if n == 0 {
		return sc
	}
	sc = append(sc, op{Op: "tail", I: 2, J: 1})
	for l := n - 2; l >= 0; l-- {
		// observed at the thresholds next below n (six of them) and at the very end
		observe := l <= 1
		for k, seen := len(sizes)-1, 0; k >= 0 && seen < 6; k-- {
			if sizes[k] <= n-2 {
				seen++
				observe = observe || sizes[k] == l
			}
		}
		sc = append(sc, op{Op: "tail", I: 2, J: 2, Quiet: !observe})
	}
	return sc
}

// chain: r0 = New(n elements); m times r0 = Cons(x, r0) (observed at the sizes and at the end); r1 = r0 Tail'ed m+2
// times across the Cons / New boundary (observed around it); r2 keeps the New sequence.
func chainScript(base, n, m int) []op {
	sc := []op{{Op: "new", I: 1, Xs: seqOf(base, n)}, {Op: "cons", I: 3, J: 1, X: base + 5000}, {Op: "tail", I: 3, J: 3}}
	for k := 1; k <= m; k++ {
		sc = append(sc, op{Op: "cons", I: 1, J: 1, X: base + n + k, Quiet: !(isSize(n+k) || (k >= 31 && isSize(k)) || k == m)})
	}
	sc = append(sc, op{Op: "tail", I: 2, J: 1})
	for k := 2; k <= m+2 && k <= n+m; k++ {
		left := n + m - k
		sc = append(sc, op{Op: "tail", I: 2, J: 2, Quiet: !(left >= n-1 && left <= n+1) && !(isSize(left-n) && left-n >= 31)})
	}
	return sc
}

func TestLong(t *testing.T) {
	if vio.Env("VERIF_MODE", "") != "long" {
		t.Skip()
	}
	out, err := vio.Create(vio.Env("VERIF_OUT", ""))
	if err != nil {
		t.Fatal(err)
	}
	defer out.Close()
	base := (vio.EnvInt("VERIF_SEED", 1) % 1000) * 7
	maxn := vio.EnvInt("VERIF_MAXN", 1000)
	ntr := 0
	for _, n := range sizes {
		if n > maxn {
			continue
		}
		out.Put(record(walkScript(base, n), false))
		ntr++
	}
	for _, n := range []int{0, 1, 5, 31, 32, 33, 64, 257} {
		for _, m := range []int{34, 70} {
			out.Put(record(chainScript(base, n, m), false))
			ntr++
		}
	}
	out.Put(map[string]any{"t": "stats", "traces": ntr})
}
