package algebradrv

// Conformance harness for pure/eq, pure/ord, pure/semigroup, pure/monoid (property C17).
//
// Values travel in the encoding of spec/seq/Algebra.tla:
//
//	"int"  an index 1..8 into an ascending table of boundary values (TLC integers are 32-bit)
//	"str"  a string as the list of its byte codes
//	"num"  a small plain integer
//
//	VERIF_MODE=replay  VERIF_DOM=<dom.json printed by AlgebraMC>  VERIF_IN=<cases.jsonl>  VERIF_OUT=<records.jsonl>
//	    every case [inst, e, a, b, want] is executed on the REAL instance `inst` (built-in constants, From wrappers,
//	    ContraMap, semigroup.From, monoid.From / FromOp); the record holds the result and every inner call
//	    (which, args) -> res of the wrapped function / projection / logging base / operation.
//	VERIF_MODE=random  VERIF_SEED=s VERIF_N=pairs  the same on a random ascending int table, random byte strings
//	    and random operands (no expected value: TLC judges the records).
import (
	"encoding/json"
	"fmt"
	"math"
	"math/rand"
	"os"
	"sort"
	"testing"

	"github.com/fogfish/golem/pure/eq"
	"github.com/fogfish/golem/pure/monoid"
	"github.com/fogfish/golem/pure/ord"
	"github.com/fogfish/golem/pure/semigroup"

	"verifharness/vio"
)

// ---------------------------------------------------------------------------- domains

type dom[T any] struct {
	dec func(json.RawMessage) (T, error)
	enc func(T) any
}

var intTab = []int{math.MinInt64, math.MinInt64 + 1, -1, 0, 1, math.MaxInt32 + 1, math.MaxInt64 - 1, math.MaxInt64}
var strTab []string // Algebra.tla: FullStrTab, read from VERIF_DOM

func intDom(tab []int) dom[int] {
	idx := map[int]int{}
	for i, v := range tab {
		idx[v] = i + 1
	}
	return dom[int]{
		dec: func(r json.RawMessage) (int, error) {
			var i int
			if err := json.Unmarshal(r, &i); err != nil || i < 1 || i > len(tab) {
				return 0, fmt.Errorf("bad int index %s", r)
			}
			return tab[i-1], nil
		},
		enc: func(v int) any { return idx[v] }, // 0: not a value of the table
	}
}

var numDom = dom[int]{
	dec: func(r json.RawMessage) (int, error) { var i int; return i, json.Unmarshal(r, &i) },
	enc: func(v int) any { return v },
}

func bytesOf(s string) []int {
	out := make([]int, len(s))
	for i := 0; i < len(s); i++ {
		out[i] = int(s[i])
	}
	return out
}

var strDom = dom[string]{
	dec: func(r json.RawMessage) (string, error) {
		var b []int
		if err := json.Unmarshal(r, &b); err != nil {
			return "", err
		}
		raw := make([]byte, len(b))
		for i, c := range b {
			raw[i] = byte(c)
		}
		return string(raw), nil
	},
	enc: func(s string) any { return bytesOf(s) },
}

// ---------------------------------------------------------------------------- call log

type call struct {
	Which string `json:"which"`
	Args  []any  `json:"args"`
	Res   any    `json:"res"`
}

var calls []call

func logged2[T, R any](which string, d dom[T], encR func(R) any, f func(T, T) R) func(T, T) R {
	return func(a, b T) R {
		r := f(a, b)
		calls = append(calls, call{Which: which, Args: []any{d.enc(a), d.enc(b)}, Res: encR(r)})
		return r
	}
}

func logged1[B, A any](which string, db dom[B], da dom[A], f func(B) A) func(B) A {
	return func(b B) A {
		r := f(b)
		calls = append(calls, call{Which: which, Args: []any{db.enc(b)}, Res: da.enc(r)})
		return r
	}
}

func encBool(b bool) any               { return b }
func encOrd(o ord.Ordering) any        { return int(o) }
func less[T int | string](a, b T) bool { return a < b }
func weight[T int | string](a, b T) ord.Ordering {
	switch {
	case a < b:
		return 7
	case a > b:
		return -3
	}
	return 5
}
func rev[T int | string](a, b T) ord.Ordering {
	switch {
	case a < b:
		return ord.GT
	case a > b:
		return ord.LT
	}
	return ord.EQ
}

// a Semigroup that is not semigroup.From: monoid.From takes any implementation of the interface
type opSemigroup[T any] struct{ op func(T, T) T }

func (s opSemigroup[T]) Combine(a, b T) T { return s.op(a, b) }

// ---------------------------------------------------------------------------- experiments

type record struct {
	Inst  string          `json:"inst"`
	E     json.RawMessage `json:"e"`
	Inner json.RawMessage `json:"inner"` // empty element of the inner monoid of a nested constructor (else 0)
	A     json.RawMessage `json:"a"`
	B     json.RawMessage `json:"b"`
	Res   any             `json:"res"`
	Empty any             `json:"empty,omitempty"`
	Calls []call          `json:"calls"`
	Want  json.RawMessage `json:"want,omitempty"`
	Panic string          `json:"panic,omitempty"`
}

type genCase struct {
	Inst  string          `json:"inst"`
	E     json.RawMessage `json:"e"`
	Inner json.RawMessage `json:"inner"`
	A     json.RawMessage `json:"a"`
	B     json.RawMessage `json:"b"`
	Want  json.RawMessage `json:"want"`
}

type experiment func(c genCase, r *record) error

func eqExp[T any](d dom[T], inst func() eq.Eq[T]) experiment {
	return func(c genCase, r *record) error {
		a, err := d.dec(c.A)
		if err != nil {
			return err
		}
		b, err := d.dec(c.B)
		if err != nil {
			return err
		}
		r.Res = inst().Equal(a, b)
		return nil
	}
}

func ordExp[T any](d dom[T], inst func() ord.Ord[T]) experiment { return ordExpEnc(d, encOrd, inst) }

// ordExpEnc: the Ordering that comes back is recorded as a VALUE (enc), whatever it is
func ordExpEnc[T any](d dom[T], enc func(ord.Ordering) any, inst func() ord.Ord[T]) experiment {
	return func(c genCase, r *record) error {
		a, err := d.dec(c.A)
		if err != nil {
			return err
		}
		b, err := d.dec(c.B)
		if err != nil {
			return err
		}
		r.Res = enc(inst().Compare(a, b))
		return nil
	}
}

func semigroupExp[T any](d dom[T], inst func() semigroup.Semigroup[T]) experiment {
	return func(c genCase, r *record) error {
		a, err := d.dec(c.A)
		if err != nil {
			return err
		}
		b, err := d.dec(c.B)
		if err != nil {
			return err
		}
		r.Res = d.enc(inst().Combine(a, b))
		return nil
	}
}

func monoidExp[T any](d dom[T], inst func(e T) monoid.Monoid[T]) experiment {
	return func(c genCase, r *record) error {
		e, err := d.dec(c.E)
		if err != nil {
			return err
		}
		a, err := d.dec(c.A)
		if err != nil {
			return err
		}
		b, err := d.dec(c.B)
		if err != nil {
			return err
		}
		m := inst(e)
		r.Empty = d.enc(m.Empty())
		r.Res = d.enc(m.Combine(a, b))
		return nil
	}
}

// nestedExp: the constructor is handed something that belongs to an inner Monoid whose empty element is `inner`
func nestedExp[T any](d dom[T], inst func(e, inner T) monoid.Monoid[T]) experiment {
	return func(c genCase, r *record) error {
		inner, err := d.dec(c.Inner)
		if err != nil {
			return err
		}
		return monoidExp(d, func(e T) monoid.Monoid[T] { return inst(e, inner) })(c, r)
	}
}

// twinS / twinN wrap the operation under test in a closure of a function literal that is used nowhere else, after handing
// `first` another closure of the *same literal* that captures another operation: two closures of one literal share their
// code, not their meaning - an instance made from the second one must not be confused with one made from the first.
func twinS(_ string, first func(func(string, string) string), op func(string, string) string) func(string, string) string {
	first(mkS(func(a, b string) string { return b + "?" + a }))
	return mkS(op)
}

// (not inlined: the compiler clones a closure with every inlined copy of the function that makes it)
//
//go:noinline
func mkS(f func(string, string) string) func(string, string) string {
	return func(a, b string) string { return f(a, b) }
}

//go:noinline
func mkN(f func(int, int) int) func(int, int) int {
	return func(a, b int) int { return f(a, b) }
}

func twinN(first func(func(int, int) int), op func(int, int) int) func(int, int) int {
	first(mkN(func(a, b int) int { return b - a + 1 }))
	return mkN(op)
}

// a top-level function as the argument of semigroup.From
func subTop(a, b int) int {
	r := a - b
	calls = append(calls, call{Which: "op", Args: []any{a, b}, Res: r})
	return r
}

type entry struct {
	dom    string // "int" | "str" | "num": Algebra.tla InstTab[..].dom
	nested bool   // Algebra.tla Nested
	run    experiment
}

func concat(a, b string) string { return a + b }
func sub(a, b int) int          { return a - b }

// experiments builds every instance of Algebra.tla's InstTab over the given int table.
func experiments(tab []int) map[string]entry {
	id := intDom(tab)
	lenP := func(s string) int { return len(s) }
	tabP := func(v int) string { return strTab[(id.enc(v).(int)*7)%len(strTab)] }
	flipP := func(v int) int { return tab[len(tab)-id.enc(v).(int)] }
	encRank := func(o ord.Ordering) any { return id.enc(int(o)) }
	rotP := func(v int) int { return tab[(id.enc(v).(int)*3)%len(tab)] }
	opS := func() func(string, string) string { return logged2("op", strDom, strDom.enc, concat) }
	opN := func() func(int, int) int { return logged2("op", numDom, numDom.enc, sub) }
	I := func(x experiment) entry { return entry{dom: "int", run: x} }
	S := func(x experiment) entry { return entry{dom: "str", run: x} }
	N := func(x experiment) entry { return entry{dom: "num", run: x} }
	return map[string]entry{
		"eq.Int":     I(eqExp(id, func() eq.Eq[int] { return eq.Int })),
		"eq.String":  S(eqExp(strDom, func() eq.Eq[string] { return eq.String })),
		"ord.Int":    I(ordExp(id, func() ord.Ord[int] { return ord.Int })),
		"ord.String": S(ordExp(strDom, func() ord.Ord[string] { return ord.String })),

		"eq.From/int":  I(eqExp(id, func() eq.Eq[int] { return eq.From[int](logged2("f", id, encBool, less[int])) })),
		"eq.From/str":  S(eqExp(strDom, func() eq.Eq[string] { return eq.From[string](logged2("f", strDom, encBool, less[string])) })),
		"ord.From/int": I(ordExp(id, func() ord.Ord[int] { return ord.From[int](logged2("f", id, encOrd, rev[int])) })),
		"ord.From/str": S(ordExp(strDom, func() ord.Ord[string] { return ord.From[string](logged2("f", strDom, encOrd, rev[string])) })),

		// wrapped functions that return what they like (outside LT / EQ / GT): the value must come back unchanged
		"ord.From/diff/int": I(ordExp(id, func() ord.Ord[int] {
			return ord.From[int](logged2("f", id, encOrd, func(a, b int) ord.Ordering { return ord.Ordering(id.enc(a).(int) - id.enc(b).(int)) }))
		})),
		"ord.From/diff/str": S(ordExp(strDom, func() ord.Ord[string] {
			return ord.From[string](logged2("f", strDom, encOrd, func(a, b string) ord.Ordering { return ord.Ordering(len(a) - len(b)) }))
		})),
		"ord.From/weight/int": I(ordExp(id, func() ord.Ord[int] { return ord.From[int](logged2("f", id, encOrd, weight[int])) })),
		"ord.From/weight/str": S(ordExp(strDom, func() ord.Ord[string] { return ord.From[string](logged2("f", strDom, encOrd, weight[string])) })),
		"ord.From/const/str": S(ordExp(strDom, func() ord.Ord[string] {
			return ord.From[string](logged2("f", strDom, encOrd, func(a, b string) ord.Ordering { return 42 }))
		})),
		// the first argument itself (MinInt64 .. MaxInt64) as the Ordering; recorded as its rank in the table
		"ord.From/first/int": I(ordExpEnc(id, encRank, func() ord.Ord[int] {
			return ord.From[int](logged2("f", id, encRank, func(a, b int) ord.Ordering { return ord.Ordering(a) }))
		})),
		"eq.From/true/str": S(eqExp(strDom, func() eq.Eq[string] {
			return eq.From[string](logged2("f", strDom, encBool, func(a, b string) bool { return true }))
		})),
		"eq.From/false/int": I(eqExp(id, func() eq.Eq[int] {
			return eq.From[int](logged2("f", id, encBool, func(a, b int) bool { return false }))
		})),
		"ord.ContraMap/len/diff": S(ordExp(strDom, func() ord.Ord[string] {
			return ord.ContraMap[int, string]{Ord: ord.From[int](logged2("base", numDom, encOrd, func(a, b int) ord.Ordering { return ord.Ordering(a - b) })), ContraMap: logged1("proj", strDom, numDom, lenP)}
		})),

		// From wrapping the method values of the built-in instances
		"eq.From/eq.Int.Equal":        I(eqExp(id, func() eq.Eq[int] { return eq.From[int](eq.Int.Equal) })),
		"eq.From/eq.String.Equal":     S(eqExp(strDom, func() eq.Eq[string] { return eq.From[string](eq.String.Equal) })),
		"ord.From/ord.Int.Compare":    I(ordExp(id, func() ord.Ord[int] { return ord.From[int](ord.Int.Compare) })),
		"ord.From/ord.String.Compare": S(ordExp(strDom, func() ord.Ord[string] { return ord.From[string](ord.String.Compare) })),

		"eq.ContraMap/len/eq.Int": S(eqExp(strDom, func() eq.Eq[string] {
			return eq.ContraMap[int, string]{Eq: eq.Int, ContraMap: logged1("proj", strDom, numDom, lenP)}
		})),
		"eq.ContraMap/len/rel": S(eqExp(strDom, func() eq.Eq[string] {
			return eq.ContraMap[int, string]{Eq: eq.From[int](logged2("base", numDom, encBool, less[int])), ContraMap: logged1("proj", strDom, numDom, lenP)}
		})),
		"ord.ContraMap/len/ord.Int": S(ordExp(strDom, func() ord.Ord[string] {
			return ord.ContraMap[int, string]{Ord: ord.Int, ContraMap: logged1("proj", strDom, numDom, lenP)}
		})),
		"ord.ContraMap/len/rev": S(ordExp(strDom, func() ord.Ord[string] {
			return ord.ContraMap[int, string]{Ord: ord.From[int](logged2("base", numDom, encOrd, rev[int])), ContraMap: logged1("proj", strDom, numDom, lenP)}
		})),
		"eq.ContraMap/tab/eq.String": I(eqExp(id, func() eq.Eq[int] {
			return eq.ContraMap[string, int]{Eq: eq.String, ContraMap: logged1("proj", id, strDom, tabP)}
		})),
		"ord.ContraMap/tab/ord.String": I(ordExp(id, func() ord.Ord[int] {
			return ord.ContraMap[string, int]{Ord: ord.String, ContraMap: logged1("proj", id, strDom, tabP)}
		})),
		"ord.ContraMap/flip/ord.Int": I(ordExp(id, func() ord.Ord[int] {
			return ord.ContraMap[int, int]{Ord: ord.Int, ContraMap: logged1("proj", id, id, flipP)}
		})),
		"eq.ContraMap/flip/rel": I(eqExp(id, func() eq.Eq[int] {
			return eq.ContraMap[int, int]{Eq: eq.From[int](logged2("base", id, encBool, less[int])), ContraMap: logged1("proj", id, id, flipP)}
		})),

		// two levels: the base of a ContraMap is itself a ContraMap; the outer projection ("proj") runs first
		"ord.ContraMap/rot/ord.ContraMap/flip/ord.Int": I(ordExp(id, func() ord.Ord[int] {
			inner := ord.ContraMap[int, int]{Ord: ord.Int, ContraMap: logged1("proj2", id, id, flipP)}
			return ord.ContraMap[int, int]{Ord: inner, ContraMap: logged1("proj", id, id, rotP)}
		})),
		"ord.ContraMap/flip/ord.ContraMap/rot/rev": I(ordExp(id, func() ord.Ord[int] {
			inner := ord.ContraMap[int, int]{Ord: ord.From[int](logged2("base", id, encOrd, rev[int])), ContraMap: logged1("proj2", id, id, rotP)}
			return ord.ContraMap[int, int]{Ord: inner, ContraMap: logged1("proj", id, id, flipP)}
		})),
		"eq.ContraMap/rot/eq.ContraMap/flip/rel": I(eqExp(id, func() eq.Eq[int] {
			inner := eq.ContraMap[int, int]{Eq: eq.From[int](logged2("base", id, encBool, less[int])), ContraMap: logged1("proj2", id, id, flipP)}
			return eq.ContraMap[int, int]{Eq: inner, ContraMap: logged1("proj", id, id, rotP)}
		})),
		"eq.ContraMap/tab/eq.ContraMap/len/eq.Int": I(eqExp(id, func() eq.Eq[int] {
			inner := eq.ContraMap[int, string]{Eq: eq.Int, ContraMap: logged1("proj2", strDom, numDom, lenP)}
			return eq.ContraMap[string, int]{Eq: inner, ContraMap: logged1("proj", id, strDom, tabP)}
		})),
		"ord.ContraMap/tab/ord.ContraMap/len/rev": I(ordExp(id, func() ord.Ord[int] {
			inner := ord.ContraMap[int, string]{Ord: ord.From[int](logged2("base", numDom, encOrd, rev[int])), ContraMap: logged1("proj2", strDom, numDom, lenP)}
			return ord.ContraMap[string, int]{Ord: inner, ContraMap: logged1("proj", id, strDom, tabP)}
		})),

		"semigroup.From/concat": S(semigroupExp(strDom, func() semigroup.Semigroup[string] {
			return semigroup.From[string](twinS("", func(op func(string, string) string) { _ = semigroup.From[string](op) }, opS()))
		})),
		"semigroup.From/sub": N(semigroupExp(numDom, func() semigroup.Semigroup[int] { return semigroup.From[int](opN()) })),
		// functions of other provenance: method values of a Monoid / a Semigroup / a struct, a top-level function
		"semigroup.From/monoid.Combine/concat": S(semigroupExp(strDom, func() semigroup.Semigroup[string] {
			return semigroup.From[string](monoid.FromOp("!", opS()).Combine)
		})),
		"semigroup.From/semigroup.Combine/sub": N(semigroupExp(numDom, func() semigroup.Semigroup[int] {
			return semigroup.From[int](semigroup.From[int](opN()).Combine)
		})),
		"semigroup.From/struct.Combine/concat": S(semigroupExp(strDom, func() semigroup.Semigroup[string] {
			return semigroup.From[string](opSemigroup[string]{opS()}.Combine)
		})),
		"semigroup.From/func/sub": N(semigroupExp(numDom, func() semigroup.Semigroup[int] { return semigroup.From[int](subTop) })),

		// (before the instance under test another one is made, with the same neutral element, from a closure of the *same function
		// literal* that captures another operation: two closures of one literal share their code, not their meaning)
		"monoid.FromOp/concat": S(monoidExp(strDom, func(e string) monoid.Monoid[string] {
			return monoid.FromOp(e, twinS(e, func(op func(string, string) string) { _ = monoid.FromOp(e, op) }, opS()))
		})),
		"monoid.FromOp/sub": N(monoidExp(numDom, func(e int) monoid.Monoid[int] {
			return monoid.FromOp(e, twinN(func(op func(int, int) int) { _ = monoid.FromOp(e, op) }, opN()))
		})),
		"monoid.From/concat": S(monoidExp(strDom, func(e string) monoid.Monoid[string] {
			return monoid.From[string](e, opSemigroup[string]{opS()})
		})),
		"monoid.From/sub": N(monoidExp(numDom, func(e int) monoid.Monoid[int] {
			return monoid.From[int](e, semigroup.From[int](opN()))
		})),

		// the Semigroup / function handed to the constructor belongs to a Monoid with ANOTHER empty element
		"monoid.From/monoid.FromOp/concat": {dom: "str", nested: true, run: nestedExp(strDom, func(e, inner string) monoid.Monoid[string] {
			return monoid.From[string](e, monoid.FromOp(inner, opS()))
		})},
		"monoid.From/monoid.FromOp/sub": {dom: "num", nested: true, run: nestedExp(numDom, func(e, inner int) monoid.Monoid[int] {
			return monoid.From[int](e, monoid.FromOp(inner, opN()))
		})},
		"monoid.From/monoid.From/concat": {dom: "str", nested: true, run: nestedExp(strDom, func(e, inner string) monoid.Monoid[string] {
			return monoid.From[string](e, monoid.From[string](inner, semigroup.From[string](opS())))
		})},
		"monoid.From/monoid.From/sub": {dom: "num", nested: true, run: nestedExp(numDom, func(e, inner int) monoid.Monoid[int] {
			return monoid.From[int](e, monoid.From[int](inner, opSemigroup[int]{opN()}))
		})},
		"monoid.FromOp/monoid.Combine/concat": {dom: "str", nested: true, run: nestedExp(strDom, func(e, inner string) monoid.Monoid[string] {
			return monoid.FromOp(e, monoid.FromOp(inner, opS()).Combine)
		})},
		"monoid.FromOp/monoid.Combine/sub": {dom: "num", nested: true, run: nestedExp(numDom, func(e, inner int) monoid.Monoid[int] {
			return monoid.FromOp(e, monoid.From[int](inner, semigroup.From[int](opN())).Combine)
		})},
	}
}

func runCase(exps map[string]entry, c genCase, out *vio.Out) error {
	ex, ok := exps[c.Inst]
	if !ok {
		return fmt.Errorf("harness: unknown instance %q", c.Inst)
	}
	if c.Inner == nil {
		c.Inner = raw(0)
	}
	r := record{Inst: c.Inst, E: c.E, Inner: c.Inner, A: c.A, B: c.B, Want: c.Want}
	calls = []call{}
	var err error
	func() {
		defer func() {
			if p := recover(); p != nil {
				r.Panic = fmt.Sprint(p)
			}
		}()
		err = ex.run(c, &r)
	}()
	r.Calls = calls
	out.Put(r)
	return err
}

func loadDom(t *testing.T) {
	b, err := os.ReadFile(vio.Env("VERIF_DOM", ""))
	if err != nil {
		t.Fatal(err)
	}
	var d struct {
		NInt   int     `json:"nint"`
		StrTab [][]int `json:"strtab"`
	}
	if err := json.Unmarshal(b, &d); err != nil {
		t.Fatal(err)
	}
	if d.NInt != len(intTab) {
		t.Fatalf("harness: the model has %d integers, the table %d", d.NInt, len(intTab))
	}
	if !sort.IntsAreSorted(intTab) {
		t.Fatal("harness: the integer table is not ascending")
	}
	strTab = nil
	for _, bs := range d.StrTab {
		raw, _ := json.Marshal(bs)
		s, _ := strDom.dec(raw)
		strTab = append(strTab, s)
	}
}

func TestReplay(t *testing.T) {
	if vio.Env("VERIF_MODE", "") != "replay" {
		t.Skip()
	}
	loadDom(t)
	out, err := vio.Create(vio.Env("VERIF_OUT", ""))
	if err != nil {
		t.Fatal(err)
	}
	defer out.Close()
	exps := experiments(intTab)
	n := 0
	err = vio.ReadLines(vio.Env("VERIF_IN", ""), func(b []byte) error {
		var c genCase
		if err := json.Unmarshal(b, &c); err != nil {
			return err
		}
		n++
		return runCase(exps, c, out)
	})
	if err != nil {
		t.Fatal(err)
	}
	out.Put(map[string]any{"t": "stats", "records": n})
}

// ---------------------------------------------------------------------------- random

func raw(v any) json.RawMessage {
	b, err := json.Marshal(v)
	if err != nil {
		panic(err)
	}
	return b
}

func TestRandom(t *testing.T) {
	if vio.Env("VERIF_MODE", "") != "random" {
		t.Skip()
	}
	loadDom(t)
	out, err := vio.Create(vio.Env("VERIF_OUT", ""))
	if err != nil {
		t.Fatal(err)
	}
	defer out.Close()
	rng := rand.New(rand.NewSource(int64(vio.EnvInt("VERIF_SEED", 1))))
	// a random ascending table of 8 distinct 64-bit integers, neighbours included
	set := map[int]bool{}
	for len(set) < len(intTab) {
		v := int(rng.Uint64())
		if rng.Intn(3) == 0 {
			v = int(int32(rng.Uint32()))
		}
		set[v] = true
		if rng.Intn(2) == 0 && len(set) < len(intTab) && v != math.MaxInt64 {
			set[v+1] = true
		}
	}
	tab := []int{}
	for v := range set {
		tab = append(tab, v)
	}
	sort.Ints(tab)
	exps := experiments(tab)
	names := []string{}
	for k := range exps {
		names = append(names, k)
	}
	sort.Strings(names)
	alphabet := []byte{0, 'a', 'b', 0x7f, 0x80, 0xc3, 0xa9, 0xff}
	rstr := func() []int {
		b := make([]byte, rng.Intn(6))
		for i := range b {
			if rng.Intn(4) == 0 {
				b[i] = byte(rng.Intn(256))
			} else {
				b[i] = alphabet[rng.Intn(len(alphabet))]
			}
		}
		return bytesOf(string(b))
	}
	n := 0
	pairs := vio.EnvInt("VERIF_N", 20)
	for p := 0; p < pairs; p++ {
		ia, ib := 1+rng.Intn(len(tab)), 1+rng.Intn(len(tab))
		sa, sb, se := rstr(), rstr(), rstr()
		if rng.Intn(4) == 0 {
			sb = append(append([]int{}, sa...), sb...) // a is a prefix of b
		}
		if rng.Intn(8) == 0 {
			sb = sa
		}
		na, nb, ne := rng.Intn(2001)-1000, rng.Intn(2001)-1000, rng.Intn(2001)-1000
		for _, name := range names {
			c := genCase{Inst: name, E: raw(0), Inner: raw(0)}
			switch en := exps[name]; en.dom {
			case "num":
				c.E, c.A, c.B = raw(ne), raw(na), raw(nb)
				if en.nested {
					c.Inner = raw(ne + 1 + rng.Intn(50)) // never the given empty
				}
			case "str":
				c.E, c.A, c.B = raw(se), raw(sa), raw(sb)
				if en.nested {
					c.Inner = raw(append(append([]int{}, se...), '!'))
				}
			case "int":
				c.A, c.B = raw(ia), raw(ib)
			default:
				t.Fatalf("harness: instance %q has no domain", name)
			}
			if err := runCase(exps, c, out); err != nil {
				t.Fatal(err)
			}
			n++
		}
	}
	out.Put(map[string]any{"t": "stats", "records": n, "int_table": fmt.Sprint(tab)})
}
