module verifharness

go 1.26

require (
	github.com/fogfish/golem v0.0.0
	github.com/fogfish/golem/duct v0.0.0
	github.com/fogfish/golem/hseq v1.3.0
	github.com/fogfish/golem/optics v0.0.0
	github.com/fogfish/golem/pipe/v2 v2.0.0
	github.com/fogfish/golem/pure v0.10.1
	github.com/fogfish/golem/trait v0.0.0
	pgregory.net/rapid v1.3.0
)

replace (
	github.com/fogfish/golem => ../.stage/golem
	github.com/fogfish/golem/duct => /repo/duct
	github.com/fogfish/golem/hseq => /repo/hseq
	github.com/fogfish/golem/optics => /repo/optics
	github.com/fogfish/golem/pipe/v2 => /repo/pipe
	github.com/fogfish/golem/pure => /repo/pure
	github.com/fogfish/golem/trait => /repo/trait
)
