package pipedrv

import (
	"context"
	"testing/synctest"
	"time"

	"github.com/fogfish/golem/pipe/v2"
	"github.com/fogfish/golem/pipe/v2/fork"
)

// The stages are generic in their element type; the controller, the traces and the specifications deal in ints.
// cfg.Elem runs the same schedule over channels of another element type through a codec: the observation is unchanged,
// so every predicate applies as it stands.  0 is encoded as the type's zero value where it has a meaningful one (nil).
type codec[E any] struct {
	to   func(int) E
	from func(E) int
}

// pointers: 0 is the nil pointer
func ptrCodec() codec[*cell] {
	return codec[*cell]{
		to: func(v int) *cell {
			if v == 0 {
				return nil
			}
			return &cell{v}
		},
		from: func(p *cell) int {
			if p == nil {
				return 0
			}
			return p.v
		},
	}
}

// interface values: 0 is the nil interface, odd values are pointers, even values are ints, multiples of 5 a typed nil
type tagged struct{ v int }

func ifaceCodec() codec[any] {
	return codec[any]{
		to: func(v int) any {
			switch {
			case v == 0:
				return nil
			case v%2 == 1:
				return &tagged{v}
			}
			return v
		},
		from: func(x any) int {
			switch t := x.(type) {
			case nil:
				return 0
			case *tagged:
				return t.v
			case int:
				return t
			}
			return -997
		},
	}
}

// a struct that cannot be compared with == (it holds a slice) and is larger than a machine word
type box struct {
	pad  [4]uint64
	v    int
	tags []int
	name string
}

func boxCodec() codec[box] {
	return codec[box]{
		to: func(v int) box {
			if v == 0 {
				return box{}
			}
			return box{pad: [4]uint64{uint64(v), ^uint64(v), 3, 4}, v: v, tags: []int{v, v + 1}, name: "b"}
		},
		from: func(b box) int {
			if b.v == 0 && b.tags == nil {
				return 0
			}
			if len(b.tags) != 2 || b.tags[0] != b.v || b.pad[0] != uint64(b.v) || b.pad[1] != ^uint64(b.v) || b.name != "b" {
				return -996 // a torn or partially copied element
			}
			return b.v
		},
	}
}

func rdE[E any](ch <-chan E, cd codec[E]) func() (int, bool) {
	return func() (int, bool) {
		v, ok := <-ch
		if !ok {
			return 0, false
		}
		return cd.from(v), true
	}
}

func addOutE[E any](c *ctl, name string, ch <-chan E, cd codec[E]) {
	c.addOut(name, rdE(ch, cd), func() int { return len(ch) })
}

func valErrE[E any](c *ctl, out <-chan E, exx <-chan error, cd codec[E]) {
	if c.cfg.StdErr {
		if c.cfg.Forked {
			out = fork.StdErr(out, exx)
		} else {
			out = pipe.StdErr(out, exx)
		}
		addOutE(c, "out", out, cd)
		return
	}
	addOutE(c, "out", out, cd)
	c.addOut("exx", errReader(exx), func() int { return len(exx) })
}

// buildElem is build() for element type E (every stage kind except the folds, which have their own carriers).
func buildElem[E any](c *ctl, fs *fnset, cd codec[E]) {
	cfg, ctx := c.cfg, c.ctx
	chs := make([]chan E, len(c.ins))
	for i := range chs {
		chs[i] = make(chan E, cfg.Cap)
		c.ins[i] = nil
		c.xins[i] = newXport(chs[i], chs[i], cd.to)
	}
	var in <-chan E
	if len(chs) > 0 {
		in = chs[0]
	}
	fMap := func(e E) (E, error) { y, err := fs.fnMap(cd.from(e)); return cd.to(y), err }
	fPred := func(e E) (bool, error) { return fs.fnPred(cd.from(e)) }
	fEach := func(e E) (E, error) { _, err := fs.fnEach(cd.from(e)); return e, err }
	fArrow := func(ctx context.Context, e E, out chan<- E) error {
		x := cd.from(e)
		fs.c.enter(0, x)
		if fs.fail[x] {
			return fs.failed(x)
		}
		for _, y := range images(x) {
			select {
			case out <- cd.to(y):
			case <-ctx.Done():
				return nil
			}
		}
		return nil
	}
	d := func(n int) time.Duration { return time.Duration(n) * c.unit() }
	switch {
	case cfg.Kind == "Seq":
		xs := make([]E, len(cfg.Inputs[0]))
		for i, v := range cfg.Inputs[0] {
			xs[i] = cd.to(v)
		}
		var out <-chan E
		if cfg.Forked {
			out = fork.Seq(xs...)
		} else {
			out = pipe.Seq(xs...)
		}
		for i := range xs {
			xs[i] = cd.to(-1)
		}
		addOutE(c, "out", out, cd)
	case cfg.Kind == "ToSeq":
		out := make(chan E)
		go func() {
			var xs []E
			if cfg.Forked {
				xs = fork.ToSeq(in)
			} else {
				xs = pipe.ToSeq(in)
			}
			for _, x := range xs {
				out <- x
			}
			close(out)
		}()
		addOutE(c, "out", (<-chan E)(out), cd)
	case cfg.Kind == "New":
		rcv, snd := pipe.New[E](ctx, cfg.Cap)
		c.xins[0] = newXport(snd, nil, cd.to)
		addOutE(c, "out", rcv, cd)
	case cfg.Kind == "Map" && !cfg.Forked:
		out, exx := pipe.Map(ctx, in, pf(cfg.Mode, fMap))
		valErrE(c, out, exx, cd)
	case cfg.Kind == "Map":
		out, exx := fork.Map(ctx, cfg.Par, in, ff(cfg.Mode, fMap))
		valErrE(c, out, exx, cd)
	case cfg.Kind == "FMap" && !cfg.Forked:
		var f pipe.FF[E, E]
		if cfg.Mode == "try" {
			f = pipe.TryF(fArrow)
		} else {
			f = pipe.LiftF(fArrow)
		}
		out, exx := pipe.FMap(ctx, in, shared1(f))
		valErrE(c, out, exx, cd)
	case cfg.Kind == "FMap":
		var f fork.FF[E, E]
		if cfg.Mode == "try" {
			f = fork.TryF(fArrow)
		} else {
			f = fork.LiftF(fArrow)
		}
		out, exx := fork.FMap(ctx, cfg.Par, in, shared1(f))
		valErrE(c, out, exx, cd)
	case cfg.Kind == "Filter" && !cfg.Forked:
		addOutE(c, "out", pipe.Filter(ctx, in, pf(cfg.Mode, fPred)), cd)
	case cfg.Kind == "Filter":
		addOutE(c, "out", fork.Filter(ctx, cfg.Par, in, ff(cfg.Mode, fPred)), cd)
	case cfg.Kind == "TakeWhile" && !cfg.Forked:
		addOutE(c, "out", pipe.TakeWhile(ctx, in, pf(cfg.Mode, fPred)), cd)
	case cfg.Kind == "TakeWhile":
		addOutE(c, "out", fork.TakeWhile(ctx, in, ff(cfg.Mode, fPred)), cd)
	case cfg.Kind == "Partition" && !cfg.Forked:
		l, r := pipe.Partition(ctx, in, pf(cfg.Mode, fPred))
		addOutE(c, "out", l, cd)
		addOutE(c, "rout", r, cd)
	case cfg.Kind == "Partition":
		l, r := fork.Partition(ctx, cfg.Par, in, ff(cfg.Mode, fPred))
		addOutE(c, "out", l, cd)
		addOutE(c, "rout", r, cd)
	case cfg.Kind == "ForEach" && !cfg.Forked:
		dn := pipe.ForEach(ctx, in, pf(cfg.Mode, fEach))
		c.addOut("res", unitReader(dn), func() int { return len(dn) })
	case cfg.Kind == "ForEach":
		dn := fork.ForEach(ctx, cfg.Par, in, ff(cfg.Mode, fEach))
		c.addOut("res", unitReader(dn), func() int { return len(dn) })
	case cfg.Kind == "Void" && !cfg.Forked:
		dn := pipe.Void(ctx, in)
		c.addOut("res", unitReader(dn), func() int { return len(dn) })
	case cfg.Kind == "Void":
		dn := fork.Void(ctx, cfg.Par, in)
		c.addOut("res", unitReader(dn), func() int { return len(dn) })
	case cfg.Kind == "Take" && !cfg.Forked:
		addOutE(c, "out", pipe.Take(ctx, in, cfg.N), cd)
	case cfg.Kind == "Take":
		addOutE(c, "out", fork.Take(ctx, in, cfg.N), cd)
	case cfg.Kind == "Join":
		rs := make([]<-chan E, len(chs))
		for i := range chs {
			rs[i] = chs[i]
		}
		for _, i := range cfg.Dup {
			rs = append(rs, chs[i])
		}
		var out <-chan E
		if cfg.Forked {
			out = fork.Join(ctx, rs...)
		} else {
			out = pipe.Join(ctx, rs...)
		}
		for i := range rs {
			rs[i] = nil
		}
		addOutE(c, "out", out, cd)
	case cfg.Kind == "Throttling" && !cfg.Forked:
		addOutE(c, "out", pipe.Throttling(ctx, in, cfg.Ops, d(cfg.Interval)), cd)
	case cfg.Kind == "Throttling":
		addOutE(c, "out", fork.Throttling(ctx, in, cfg.Ops, d(cfg.Interval)), cd)
	case cfg.Kind == "Emit":
		fEmit := func(i int) (E, error) { y, err := fs.fnEmit(i); return cd.to(y), err }
		if cfg.Forked {
			out, exx := fork.Emit(ctx, cfg.Cap, d(cfg.Freq), ff(cfg.Mode, fEmit))
			valErrE(c, out, exx, cd)
		} else {
			out, exx := pipe.Emit(ctx, cfg.Cap, d(cfg.Freq), pf(cfg.Mode, fEmit))
			valErrE(c, out, exx, cd)
		}
	case cfg.Kind == "Unfold":
		fStep := func(e E) (E, error) { y, err := fs.fnStep(cd.from(e)); return cd.to(y), err }
		if cfg.Forked {
			out, exx := fork.Unfold(ctx, cfg.Cap, cd.to(cfg.Seed), ff(cfg.Mode, fStep))
			valErrE(c, out, exx, cd)
		} else {
			out, exx := pipe.Unfold(ctx, cfg.Cap, cd.to(cfg.Seed), pf(cfg.Mode, fStep))
			valErrE(c, out, exx, cd)
		}
	default:
		panic("elem: unknown kind " + cfg.Kind)
	}
}

// ------------------------------------------------------------------------------------------ twin instances
//
// The properties are per instance: what another instance of the same stage does in the same process - before this one was
// created (prelude), or concurrently on the same stream of values (mirror) - must not show in this one.  The twin is a
// second controller in the same bubble with ungated user functions; its library goroutines are counted once it is at rest
// and subtracted from every snapshot.

// twinMirrors: the stage stays alive as long as its input is open and its context is not cancelled
func twinMirrors(cfg Cfg) bool {
	switch cfg.Kind {
	case "Map", "FMap", "Filter", "Partition", "ForEach", "Void", "Fold", "Join", "New", "Throttling":
		return cfg.Mode != "lift" || len(cfg.Fail) == 0
	}
	return false
}

// fshare: function values and harness function sets created by the twin's build, reused (in creation order) by the build of
// the stage under test.  One schedule runs at a time in a process.
type fshare struct {
	m   map[int]any
	idx int
}

var shared *fshare

func shareF[T any](mk func() T) T {
	if shared == nil {
		return mk()
	}
	k := shared.idx
	shared.idx++
	if v, ok := shared.m[k].(T); ok {
		return v
	}
	v := mk()
	shared.m[k] = v
	return v
}

func shared1[T any](v T) T { return shareF(func() T { return v }) }

func (c *ctl) startTwin() {
	mode := c.cfg.Twin
	shared = nil
	if mode == "" {
		return
	}
	if mode == "prelude-f" {
		mode = "prelude"
		shared = &fshare{m: map[int]any{}}
		defer func() { shared.idx = 0 }()
	}
	if mode == "mirror" && !twinMirrors(c.cfg) {
		mode = "prelude"
	}
	if c.cfg.Kind == "Emit" || c.cfg.Kind == "Unfold" || (c.cfg.Kind == "Throttling" && mode == "prelude-ctx") {
		mode = "prelude" // the generators, and Throttling's pacer, end with their context only
	}
	tcfg := c.cfg
	tcfg.Gate, tcfg.Twin = false, ""
	t := &ctl{cfg: tcfg, outs: map[string]func() (int, bool){}, outLen: map[string]func() int{},
		recvPend: map[string]bool{}, seen: map[string]bool{}, gates: map[int]chan struct{}{}, callArg: map[int]int{},
		failSet: map[int]bool{}, predSet: map[int]bool{}, start: c.start}
	if mode == "prelude-ctx" {
		t.ctx, t.cancel = c.ctx, func() {}
	} else {
		t.ctx, t.cancel = context.WithCancel(context.Background())
	}
	t.build()
	limit := 1 << 30
	if tcfg.Kind == "Unfold" {
		limit = 6 // Unfold is not paced by the clock: a consumer that never stops would keep it running for ever
	}
	for _, o := range t.outName {
		rd := t.outs[o]
		go func() {
			for i := 0; i < limit; i++ {
				if _, ok := rd(); !ok {
					return
				}
			}
		}()
	}
	c.twin = t
	if mode == "mirror" {
		synctest.Wait()
		c.baseLive = t.liveLib()
		return
	}
	// prelude: the twin processes its whole input and ends before the stage under test is created
	for i := range t.ins {
		vals := t.inputVals(i)
		go func() {
			defer func() { recover() }()
			for _, v := range vals {
				t.rawSend(i, v)
			}
			t.rawClose(i)
		}()
	}
	time.Sleep(200*c.unit() + c.unit()/3) // the stage under test starts off the twin's phase
	synctest.Wait()
	t.cancel()
	c.twin = nil
	t.teardown() // lets (virtual) time pass as well: a generator asleep between two ticks ends
	c.baseLive = t.liveLib()
}

func (c *ctl) rawSend(i, v int) {
	if x := c.xins[i]; x != nil {
		x.send(v)
		return
	}
	c.sendCh(i) <- v
}

func (c *ctl) rawTrySend(i, v int) bool {
	if x := c.xins[i]; x != nil {
		return x.trySend(v)
	}
	select {
	case c.sendCh(i) <- v:
		return true
	default:
		return false
	}
}

func (c *ctl) rawClose(i int) {
	if x := c.xins[i]; x != nil {
		x.close()
	} else {
		close(c.sendCh(i))
	}
	c.inClosed[i] = true
}

// mirror: the twin is offered the same value on the same input at the same moment
func (c *ctl) mirrorSend(i, v int) {
	if t := c.twin; t != nil && i < len(t.ins) && !t.inClosed[i] {
		go func() {
			defer func() { recover() }()
			t.rawSend(i, v)
		}()
	}
}
