// Package pipedrv drives the real pipe / fork stages deterministically inside a testing/synctest bubble
// (DESIGN.md 3.3): actors perform one blocking operation at a time on behalf of the environment, user
// functions are harness code that logs the call and blocks on a per-call gate, and after every command
// the controller waits until every goroutine of the bubble is durably blocked (the library has run to
// quiescence), then records the completions observed and a snapshot.  No hook inside the library is used.
package pipedrv

import (
	"context"
	"errors"
	"fmt"
	"math/rand"
	"runtime"
	"sort"
	"strconv"
	"strings"
	"sync"
	"testing"
	"testing/synctest"
	"time"

	"github.com/fogfish/golem/pipe/v2"
	"github.com/fogfish/golem/pipe/v2/fork"
	"github.com/fogfish/golem/pure/monoid"
)

// One unit of virtual time.  Deliberately not a round number: a refactoring that rounds a period to milliseconds, to
// 10 ms slices or to microseconds shifts every tick and becomes visible.  cfg.UnitNs overrides it (sub-millisecond units).
const DefaultUnit = time.Second + 3*time.Microsecond + 7*time.Nanosecond

// Cfg selects the stage under test and its harness-owned user functions.
type Cfg struct {
	Kind     string  `json:"kind"`   // Map FMap Filter ForEach Void Fold Partition Take TakeWhile | Emit Unfold | Join | Throttling | New
	Mode     string  `json:"mode"`   // pure | lift | try
	Forked   bool    `json:"forked"` // fork package instead of pipe
	Par      int     `json:"par"`
	Cap      int     `json:"cap"`    // capacity of every input channel (or the cap argument of Emit/Unfold/New)
	Inputs   [][]int `json:"inputs"` // values offered on each input channel
	Fail     []int   `json:"fail"`   // arguments on which the user function fails
	Pred     []int   `json:"pred"`   // arguments on which the predicate is true
	N        int     `json:"n"`      // Take
	Freq     int     `json:"freq"`   // Emit frequency, units
	Ops      int     `json:"ops"`    // Throttling
	Interval int     `json:"interval"`
	Monoid   string  `json:"monoid"`           // sum prod max min and or digits9
	Step     string  `json:"step"`             // Unfold: succ double const
	Seed     int     `json:"seed"`             // Unfold seed
	Gate     bool    `json:"gate"`             // user calls block until released
	Elem     string  `json:"elem"`             // element type of the channels: "" (int) | ptr | iface | box   (elem.go)
	Twin     string  `json:"twin"`             // a second instance of the stage in the same process: "" | prelude | prelude-ctx | mirror   (elem.go)
	StdErr   bool    `json:"stderr"`           // attach pipe.StdErr to the error channel instead of a harness consumer
	UnitNs   int     `json:"unit_ns"`          // duration of one unit of virtual time in ns (0: DefaultUnit)
	Dup      []int   `json:"dup,omitempty"`    // Join: indices of input channels handed to Join a second time
	Stages   []Cfg   `json:"stages,omitempty"` // kind Pipeline: the stages, first to last (their error channels go to pipe.StdErr)
}

type Cmd struct {
	C string `json:"c"` // send close recv cancel release advance
	I int    `json:"i"` // input index (send, close)
	O string `json:"o"` // output name (recv)
	X int    `json:"x"` // release: second argument of the pending call to release (-1: oldest)
	D int    `json:"d"` // advance: units
	V int    `json:"v"` // send: the value (filled in by the controller)
	// burst: the sub-commands are issued back to back, without waiting for quiescence in between and without letting
	// any other goroutine run (GOMAXPROCS is 1 for the duration): e.g. fill the input buffer and cancel "at the same time"
	Sub []Cmd `json:"sub,omitempty"`
}

type Ev struct {
	E  string `json:"e"` // sent got call sendpanic
	I  int    `json:"i"`
	O  string `json:"o"`
	V  int    `json:"v"`
	Ok bool   `json:"ok"`
	A  int    `json:"a"` // call: first argument (accumulator) where there is one
	X  int    `json:"x"` // call: the element
	K  int    `json:"k"` // call: sequence number
	At int    `json:"at"`
}

type Snap struct {
	InLen  []int          `json:"inLen"`
	OutLen map[string]int `json:"outLen"`
	Live   int            `json:"live"`
	Now    int            `json:"now"`
}

type Window struct {
	Cmd     Cmd  `json:"cmd"`
	Busy    bool `json:"busy"` // free runs (free.go): the library was not known to be at rest when the window was recorded
	Skipped bool `json:"skipped"`
	Done    []Ev `json:"done"`
	Q       Snap `json:"q"`
}

type Random struct {
	Seed    int64          `json:"seed"`
	Steps   int            `json:"steps"`
	Weights map[string]int `json:"weights"`
}

type Sched struct {
	ID       int     `json:"id"`
	Cfg      Cfg     `json:"cfg"`
	Cmds     []Cmd   `json:"cmds"`
	Random   *Random `json:"random,omitempty"`
	Epilogue string  `json:"epilogue"` // none | drain | cancel
	Origin   string  `json:"origin"`
}

type Trace struct {
	ID       int      `json:"id"`
	Cfg      Cfg      `json:"cfg"`
	Outs     []string `json:"outs"`
	Wins     []Window `json:"wins"`
	Epilogue string   `json:"epilogue"`
	Origin   string   `json:"origin"`
	Leak     string   `json:"leak,omitempty"` // teardown could not end the bubble (goroutines blocked forever)
}

// ------------------------------------------------------------------------------------------ controller

type ctl struct {
	cfg    Cfg
	mu     sync.Mutex
	done   []Ev
	start  time.Time
	ctx    context.Context
	cancel context.CancelFunc

	ins      []chan int
	newSnd   chan<- int
	xins     []*xport // input i when its element type is not int (folds over other carriers, cfg.Elem)
	free     bool     // a free run (free.go): no bubble, its own bounds
	twin     *ctl     // cfg.Twin: a second instance of the same stage in the same bubble (elem.go)
	baseLive int      // library goroutines that belong to the twin
	inline   bool     // inside a burst
	outs     map[string]func() (int, bool)
	outLen   map[string]func() int
	outName  []string

	// bookkeeping of the environment's pending operations
	sendPend  []bool
	sendIdx   []int
	inClosed  []bool
	recvPend  map[string]bool
	seen      map[string]bool
	cancelled bool
	gates     map[int]chan struct{} // call sequence number -> gate
	callArg   map[int]int
	nextCall  int
	bubble    string
	failSet   map[int]bool
	predSet   map[int]bool
}

func (c *ctl) unit() time.Duration {
	if c.cfg.UnitNs > 0 {
		return time.Duration(c.cfg.UnitNs)
	}
	return DefaultUnit
}

func (c *ctl) now() int { return int(time.Since(c.start) / c.unit()) }

// Runaway is called (by the test driver: report the schedule as hung, end the process) when more than a million completions
// pile up within one window: library goroutines keep each other busy for ever and the log would eat the memory.
var Runaway func()

func (c *ctl) runaway() {
	if len(c.done) > 1000000 && Runaway != nil && !c.free {
		Runaway()
	}
}

func (c *ctl) emit(e Ev) {
	c.mu.Lock()
	e.At = c.now()
	c.done = append(c.done, e)
	c.runaway()
	c.mu.Unlock()
}

// enter is called at the start of every harness-owned user function: log, then block on the gate.
func (c *ctl) enter(a, x int) {
	c.mu.Lock()
	k := c.nextCall
	c.nextCall++
	var g chan struct{}
	if c.cfg.Gate {
		g = make(chan struct{})
		c.gates[k] = g
		c.callArg[k] = x
	}
	c.done = append(c.done, Ev{E: "call", A: a, X: x, K: k, At: c.now()})
	c.runaway()
	c.mu.Unlock()
	if g != nil {
		<-g
	}
}

// cell is the element type of the reference-typed folds (cfg.monoid = "sumref"): the monoid's Empty returns a fresh
// accumulator and Combine updates its first argument in place - legitimate for a monoid, fatal if an accumulator is shared.
type cell struct{ v int }

type refMonoid struct{ fs *fnset }

func (m refMonoid) Empty() *cell { return &cell{} }
func (m refMonoid) Combine(a, b *cell) *cell {
	m.fs.c.enter(a.v, b.v)
	a.v += b.v
	return a
}

// xport is input 0 of a fold whose carrier is not int: the controller still deals in ints.
type xport struct {
	trySend func(v int) bool
	send    func(v int)
	close   func()
	length  func() int
	drain   func()
}

func newXport[A any](snd chan<- A, rcv <-chan A, toA func(int) A) *xport {
	x := &xport{
		trySend: func(v int) bool {
			select {
			case snd <- toA(v):
				return true
			default:
				return false
			}
		},
		send:   func(v int) { snd <- toA(v) },
		close:  func() { close(snd) },
		length: func() int { return len(snd) },
	}
	if rcv != nil { // nil: the library owns the channel (pipe.New's send side), the harness never drains it
		x.drain = func() {
			for range rcv {
			}
		}
	}
	return x
}

// set is a non-comparable carrier: set union over map[int]struct{} (cfg.monoid = "orset"); the controller's int v stands
// for the set of its bits.
type set map[int]struct{}

func toSet(v int) set {
	s := set{}
	for b := 0; b < 8; b++ {
		if v&(1<<b) != 0 {
			s[b] = struct{}{}
		}
	}
	return s
}

func fromSet(s set) int {
	v := 0
	for b := range s {
		v |= 1 << b
	}
	return v
}

type setMonoid struct{ fs *fnset }

func (m setMonoid) Empty() set { return set{} }
func (m setMonoid) Combine(a, b set) set {
	m.fs.c.enter(fromSet(a), fromSet(b))
	u := set{}
	for k := range a {
		u[k] = struct{}{}
	}
	for k := range b {
		u[k] = struct{}{}
	}
	return u
}

type failure struct{ x int }

func (f failure) Error() string { return strconv.Itoa(f.x) }

// A user function may fail with an error of its own that "is" a context error (its own sub-deadline expired): for the
// stage that is a failure of the element like any other.  Even elements fail that way.
func (f failure) Is(target error) bool {
	return f.x%2 == 0 && (target == context.DeadlineExceeded || target == context.Canceled)
}

// nilErr is an error type whose Error method does not guard against a nil receiver (most do not).  A non-nil error that
// holds a nil *nilErr is a failure like any other; whoever calls Error on it panics.  Where the errors go to pipe.StdErr -
// the harness never looks at them - the odd failing elements fail that way.
type nilErr struct{ x int }

func (e *nilErr) Error() string { return strconv.Itoa(e.x) }

func (fs *fnset) failed(x int) error {
	if fs.stderr && x%2 != 0 {
		return (*nilErr)(nil)
	}
	return failure{x}
}

// fnset is one set of harness-owned user functions (a pipeline has one per stage).
type fnset struct {
	c      *ctl
	fail   map[int]bool
	pred   map[int]bool
	monoid string
	step   string
	stderr bool // the errors of this stage go to pipe.StdErr (nobody but the library sees them)
}

func (c *ctl) fns(cfg Cfg) *fnset {
	if shared != nil {
		// cfg.Twin = prelude-f: the stage under test is built from the very function values (pipe.Lift(f), ...) an earlier
		// instance was built from; the harness functions behind them now report to this controller
		k := shared.idx
		shared.idx++
		if fs, ok := shared.m[k].(*fnset); ok {
			fs.c = c
			return fs
		}
		fs := c.fns0(cfg)
		shared.m[k] = fs
		return fs
	}
	return c.fns0(cfg)
}

func (c *ctl) fns0(cfg Cfg) *fnset {
	fs := &fnset{c: c, fail: map[int]bool{}, pred: map[int]bool{}, monoid: cfg.Monoid, step: cfg.Step, stderr: cfg.StdErr}
	for _, x := range cfg.Fail {
		fs.fail[x] = true
	}
	for _, x := range cfg.Pred {
		fs.pred[x] = true
	}
	return fs
}

func (fs *fnset) fnMap(x int) (int, error) {
	fs.c.enter(0, x)
	if fs.fail[x] {
		return 0, fs.failed(x)
	}
	return 10 * x, nil
}

func images(x int) []int {
	if x%3 == 0 {
		return nil
	}
	if x%2 == 1 {
		return []int{10 * x, 10*x + 1}
	}
	return []int{10 * x}
}

func (fs *fnset) fnArrow(ctx context.Context, x int, out chan<- int) error {
	fs.c.enter(0, x)
	if fs.fail[x] {
		return fs.failed(x)
	}
	for _, y := range images(x) {
		select {
		case out <- y:
		case <-ctx.Done():
			return nil
		}
	}
	return nil
}

func (fs *fnset) fnPred(x int) (bool, error) {
	fs.c.enter(0, x)
	if fs.fail[x] {
		return true, fs.failed(x)
	}
	return fs.pred[x], nil
}

func (fs *fnset) fnEach(x int) (int, error) {
	fs.c.enter(0, x)
	if fs.fail[x] {
		return x, fs.failed(x) // ForEach ignores what its function returns: every element is still visited
	}
	return x, nil
}

func (fs *fnset) fnEmit(i int) (int, error) {
	fs.c.enter(0, i)
	if fs.fail[i] {
		return 0, fs.failed(i)
	}
	return 100 + i, nil
}

func StepFn(step string, s int) int {
	switch step {
	case "double":
		return (2 * s) % 1009
	case "const":
		return s
	}
	return s + 1
}

func (fs *fnset) fnStep(s int) (int, error) {
	fs.c.enter(0, s)
	if fs.fail[s] {
		// a failed step still returns a value: Unfold goes on from it under Try (the stream "jumps")
		return s + 100, fs.failed(s)
	}
	return StepFn(fs.step, s), nil
}

func MonoidOf(name string) (empty int, op func(a, b int) int) {
	switch name {
	case "prod":
		return 1, func(a, b int) int { return a * b }
	case "max":
		return -1000, func(a, b int) int { return max(a, b) }
	case "min":
		return 1000, func(a, b int) int { return min(a, b) }
	case "and":
		return 7, func(a, b int) int { return a & b }
	case "or":
		return 0, func(a, b int) int { return a | b }
	case "digits9": // order-sensitive on purpose (sequential Fold): left fold from 9 over 1,2,3 = 9123
		return 9, func(a, b int) int { return a*10 + b }
	}
	return 0, func(a, b int) int { return a + b }
}

func (fs *fnset) mono() monoid.Monoid[int] {
	empty, op := MonoidOf(fs.monoid)
	return monoid.FromOp(empty, func(a, b int) int {
		fs.c.enter(a, b)
		return op(a, b)
	})
}

func errReader(ch <-chan error) func() (int, bool) {
	return func() (int, bool) {
		err, ok := <-ch
		if !ok {
			return 0, false
		}
		var f failure
		if errors.As(err, &f) {
			return f.x, true
		}
		return -999, true
	}
}

func intReader(ch <-chan int) func() (int, bool) {
	return func() (int, bool) { v, ok := <-ch; return v, ok }
}

func unitReader(ch <-chan struct{}) func() (int, bool) {
	return func() (int, bool) { _, ok := <-ch; return 0, ok }
}

func (c *ctl) addOut(name string, rd func() (int, bool), ln func() int) {
	c.outs[name] = rd
	c.outLen[name] = ln
	c.outName = append(c.outName, name)
}

func (c *ctl) valErr(out <-chan int, exx <-chan error) {
	if c.cfg.StdErr {
		out = pipe.StdErr(out, exx)
		c.addOut("out", intReader(out), func() int { return len(out) })
		return
	}
	c.addOut("out", intReader(out), func() int { return len(out) })
	c.addOut("exx", errReader(exx), func() int { return len(exx) })
}

func pf[A, B any](mode string, f func(A) (B, error)) pipe.F[A, B] {
	return shareF(func() pipe.F[A, B] {
		switch mode {
		case "try":
			return pipe.Try(f)
		case "lift":
			return pipe.Lift(f)
		}
		return pipe.Pure(func(a A) B { b, _ := f(a); return b })
	})
}

func ff[A, B any](mode string, f func(A) (B, error)) fork.F[A, B] {
	return shareF(func() fork.F[A, B] {
		switch mode {
		case "try":
			return fork.Try(f)
		case "lift":
			return fork.Lift(f)
		}
		return fork.Pure(func(a A) B { b, _ := f(a); return b })
	})
}

// build constructs the stage under test.
func (c *ctl) build() {
	cfg := c.cfg
	nin := len(cfg.Inputs)
	switch cfg.Kind {
	case "Emit", "Unfold", "Seq":
		nin = 0
	case "Pipeline":
		if len(cfg.Inputs) == 0 {
			nin = 0 // the pipeline is fed by Unfold (the README's quick example)
		}
	case "New":
		nin = 1
	}
	c.ins = make([]chan int, nin)
	c.xins = make([]*xport, nin)
	for i := range c.ins {
		c.ins[i] = make(chan int, cfg.Cap)
	}
	c.sendPend = make([]bool, nin)
	c.sendIdx = make([]int, nin)
	c.inClosed = make([]bool, nin)
	var in <-chan int
	if nin > 0 {
		in = c.ins[0]
	}
	ctx := c.ctx
	fs := c.fns(cfg)
	freq := time.Duration(cfg.Freq) * c.unit()
	switch {
	case cfg.Elem != "" && cfg.Kind != "Fold" && cfg.Kind != "Pipeline":
		switch cfg.Elem {
		case "ptr":
			buildElem(c, fs, ptrCodec())
		case "iface":
			buildElem(c, fs, ifaceCodec())
		case "box":
			buildElem(c, fs, boxCodec())
		default:
			panic("unknown elem " + cfg.Elem)
		}
	case cfg.Kind == "Pipeline":
		cur := in
		if nin == 0 {
			cur = pipe.StdErr(pipe.Unfold(ctx, cfg.Cap, cfg.Seed, pf(cfg.Mode, fs.fnStep)))
		}
		for _, st := range cfg.Stages {
			cur = c.pipeStage(st, cur)
		}
		out := cur
		c.addOut("out", intReader(out), func() int { return len(out) })
	case cfg.Kind == "Seq":
		var out <-chan int
		xs := append([]int{}, cfg.Inputs[0]...)
		if cfg.Forked {
			out = fork.Seq(xs...)
		} else {
			out = pipe.Seq(xs...)
		}
		for i := range xs { // the caller goes on using its slice: the channel holds what was passed in
			xs[i] = -1
		}
		c.addOut("out", intReader(out), func() int { return len(out) })
	case cfg.Kind == "ToSeq":
		// ToSeq blocks its caller: a harness goroutine calls it and then hands the slice over, element by element
		out := make(chan int)
		go func() {
			var xs []int
			if cfg.Forked {
				xs = fork.ToSeq(in)
			} else {
				xs = pipe.ToSeq(in)
			}
			for _, x := range xs {
				out <- x
			}
			close(out)
		}()
		c.addOut("out", intReader(out), func() int { return len(out) })
	case cfg.Kind == "New":
		rcv, snd := pipe.New[int](ctx, cfg.Cap)
		// the send side is created by the library: use it as input 0
		c.ins[0] = nil
		c.newSnd = snd
		c.addOut("out", intReader(rcv), func() int { return len(rcv) })
	case cfg.Kind == "Emit" && !cfg.Forked:
		out, exx := pipe.Emit(ctx, cfg.Cap, freq, pf(cfg.Mode, fs.fnEmit))
		c.valErr(out, exx)
	case cfg.Kind == "Emit":
		out, exx := fork.Emit(ctx, cfg.Cap, freq, ff(cfg.Mode, fs.fnEmit))
		c.valErr(out, exx)
	case cfg.Kind == "Unfold" && !cfg.Forked:
		out, exx := pipe.Unfold(ctx, cfg.Cap, cfg.Seed, pf(cfg.Mode, fs.fnStep))
		c.valErr(out, exx)
	case cfg.Kind == "Unfold":
		out, exx := fork.Unfold(ctx, cfg.Cap, cfg.Seed, ff(cfg.Mode, fs.fnStep))
		c.valErr(out, exx)
	case cfg.Kind == "Map" && !cfg.Forked:
		out, exx := pipe.Map(ctx, in, pf(cfg.Mode, fs.fnMap))
		c.valErr(out, exx)
	case cfg.Kind == "Map":
		out, exx := fork.Map(ctx, cfg.Par, in, ff(cfg.Mode, fs.fnMap))
		c.valErr(out, exx)
	case cfg.Kind == "FMap" && !cfg.Forked:
		var f pipe.FF[int, int]
		if cfg.Mode == "try" {
			f = pipe.TryF(fs.fnArrow)
		} else {
			f = pipe.LiftF(fs.fnArrow)
		}
		out, exx := pipe.FMap(ctx, in, shared1(f))
		c.valErr(out, exx)
	case cfg.Kind == "FMap":
		var f fork.FF[int, int]
		if cfg.Mode == "try" {
			f = fork.TryF(fs.fnArrow)
		} else {
			f = fork.LiftF(fs.fnArrow)
		}
		out, exx := fork.FMap(ctx, cfg.Par, in, shared1(f))
		c.valErr(out, exx)
	case cfg.Kind == "Filter" && !cfg.Forked:
		out := pipe.Filter(ctx, in, pf(cfg.Mode, fs.fnPred))
		c.addOut("out", intReader(out), func() int { return len(out) })
	case cfg.Kind == "Filter":
		out := fork.Filter(ctx, cfg.Par, in, ff(cfg.Mode, fs.fnPred))
		c.addOut("out", intReader(out), func() int { return len(out) })
	case cfg.Kind == "TakeWhile" && !cfg.Forked:
		out := pipe.TakeWhile(ctx, in, pf(cfg.Mode, fs.fnPred))
		c.addOut("out", intReader(out), func() int { return len(out) })
	case cfg.Kind == "TakeWhile":
		out := fork.TakeWhile(ctx, in, ff(cfg.Mode, fs.fnPred))
		c.addOut("out", intReader(out), func() int { return len(out) })
	case cfg.Kind == "Partition" && !cfg.Forked:
		l, r := pipe.Partition(ctx, in, pf(cfg.Mode, fs.fnPred))
		c.addOut("out", intReader(l), func() int { return len(l) })
		c.addOut("rout", intReader(r), func() int { return len(r) })
	case cfg.Kind == "Partition":
		l, r := fork.Partition(ctx, cfg.Par, in, ff(cfg.Mode, fs.fnPred))
		c.addOut("out", intReader(l), func() int { return len(l) })
		c.addOut("rout", intReader(r), func() int { return len(r) })
	case cfg.Kind == "ForEach" && !cfg.Forked:
		d := pipe.ForEach(ctx, in, pf(cfg.Mode, fs.fnEach))
		c.addOut("res", unitReader(d), func() int { return len(d) })
	case cfg.Kind == "ForEach":
		d := fork.ForEach(ctx, cfg.Par, in, ff(cfg.Mode, fs.fnEach))
		c.addOut("res", unitReader(d), func() int { return len(d) })
	case cfg.Kind == "Void" && !cfg.Forked:
		d := pipe.Void(ctx, in)
		c.addOut("res", unitReader(d), func() int { return len(d) })
	case cfg.Kind == "Void":
		d := fork.Void(ctx, cfg.Par, in)
		c.addOut("res", unitReader(d), func() int { return len(d) })
	case cfg.Kind == "Fold" && cfg.Monoid == "sumref":
		pin := make(chan *cell, cfg.Cap)
		c.xins[0] = newXport(pin, pin, func(v int) *cell { return &cell{v} })
		c.ins[0] = nil
		var d <-chan *cell
		if cfg.Forked {
			d = fork.Fold[*cell](ctx, cfg.Par, pin, refMonoid{fs})
		} else {
			d = pipe.Fold[*cell](ctx, pin, refMonoid{fs})
		}
		c.addOut("res", func() (int, bool) {
			p, ok := <-d
			if !ok || p == nil {
				return 0, ok
			}
			return p.v, true
		}, func() int { return len(d) })
	case cfg.Kind == "Fold" && cfg.Monoid == "orset":
		pin := make(chan set, cfg.Cap)
		c.xins[0] = newXport(pin, pin, toSet)
		c.ins[0] = nil
		var d <-chan set
		if cfg.Forked {
			d = fork.Fold[set](ctx, cfg.Par, pin, setMonoid{fs})
		} else {
			d = pipe.Fold[set](ctx, pin, setMonoid{fs})
		}
		c.addOut("res", func() (int, bool) {
			p, ok := <-d
			return fromSet(p), ok
		}, func() int { return len(d) })
	case cfg.Kind == "Fold" && !cfg.Forked:
		d := pipe.Fold(ctx, in, fs.mono())
		c.addOut("res", intReader(d), func() int { return len(d) })
	case cfg.Kind == "Fold":
		d := fork.Fold(ctx, cfg.Par, in, fs.mono())
		c.addOut("res", intReader(d), func() int { return len(d) })
	case cfg.Kind == "Take" && !cfg.Forked:
		out := pipe.Take(ctx, in, cfg.N)
		c.addOut("out", intReader(out), func() int { return len(out) })
	case cfg.Kind == "Take":
		out := fork.Take(ctx, in, cfg.N)
		c.addOut("out", intReader(out), func() int { return len(out) })
	case cfg.Kind == "Join":
		rs := make([]<-chan int, nin)
		for i := range c.ins {
			rs[i] = c.ins[i]
		}
		for _, i := range cfg.Dup {
			rs = append(rs, c.ins[i])
		}
		var out <-chan int
		if cfg.Forked {
			out = fork.Join(ctx, rs...)
		} else {
			out = pipe.Join(ctx, rs...)
		}
		for i := range rs { // the caller goes on using its slice of channels: Join must have taken what it needs
			rs[i] = nil
		}
		c.addOut("out", intReader(out), func() int { return len(out) })
	case cfg.Kind == "Throttling":
		var out <-chan int
		if cfg.Forked {
			out = fork.Throttling(ctx, in, cfg.Ops, time.Duration(cfg.Interval)*c.unit())
		} else {
			out = pipe.Throttling(ctx, in, cfg.Ops, time.Duration(cfg.Interval)*c.unit())
		}
		c.addOut("out", intReader(out), func() int { return len(out) })
	default:
		panic("unknown kind " + cfg.Kind)
	}
	sort.Strings(c.outName)
}

// pipeStage builds one int -> int stage of a pipeline; its error channel (if any) goes to pipe.StdErr.
func (c *ctl) pipeStage(st Cfg, in <-chan int) <-chan int {
	fs := c.fns(st)
	fs.stderr = true
	ctx := c.ctx
	switch {
	case st.Kind == "Map" && !st.Forked:
		return pipe.StdErr(pipe.Map(ctx, in, pf(st.Mode, fs.fnMap)))
	case st.Kind == "Map":
		return fork.StdErr(fork.Map(ctx, st.Par, in, ff(st.Mode, fs.fnMap)))
	case st.Kind == "FMap" && !st.Forked:
		if st.Mode == "try" {
			return pipe.StdErr(pipe.FMap(ctx, in, pipe.TryF(fs.fnArrow)))
		}
		return pipe.StdErr(pipe.FMap(ctx, in, pipe.LiftF(fs.fnArrow)))
	case st.Kind == "FMap":
		if st.Mode == "try" {
			return fork.StdErr(fork.FMap(ctx, st.Par, in, fork.TryF(fs.fnArrow)))
		}
		return fork.StdErr(fork.FMap(ctx, st.Par, in, fork.LiftF(fs.fnArrow)))
	case st.Kind == "Filter" && !st.Forked:
		return pipe.Filter(ctx, in, pf(st.Mode, fs.fnPred))
	case st.Kind == "Filter":
		return fork.Filter(ctx, st.Par, in, ff(st.Mode, fs.fnPred))
	case st.Kind == "TakeWhile":
		return pipe.TakeWhile(ctx, in, pf(st.Mode, fs.fnPred))
	case st.Kind == "Take":
		return pipe.Take(ctx, in, st.N)
	case st.Kind == "Fold" && !st.Forked:
		return pipe.Fold(ctx, in, fs.mono())
	case st.Kind == "Fold":
		return fork.Fold(ctx, st.Par, in, fs.mono())
	case st.Kind == "Throttling":
		return pipe.Throttling(ctx, in, st.Ops, time.Duration(st.Interval)*c.unit())
	}
	panic("pipeline stage " + st.Kind)
}

// ------------------------------------------------------------------------------------------ snapshot

const libPrefix = "github.com/fogfish/golem/pipe/v2"

// liveLib counts the goroutines of this bubble that run library code or were started by library code.
func (c *ctl) liveLib() int {
	buf := make([]byte, 1<<20)
	n := runtime.Stack(buf, true)
	gs := strings.Split(string(buf[:n]), "\n\n")
	if c.bubble == "" {
		// the first block is the calling goroutine: "goroutine 7 [running, synctest bubble 1]:"
		hdr := strings.SplitN(gs[0], "\n", 2)[0]
		if i := strings.Index(hdr, "synctest bubble "); i >= 0 {
			c.bubble = strings.TrimRight(hdr[i:], "]:")
		}
	}
	cnt := 0
	for _, g := range gs[1:] {
		lines := strings.Split(g, "\n")
		if c.bubble != "" && !strings.Contains(lines[0], c.bubble+"]") && !strings.Contains(lines[0], c.bubble+",") {
			continue
		}
		lib := false
		for _, ln := range lines[1:] {
			s := strings.TrimPrefix(ln, "created by ")
			if strings.HasPrefix(s, libPrefix) {
				lib = true
				break
			}
		}
		if lib {
			cnt++
		}
	}
	return cnt
}

func (c *ctl) snapshot() Snap {
	s := Snap{InLen: make([]int, len(c.ins)), OutLen: map[string]int{}, Live: c.liveLib() - c.baseLive, Now: c.now()}
	for i, ch := range c.ins {
		if ch != nil {
			s.InLen[i] = len(ch)
		} else if c.xins[i] != nil {
			s.InLen[i] = c.xins[i].length()
		} else if c.newSnd != nil {
			s.InLen[i] = len(c.newSnd)
		}
	}
	for o, f := range c.outLen {
		s.OutLen[o] = f()
	}
	return s
}

// ------------------------------------------------------------------------------------------ commands

func (c *ctl) sendCh(i int) chan<- int {
	if c.ins[i] == nil {
		return c.newSnd
	}
	return c.ins[i]
}

func (c *ctl) inputVals(i int) []int {
	if i < len(c.cfg.Inputs) {
		return c.cfg.Inputs[i]
	}
	return nil
}

func (c *ctl) enabled(cmd Cmd) bool {
	switch cmd.C {
	case "send":
		return cmd.I < len(c.ins) && !c.sendPend[cmd.I] && !c.inClosed[cmd.I] && c.sendIdx[cmd.I] < len(c.inputVals(cmd.I)) && !c.libOwnsInput()
	case "close":
		return cmd.I < len(c.ins) && !c.sendPend[cmd.I] && !c.inClosed[cmd.I] && !c.libOwnsInput()
	case "recv", "recvall":
		_, ok := c.outs[cmd.O]
		return ok && !c.recvPend[cmd.O] && !c.seen[cmd.O]
	case "cancel":
		return !c.cancelled
	case "release":
		return c.pick(cmd.X) >= 0
	case "advance":
		return cmd.D > 0
	}
	return false
}

// pipe.New closes its send side itself when the context is cancelled: from then on the channel is no longer the
// environment's to use (a send or a close would be a use of a channel somebody else closes).
func (c *ctl) libOwnsInput() bool { return c.cfg.Kind == "New" && c.cancelled }

// pick returns the sequence number of the pending call to release: the oldest one whose element is x (x = -1: the oldest).
func (c *ctl) pick(x int) int {
	best := -1
	for k := range c.gates {
		if (x == -1 || c.callArg[k] == x) && (best == -1 || k < best) {
			best = k
		}
	}
	return best
}

func (c *ctl) issue(cmd *Cmd) {
	switch cmd.C {
	case "send":
		i := cmd.I
		v := c.inputVals(i)[c.sendIdx[i]]
		cmd.V = v
		c.sendIdx[i]++
		c.sendPend[i] = true
		c.mirrorSend(i, v)
		var trySend func() bool
		var send func()
		if x := c.xins[i]; x != nil {
			trySend = func() bool { return x.trySend(v) }
			send = func() { x.send(v) }
		} else {
			ch := c.sendCh(i)
			trySend = func() bool {
				select {
				case ch <- v:
					return true
				default:
					return false
				}
			}
			send = func() { ch <- v }
		}
		if c.inline {
			// inside a burst: complete the send here if it cannot block, so that nothing else runs before the next sub-command
			done := false
			func() {
				defer func() {
					if r := recover(); r != nil {
						c.emit(Ev{E: "sendpanic", I: i, V: v, K: -1})
						done = true
					}
				}()
				if trySend() {
					c.emit(Ev{E: "sent", I: i, V: v, K: -1}) // K = -1: completed inline, no parked sender involved
					done = true
				}
			}()
			if done {
				c.sendPend[i] = false
				break
			}
		}
		go func() {
			defer func() {
				if r := recover(); r != nil {
					c.emit(Ev{E: "sendpanic", I: i, V: v})
				}
			}()
			send()
			c.emit(Ev{E: "sent", I: i, V: v})
		}()
	case "close":
		c.inClosed[cmd.I] = true
		func() {
			defer func() {
				if r := recover(); r != nil {
					c.emit(Ev{E: "closepanic", I: cmd.I})
				}
			}()
			if x := c.xins[cmd.I]; x != nil {
				x.close()
			} else {
				close(c.sendCh(cmd.I))
			}
		}()
	case "recv":
		o := cmd.O
		c.recvPend[o] = true
		rd := c.outs[o]
		go func() {
			v, ok := rd()
			c.emit(Ev{E: "got", O: o, V: v, Ok: ok})
		}()
	case "recvall":
		// a consumer that keeps up: receives again at once, up to D values or until the channel closes
		o, n := cmd.O, cmd.D
		c.recvPend[o] = true
		rd := c.outs[o]
		go func() {
			for i := 0; i < n; i++ {
				v, ok := rd()
				c.emit(Ev{E: "got", O: o, V: v, Ok: ok, K: -2})
				if !ok {
					break
				}
			}
			c.emit(Ev{E: "recvdone", O: o})
		}()
	case "cancel":
		c.cancelled = true
		// The cancel is marked in the log, under the log's lock: whatever was logged before the mark happened before the
		// cancel.  A burst is "back to back" only as long as the runtime does not preempt this goroutine (it does, after
		// 10 ms on a busy machine): a consumer started earlier in the same burst may receive dozens of values before the
		// cancel is really issued, and without the mark they would count as delivered after it (GenStops).
		c.mu.Lock()
		c.done = append(c.done, Ev{E: "cancelmark", At: c.now()})
		c.cancel()
		c.mu.Unlock()
	case "release":
		k := c.pick(cmd.X)
		c.mu.Lock()
		g := c.gates[k]
		delete(c.gates, k)
		delete(c.callArg, k)
		c.mu.Unlock()
		close(g)
	case "advance":
		time.Sleep(time.Duration(cmd.D) * c.unit())
	}
}

// step issues one command (if enabled), lets the library run to quiescence and records the window.
func (c *ctl) step(cmd Cmd, wins *[]Window) {
	w := Window{Cmd: cmd, Done: []Ev{}}
	if cmd.C == "burst" {
		prev := runtime.GOMAXPROCS(1)
		c.inline = true
		issued := []Cmd{}
		for _, sc := range cmd.Sub {
			c.mu.Lock()
			en := sc.C != "burst" && sc.C != "advance" && c.enabled(sc)
			c.mu.Unlock()
			if en {
				c.issue(&sc)
				issued = append(issued, sc)
			}
		}
		c.inline = false
		w.Cmd.Sub = issued
		w.Skipped = len(issued) == 0
		synctest.Wait()
		runtime.GOMAXPROCS(prev)
	} else {
		c.mu.Lock()
		en := c.enabled(cmd)
		c.mu.Unlock()
		if !en {
			w.Skipped = true
		} else {
			c.issue(&w.Cmd)
		}
		synctest.Wait()
	}
	c.mu.Lock()
	w.Done = append(w.Done, c.done...)
	c.done = c.done[:0]
	c.mu.Unlock()
	for _, d := range w.Done {
		switch d.E {
		case "sent", "sendpanic":
			if d.K != -1 {
				c.sendPend[d.I] = false
			}
		case "got":
			if d.K != -2 {
				c.recvPend[d.O] = false
			}
			if !d.Ok {
				c.seen[d.O] = true
			}
		case "recvdone":
			c.recvPend[d.O] = false
		}
	}
	w.Q = c.snapshot()
	*wins = append(*wins, w)
}

func (c *ctl) pendingCalls() int {
	c.mu.Lock()
	defer c.mu.Unlock()
	return len(c.gates)
}

func (c *ctl) allSeen() bool {
	for _, o := range c.outName {
		if !c.seen[o] {
			return false
		}
	}
	return true
}

// epilogue appends the closing moves of a schedule; they are ordinary commands, recorded like any other.
func (c *ctl) epilogue(kind string, wins *[]Window) {
	big := 100 * max(1, c.cfg.Freq, c.cfg.Interval)
	relAll := func() {
		for c.pendingCalls() > 0 {
			c.step(Cmd{C: "release", X: -1}, wins)
		}
	}
	closeAll := func() {
		for i := range c.ins {
			if !c.inClosed[i] && !c.sendPend[i] {
				c.step(Cmd{C: "close", I: i}, wins)
			}
		}
	}
	switch kind {
	case "drain":
		// the environment goes on: offers the rest of every input, closes, keeps receiving on every output
		for round := 0; round < 400 && !c.allSeen(); round++ {
			progress := len(*wins)
			for i := range c.ins {
				if c.enabled(Cmd{C: "send", I: i}) {
					c.step(Cmd{C: "send", I: i}, wins)
				} else if !c.sendPend[i] && !c.inClosed[i] {
					c.step(Cmd{C: "close", I: i}, wins)
				}
			}
			relAll()
			for _, o := range c.outName {
				if c.enabled(Cmd{C: "recv", O: o}) {
					c.step(Cmd{C: "recv", O: o}, wins)
				}
			}
			relAll()
			if len(*wins) == progress || c.cfg.Kind == "Emit" || c.cfg.Kind == "Throttling" {
				c.step(Cmd{C: "advance", D: max(1, c.cfg.Freq, c.cfg.Interval)}, wins)
			}
			if (c.cfg.Kind == "Emit" || c.cfg.Kind == "Unfold") && round > 12 {
				break
			}
		}
	case "cancel":
		// cancel, close what can be closed, let pending user calls return, and give the clock plenty of time:
		// nobody receives.  Then look (the snapshot of the last window), then drain what is left.
		c.step(Cmd{C: "cancel"}, wins)
		closeAll()
		relAll()
		c.step(Cmd{C: "advance", D: big}, wins)
		relAll()
		c.step(Cmd{C: "advance", D: big}, wins)
		for _, o := range c.outName {
			for n := 0; n < 64 && c.enabled(Cmd{C: "recv", O: o}); n++ {
				c.step(Cmd{C: "recv", O: o}, wins)
				relAll()
			}
		}
	case "cancel-keepup":
		// the context is cancelled while every consumer is receiving as fast as values come (a burst: the consumers are
		// started and the cancel is issued before anything else runs): the stage must still stop
		b := Cmd{C: "burst"}
		for _, o := range c.outName {
			b.Sub = append(b.Sub, Cmd{C: "recvall", O: o, D: 70})
		}
		b.Sub = append(b.Sub, Cmd{C: "cancel"})
		c.step(b, wins)
		closeAll()
		relAll()
		c.step(Cmd{C: "advance", D: big}, wins)
		relAll()
		c.step(Cmd{C: "advance", D: big}, wins)
		for _, o := range c.outName {
			for n := 0; n < 8 && c.enabled(Cmd{C: "recv", O: o}); n++ {
				c.step(Cmd{C: "recv", O: o}, wins)
				relAll()
			}
		}
	case "closewait":
		// close every input and keep every consumer parked in a receive; no cancel
		closeAll()
		for round := 0; round < 200 && !c.allSeen(); round++ {
			progress := len(*wins)
			relAll()
			for _, o := range c.outName {
				if c.enabled(Cmd{C: "recv", O: o}) {
					c.step(Cmd{C: "recv", O: o}, wins)
				}
			}
			closeAll()
			if len(*wins) == progress {
				c.step(Cmd{C: "advance", D: max(1, c.cfg.Freq, c.cfg.Interval)}, wins)
				if round > 20 {
					break
				}
			}
		}
	}
}

var weightsDefault = map[string]int{"send": 4, "close": 1, "recv": 4, "cancel": 1, "release": 4, "advance": 1, "burst": 2}

func (c *ctl) randomCmds(r *Random, wins *[]Window) {
	rng := rand.New(rand.NewSource(r.Seed))
	wt := r.Weights
	if wt == nil {
		wt = weightsDefault
	}
	for s := 0; s < r.Steps; s++ {
		var opts []Cmd
		add := func(cmd Cmd) {
			if c.enabled(cmd) {
				for k := 0; k < wt[cmd.C]; k++ {
					opts = append(opts, cmd)
				}
			}
		}
		for i := range c.ins {
			add(Cmd{C: "send", I: i})
			add(Cmd{C: "close", I: i})
		}
		for _, o := range c.outName {
			add(Cmd{C: "recv", O: o})
		}
		add(Cmd{C: "cancel"})
		c.mu.Lock()
		var pend []int
		for k := range c.gates {
			pend = append(pend, c.callArg[k])
		}
		c.mu.Unlock()
		sort.Ints(pend)
		for _, x := range pend {
			add(Cmd{C: "release", X: x})
		}
		add(Cmd{C: "advance", D: 1})
		if len(opts) == 0 {
			return
		}
		if wt["burst"] > 0 && rng.Intn(10) < wt["burst"] {
			// a burst of 2-4 of the currently possible moves (those that stop being possible on the way are dropped)
			b := Cmd{C: "burst"}
			for k := 2 + rng.Intn(3); k > 0; k-- {
				b.Sub = append(b.Sub, opts[rng.Intn(len(opts))])
			}
			c.step(b, wins)
			continue
		}
		c.step(opts[rng.Intn(len(opts))], wins)
	}
}

// teardown unblocks everything the harness owns so that the bubble can end.  It is not part of the trace.
func (c *ctl) teardown() {
	c.cancel()
	c.mu.Lock()
	for k, g := range c.gates {
		close(g)
		delete(c.gates, k)
	}
	c.cfg.Gate = false
	c.mu.Unlock()
	for _, x := range c.xins {
		if x != nil && x.drain != nil {
			go x.drain()
		}
	}
	for i := range c.ins {
		ch := c.ins[i]
		if ch == nil {
			continue // the library owns pipe.New's send side; a parked sender is released by the drain below or stays (leak report)
		}
		go func() {
			for range ch {
			}
		}()
	}
	synctest.Wait()
	for i, x := range c.xins {
		if x != nil && x.drain != nil && !c.inClosed[i] {
			x.close()
			c.inClosed[i] = true
		}
	}
	for i := range c.ins {
		if c.ins[i] != nil && !c.inClosed[i] {
			close(c.ins[i])
			c.inClosed[i] = true
		}
	}
	for _, o := range c.outName {
		rd := c.outs[o]
		go func() {
			for {
				if _, ok := rd(); !ok {
					return
				}
			}
		}()
	}
	time.Sleep(1000 * c.unit())
	synctest.Wait()
}

// Run executes one schedule against the real code and returns the recorded trace.
func Run(t *testing.T, s Sched) (tr Trace) {
	tr = Trace{ID: s.ID, Cfg: s.Cfg, Epilogue: s.Epilogue, Origin: s.Origin, Wins: []Window{}}
	defer func() {
		if r := recover(); r != nil {
			msg := fmt.Sprint(r)
			if strings.Contains(msg, "deadlock") {
				tr.Leak = msg // goroutines blocked forever even after teardown; the trace itself is complete
				return
			}
			panic(r)
		}
	}()
	synctest.Test(t, func(t *testing.T) {
		c := &ctl{cfg: s.Cfg, outs: map[string]func() (int, bool){}, outLen: map[string]func() int{},
			recvPend: map[string]bool{}, seen: map[string]bool{}, gates: map[int]chan struct{}{}, callArg: map[int]int{},
			failSet: map[int]bool{}, predSet: map[int]bool{}, start: time.Now()}
		c.ctx, c.cancel = context.WithCancel(context.Background())
		c.startTwin()
		c.start = time.Now()
		c.build()
		tr.Outs = c.outName
		// window 0: the stage has just been created
		synctest.Wait()
		w0 := Window{Cmd: Cmd{C: "init"}, Done: []Ev{}}
		c.mu.Lock()
		w0.Done = append(w0.Done, c.done...)
		c.done = c.done[:0]
		c.mu.Unlock()
		w0.Q = c.snapshot()
		tr.Wins = append(tr.Wins, w0)
		for _, cmd := range s.Cmds {
			c.step(cmd, &tr.Wins)
		}
		if s.Random != nil {
			c.randomCmds(s.Random, &tr.Wins)
		}
		c.epilogue(s.Epilogue, &tr.Wins)
		c.teardown()
		if c.twin != nil {
			c.twin.teardown()
		}
	})
	return tr
}
