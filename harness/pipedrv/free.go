package pipedrv

import (
	"context"
	"runtime"
	"sync/atomic"
	"time"
)

// RunFree executes a configuration outside a synctest bubble, on the real scheduler and the real clock: a second opinion on
// a schedule on which the bubble never came to rest (synctest.Wait does not return while a goroutine spins - or is blocked
// on a channel created outside the bubble, which is also what a process-wide pool or semaphore looks like).  The
// environment is the simplest one the statements speak about: every output has a consumer that keeps receiving, every
// input is offered in order and then closed (variant "drain"), or offered in part and then the context is cancelled and
// the inputs are closed (variant "cancel").  "At rest" is decided by the real clock: nothing observable has happened for
// `still`.  Windows recorded before that are marked busy (PipeTraceP: obs.quiet = FALSE).
// FreeQuota is the number of values after which a consumer of a free run stops receiving.
var FreeQuota = 3000

func RunFree(s Sched, variant string, still time.Duration) Trace {
	cfg := s.Cfg
	cfg.Gate, cfg.Twin = false, ""
	if cfg.UnitNs == 0 {
		cfg.UnitNs = int(2 * time.Millisecond)
	}
	tr := Trace{ID: s.ID, Cfg: cfg, Epilogue: "free-" + variant, Origin: s.Origin + "+free", Wins: []Window{}}
	c := &ctl{cfg: cfg, outs: map[string]func() (int, bool){}, outLen: map[string]func() int{},
		recvPend: map[string]bool{}, seen: map[string]bool{}, gates: map[int]chan struct{}{}, callArg: map[int]int{},
		failSet: map[int]bool{}, predSet: map[int]bool{}, start: time.Now(), free: true}
	c.ctx, c.cancel = context.WithCancel(context.Background())
	shared = nil
	c.build()
	tr.Outs = c.outName
	restless := false // things kept happening until the deadline (or more than is judged): no window is taken to be at rest
	cut := false      // more happened than is judged: what follows the judged prefix is dropped, in this window and in the later ones
	take := func() []Ev {
		c.mu.Lock()
		defer c.mu.Unlock()
		d := append([]Ev{}, c.done...)
		c.done = c.done[:0]
		if cut {
			return []Ev{}
		}
		if len(d) > 14000 {
			d = d[:14000] // a stage that never stops producing: a prefix of what happened is judged, nothing is taken to be at rest
			restless, cut = true, true
		}
		return d
	}
	nev := func() int { c.mu.Lock(); defer c.mu.Unlock(); return len(c.done) }
	closedOuts := func() int {
		c.mu.Lock()
		defer c.mu.Unlock()
		n := 0
		for _, e := range c.done {
			if e.E == "got" && !e.Ok {
				n++
			}
		}
		return n
	}
	// waits until every output is closed (true) or nothing has happened for `quiet` (false)
	rest := func(quiet time.Duration, base int) bool {
		last, at, t0 := nev(), time.Now(), time.Now()
		idle := 0
		for {
			if time.Since(t0) > 2*quiet+30*time.Second || nev() > 2000000 {
				restless = true
				return false
			}
			time.Sleep(20 * time.Millisecond)
			if base+closedOuts() >= len(c.outName) {
				// every output is closed: the goroutines that closed them are on their way out (deferred calls, the
				// return).  On a loaded machine that takes a moment: wait until none is left, two seconds at most
				// (a Throttling pacer legitimately stays until the cancel)
				time.Sleep(50 * time.Millisecond)
				for t1 := time.Now(); c.liveLib()-c.baseLive > 0 && time.Since(t1) < 2*time.Second; {
					time.Sleep(20 * time.Millisecond)
				}
				return true
			}
			if n := nev(); n != last {
				last, at = n, time.Now()
				idle = 0
			} else if time.Since(at) > quiet {
				return false
			} else if c.cancelled && c.liveLib()-c.baseLive <= 0 {
				// cancelled, no library goroutine left and nothing new in the log (seen three times in a row): nothing of the
				// library can move any more, whether or not a consumer is there to see the outputs closed
				if idle++; idle >= 3 {
					return false
				}
			} else {
				idle = 0
			}
		}
	}
	time.Sleep(20 * time.Millisecond)
	tr.Wins = append(tr.Wins, Window{Cmd: Cmd{C: "init"}, Done: take(), Q: c.snapshot(), Busy: true})

	sub := []Cmd{}
	for _, o := range c.outName {
		cmd := Cmd{C: "recvall", O: o, D: FreeQuota} // (a generator never stops by itself: its consumers do, after FreeQuota values)
		c.issue(&cmd)
		sub = append(sub, cmd)
	}
	nin := len(c.ins)
	issued := make([]atomic.Int32, nin)
	closed := make([]atomic.Bool, nin)
	sentBefore, closeLogged := make([]int, nin), make([]bool, nin)
	stop := make(chan struct{})
	for i := 0; i < nin && variant != "closecancel"; i++ {
		vals := c.inputVals(i)
		if variant == "cancel" {
			vals = vals[:(len(vals)+1)/2]
		}
		go func() {
			defer func() {
				if r := recover(); r != nil {
					c.emit(Ev{E: "sendpanic", I: i})
				}
			}()
			for _, v := range vals {
				select {
				case <-stop:
					return
				default:
				}
				issued[i].Add(1)
				c.rawSend(i, v)
				c.emit(Ev{E: "sent", I: i, V: v})
			}
			if variant == "drain" {
				c.rawClose(i)
				closed[i].Store(true)
			}
		}()
	}
	// what the environment has done so far: the sends that completed (and the closes), and - separately, because PipeTraceP
	// applies the commands of a window before its completions - the sends that are still waiting
	subs := func(ev []Ev) (done, pend []Cmd) {
		done = append([]Cmd{}, sub...)
		for i := 0; i < nin; i++ {
			vals := c.inputVals(i)
			n, k := int(issued[i].Load()), countSent(ev, i)
			for j := sentBefore[i]; j < sentBefore[i]+k; j++ {
				done = append(done, Cmd{C: "send", I: i, V: vals[j]})
			}
			sentBefore[i] += k
			if n > sentBefore[i] {
				pend = append(pend, Cmd{C: "send", I: i, V: vals[n-1]})
			}
			if closed[i].Load() && !closeLogged[i] {
				closeLogged[i] = true
				done = append(done, Cmd{C: "close", I: i})
			}
		}
		sub = nil
		return
	}
	generator := nin == 0
	if variant == "drain" && !generator {
		rest(still, 0)
		ev := take()
		q := c.snapshot()
		done, pend := subs(ev)
		tr.Wins = append(tr.Wins, Window{Cmd: Cmd{C: "burst", Sub: done}, Done: ev, Q: q, Busy: len(pend) > 0 || restless})
		if len(pend) > 0 {
			tr.Wins = append(tr.Wins, Window{Cmd: Cmd{C: "burst", Sub: pend}, Done: []Ev{}, Q: q, Busy: restless})
		}
	} else {
		// part of the input (or, for a generator, a few periods), then the cancel
		if generator {
			time.Sleep(12 * time.Duration(max(1, cfg.Freq)) * c.unit())
		} else if variant == "closecancel" {
			// what fits into the input buffers, the close by the sender and the cancel, back to back on one processor: the
			// stage, woken by the first send, finds values, the close and the cancel all waiting when it gets to run
			prev := runtime.GOMAXPROCS(1)
			for i := 0; i < nin; i++ {
				for _, v := range c.inputVals(i) {
					if !c.rawTrySend(i, v) {
						break
					}
					issued[i].Add(1)
					c.emit(Ev{E: "sent", I: i, V: v, K: -1})
				}
				c.rawClose(i)
				closed[i].Store(true)
			}
			ev := take()
			done, _ := subs(ev)
			tr.Wins = append(tr.Wins, Window{Cmd: Cmd{C: "burst", Sub: done}, Done: ev, Q: c.snapshot(), Busy: true})
			c.cancelled = true
			c.cancel()
			runtime.GOMAXPROCS(prev)
			rest(still, 0)
			last := take()
			tr.Wins = append(tr.Wins, Window{Cmd: Cmd{C: "burst", Sub: []Cmd{{C: "cancel"}}}, Done: last, Q: c.snapshot(), Busy: restless})
			return tr
		} else {
			rest(300*time.Millisecond, 0)
		}
		close(stop)
		time.Sleep(30 * time.Millisecond)
		// the log is cut and the context cancelled under the log's lock: everything in `ev` was logged before the cancel
		// (a generator delivers thousands of values in the time between two statements of this function; counted as
		// "delivered after the cancel" they would fail GenStops on a correct library)
		c.mu.Lock()
		ev := append([]Ev{}, c.done...)
		c.done = c.done[:0]
		if cut {
			ev = []Ev{}
		} else if len(ev) > 14000 {
			ev = ev[:14000]
			restless, cut = true, true
		}
		c.cancelled = true
		c.cancel()
		c.mu.Unlock()
		nclosed := 0
		for _, e := range ev {
			if e.E == "got" && !e.Ok {
				nclosed++
			}
		}
		done, pend := subs(ev)
		q := c.snapshot()
		tr.Wins = append(tr.Wins, Window{Cmd: Cmd{C: "burst", Sub: done}, Done: ev, Q: q, Busy: true})
		if len(pend) > 0 {
			tr.Wins = append(tr.Wins, Window{Cmd: Cmd{C: "burst", Sub: pend}, Done: []Ev{}, Q: q, Busy: true})
		}
		cs := []Cmd{{C: "cancel"}}
		if !c.libOwnsInput() {
			for i := 0; i < nin; i++ {
				// a sender may still be parked: it is released by the close only by panicking - let the stage take or drop it first
				func() {
					defer func() { recover() }()
					if !closed[i].Load() && int(issued[i].Load()) == sentBefore[i] {
						c.rawClose(i)
						closed[i].Store(true)
						cs = append(cs, Cmd{C: "close", I: i})
					}
				}()
			}
		}
		rest(still, nclosed)
		last := take()
		tr.Wins = append(tr.Wins, Window{Cmd: Cmd{C: "burst", Sub: cs}, Done: last, Q: c.snapshot(), Busy: restless})
	}
	return tr
}

func countSent(ev []Ev, i int) int {
	n := 0
	for _, e := range ev {
		if e.E == "sent" && e.I == i {
			n++
		}
	}
	return n
}
