package pipedrv

// VERIF_IN=<schedules.jsonl> VERIF_OUT=<traces.jsonl> [VERIF_START=n]
// Executes every schedule (from line VERIF_START on) against the real code.  Before each schedule a
// {"begin": id} line is flushed, so that a crash of the process (a panic in a library goroutine cannot be
// recovered) is attributed to the schedule that was running.
import (
	"encoding/json"
	"io"
	"log/slog"
	"os"
	"testing"
	"time"

	"verifharness/vio"
)

// VERIF_IN=<schedules.jsonl> VERIF_OUT=<traces.jsonl> VERIF_VARIANT=drain|cancel VERIF_STILL_S=n: the first schedule's
// configuration on the real scheduler and the real clock (free.go)
func TestFree(t *testing.T) {
	in := vio.Env("VERIF_IN", "")
	if in == "" {
		t.Skip()
	}
	slog.SetDefault(slog.New(slog.NewTextHandler(io.Discard, nil)))
	out, err := vio.Create(vio.Env("VERIF_OUT", ""))
	if err != nil {
		t.Fatal(err)
	}
	defer out.Close()
	first := true
	err = vio.ReadLines(in, func(b []byte) error {
		if !first {
			return nil
		}
		first = false
		var s Sched
		if err := json.Unmarshal(b, &s); err != nil {
			return err
		}
		FreeQuota = vio.EnvInt("VERIF_QUOTA", 3000)
		out.Put(RunFree(s, vio.Env("VERIF_VARIANT", "drain"), time.Duration(vio.EnvInt("VERIF_STILL_S", 30))*time.Second))
		out.Flush()
		return nil
	})
	if err != nil {
		t.Fatal(err)
	}
}

func TestSchedules(t *testing.T) {
	in := vio.Env("VERIF_IN", "")
	if in == "" {
		t.Skip()
	}
	slog.SetDefault(slog.New(slog.NewTextHandler(io.Discard, nil)))
	out, err := vio.Create(vio.Env("VERIF_OUT", ""))
	if err != nil {
		t.Fatal(err)
	}
	defer out.Close()
	start := vio.EnvInt("VERIF_START", 0)
	n := 0
	err = vio.ReadLines(in, func(b []byte) error {
		n++
		if n-1 < start {
			return nil
		}
		var s Sched
		if err := json.Unmarshal(b, &s); err != nil {
			return err
		}
		out.Put(map[string]any{"begin": s.ID, "line": n - 1})
		out.Flush()
		// watchdog (real time, outside the bubble): a schedule on which the library never comes to rest - a goroutine
		// spinning - would block synctest.Wait for ever; the schedule is reported as hung and the process restarts after it
		hung := func() {
			out.Put(map[string]any{"hang": s.ID, "line": n - 1})
			out.Flush()
			os.Exit(3)
		}
		wd := time.AfterFunc(time.Duration(vio.EnvInt("VERIF_HANG_S", 60))*time.Second, hung)
		Runaway = hung
		tr := Run(t, s)
		wd.Stop()
		out.Put(tr)
		out.Flush()
		return nil
	})
	if err != nil {
		t.Fatal(err)
	}
}
