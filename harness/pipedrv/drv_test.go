package pipedrv

// VERIF_IN=<schedules.jsonl> VERIF_OUT=<traces.jsonl> [VERIF_START=n]
// Executes every schedule (from line VERIF_START on) against the real code.  Before each schedule a
// {"begin": id} line is flushed, so that a crash of the process (a panic in a library goroutine cannot be
// recovered) is attributed to the schedule that was running.
import (
	"encoding/json"
	"io"
	"log/slog"
	"testing"

	"verifharness/vio"
)

func TestSchedules(t *testing.T) {
	in := vio.Env("VERIF_IN", "")
	if in == "" {
		t.Skip()
	}
	slog.SetDefault(slog.New(slog.NewTextHandler(io.Discard, nil)))
	out, err := vio.Create(vio.Env("VERIF_OUT", ""))
	if err != nil {
		t.Fatal(err)
	}
	defer out.Close()
	start := vio.EnvInt("VERIF_START", 0)
	n := 0
	err = vio.ReadLines(in, func(b []byte) error {
		n++
		if n-1 < start {
			return nil
		}
		var s Sched
		if err := json.Unmarshal(b, &s); err != nil {
			return err
		}
		out.Put(map[string]any{"begin": s.ID, "line": n - 1})
		out.Flush()
		tr := Run(t, s)
		out.Put(tr)
		out.Flush()
		return nil
	})
	if err != nil {
		t.Fatal(err)
	}
}
