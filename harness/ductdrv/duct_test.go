package ductdrv

// Conformance harness for github.com/fogfish/golem/duct (property C16).
//
// Go type parameters are static, so every combinator program printed by TLC (spec/seq/DuctGen.tla) is emitted as
// Go source by lib/fam_duct.py: one function per program that builds the morphism with the real combinators and
// returns it together with duct.TypeOf of the type parameters of every step.  The generated files register their
// programs in `programs`; this file (copied next to them into ./gen/ductprog/sNN) runs each program
//   - with a recording visitor that never fails, and
//   - with a visitor that fails at callback position k, for every k = 1..number of callbacks of the full visit,
// rebuilding the morphism for every visit (each intermediate morphism is used once), and writes what it observed
// as JSONL (VERIF_OUT).  Nothing is judged here: lib/fam_duct.py compares with TLC's expectation.
//
// In /verif/harness/ductdrv the table is the small hand-written one of programs_test.go (keeps the package
// buildable on its own: `VERIF_OUT=/dev/stdout go1.26 test -tags verif ./ductdrv`).

import (
	"encoding/json"
	"errors"
	"fmt"
	"runtime/debug"
	"testing"

	"github.com/fogfish/golem/duct"

	"verifharness/vio"
)

type applier interface{ Apply(duct.Visitor) error }

// step: what the program declared; A, B are duct.TypeOf of the Go type parameters that the step's node records
// (from: the source type; join, liftf: domain and codomain of the transformer; yield: the target type).
type step struct {
	Op string `json:"op"`
	A  string `json:"a"`
	B  string `json:"b"`
}

type program struct {
	ID    int
	Build func() (applier, []step)
}

var programs []program

func register(p ...program) { programs = append(programs, p...) }

// event: one callback as the visitor saw it; written as a JSON array
// [cb, kind, depth, typeA, typeB, payload, root, deferred, len(Seq)] to keep the output small.
type event struct {
	Cb   string // enter | leave
	Kind string // morphism | seq | map | from | yield
	D    int
	TA   string
	TB   string
	Pay  int  // Source / Target / F: the step number handed to L1 / L2 (-1: none, -2: something else)
	Root bool // AstSeq.Root
	Open bool // AstSeq.Deferred
	Len  int  // len(AstSeq.Seq)
}

func (e event) MarshalJSON() ([]byte, error) {
	return json.Marshal([]any{e.Cb, e.Kind, e.D, e.TA, e.TB, e.Pay, e.Root, e.Open, e.Len})
}

var errInjected = errors.New("verif: injected visitor failure")
var errRunaway = errors.New("verif: more than 100000 callbacks")

type recorder struct {
	failAt int
	trace  []event
}

func (r *recorder) on(e event) error {
	r.trace = append(r.trace, e)
	if len(r.trace) == r.failAt {
		return errInjected
	}
	if len(r.trace) > 100000 {
		return errRunaway
	}
	return nil
}

func pay(x any) int {
	switch v := x.(type) {
	case nil:
		return -1
	case int:
		return v
	}
	return -2
}

func seqEv(cb, kind string, d int, n duct.AstSeq) event {
	return event{Cb: cb, Kind: kind, D: d, Pay: -1, Root: n.Root, Open: n.Deferred, Len: len(n.Seq)}
}

func (r *recorder) OnEnterMorphism(d int, n duct.AstSeq) error {
	return r.on(seqEv("enter", "morphism", d, n))
}
func (r *recorder) OnLeaveMorphism(d int, n duct.AstSeq) error {
	return r.on(seqEv("leave", "morphism", d, n))
}
func (r *recorder) OnEnterSeq(d int, n duct.AstSeq) error { return r.on(seqEv("enter", "seq", d, n)) }
func (r *recorder) OnLeaveSeq(d int, n duct.AstSeq) error { return r.on(seqEv("leave", "seq", d, n)) }
func (r *recorder) OnEnterMap(d int, n duct.AstMap) error {
	return r.on(event{Cb: "enter", Kind: "map", D: d, TA: n.TypeA, TB: n.TypeB, Pay: pay(n.F)})
}
func (r *recorder) OnLeaveMap(d int, n duct.AstMap) error {
	return r.on(event{Cb: "leave", Kind: "map", D: d, TA: n.TypeA, TB: n.TypeB, Pay: pay(n.F)})
}
func (r *recorder) OnEnterFrom(d int, n duct.AstFrom) error {
	return r.on(event{Cb: "enter", Kind: "from", D: d, TA: n.Type, TB: n.Type, Pay: pay(n.Source)})
}
func (r *recorder) OnLeaveFrom(d int, n duct.AstFrom) error {
	return r.on(event{Cb: "leave", Kind: "from", D: d, TA: n.Type, TB: n.Type, Pay: pay(n.Source)})
}
func (r *recorder) OnEnterYield(d int, n duct.AstYield) error {
	return r.on(event{Cb: "enter", Kind: "yield", D: d, TA: n.Type, TB: n.Type, Pay: pay(n.Target)})
}
func (r *recorder) OnLeaveYield(d int, n duct.AstYield) error {
	return r.on(event{Cb: "leave", Kind: "yield", D: d, TA: n.Type, TB: n.Type, Pay: pay(n.Target)})
}

var _ duct.Visitor = (*recorder)(nil)

// visitRes: one visit.  Err: "nil" | "same" (the injected error itself) | "wrapped" (errors.Is) | "other: ..."
type visitRes struct {
	K     int     `json:"k"`
	Err   string  `json:"err"`
	Trace []event `json:"trace"`
	Panic string  `json:"panic,omitempty"`
}

type progRes struct {
	T     string     `json:"t"`
	ID    int        `json:"id"`
	Steps []step     `json:"steps"`
	Full  visitRes   `json:"full"`
	Fails []visitRes `json:"fails"`
}

func visit(p program, k int) (res visitRes, steps []step) {
	res.K = k
	rec := &recorder{failAt: k}
	defer func() {
		if r := recover(); r != nil {
			res.Panic = fmt.Sprintf("%v\n%s", r, debug.Stack())
			res.Trace = rec.trace
		}
	}()
	m, steps := p.Build()
	err := m.Apply(rec)
	res.Trace = rec.trace
	switch {
	case err == nil:
		res.Err = "nil"
	case err == errInjected:
		res.Err = "same"
	case errors.Is(err, errInjected):
		res.Err = "wrapped"
	default:
		res.Err = "other: " + err.Error()
	}
	return res, steps
}

func TestRun(t *testing.T) {
	path := vio.Env("VERIF_OUT", "")
	if path == "" {
		t.Skip("VERIF_OUT not set")
	}
	out, err := vio.Create(path)
	if err != nil {
		t.Fatal(err)
	}
	defer out.Close()
	visits := 0
	for _, p := range programs {
		pr := progRes{T: "prog", ID: p.ID}
		pr.Full, pr.Steps = visit(p, 0)
		visits++
		if pr.Full.Panic == "" {
			for k := 1; k <= len(pr.Full.Trace) && k <= 4000; k++ {
				r, _ := visit(p, k)
				pr.Fails = append(pr.Fails, r)
				visits++
			}
		}
		out.Put(pr)
	}
	out.Put(map[string]any{"t": "stats", "programs": len(programs), "visits": visits})
}
