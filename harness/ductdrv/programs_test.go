package ductdrv

// A hand-written table (the shapes of duct's own README / tests): used when this package is built on its own.
// lib/fam_duct.py does not copy this file; it generates prog_*_test.go with the programs printed by TLC.

import "github.com/fogfish/golem/duct"

func init() {
	register(
		program{ID: 1, Build: func() (applier, []step) {
			m1 := duct.From(duct.L1[int](1))
			m2 := duct.Join(duct.L2[int, string](2), m1)
			m3 := duct.Yield(duct.L1[string](3), m2)
			return m3, []step{
				{Op: "from", A: duct.TypeOf[int](), B: duct.TypeOf[int]()},
				{Op: "join", A: duct.TypeOf[int](), B: duct.TypeOf[string]()},
				{Op: "yield", A: duct.TypeOf[string](), B: duct.TypeOf[string]()},
			}
		}},
		program{ID: 2, Build: func() (applier, []step) {
			m1 := duct.From(duct.L1[int](1))
			m2 := duct.Join(duct.L2[int, []string](2), m1)
			m3 := duct.LiftF(duct.L2[string, []int](3), m2)
			m4 := duct.WrapF(m3)
			m5 := duct.Unit(m4)
			m6 := duct.Unit(m5)
			m7 := duct.Yield(duct.L1[[][]int](7), m6)
			return m7, []step{
				{Op: "from", A: duct.TypeOf[int](), B: duct.TypeOf[int]()},
				{Op: "join", A: duct.TypeOf[int](), B: duct.TypeOf[[]string]()},
				{Op: "liftf", A: duct.TypeOf[string](), B: duct.TypeOf[[]int]()},
				{Op: "wrapf"},
				{Op: "unit"},
				{Op: "unit"},
				{Op: "yield", A: duct.TypeOf[[][]int](), B: duct.TypeOf[[][]int]()},
			}
		}},
	)
}
