package skipdrv

// Conformance harness for internal/maplike/skiplist (property C18).
//
//	VERIF_MODE=replay  VERIF_IN=<cases.jsonl from SkipListGen>  VERIF_OUT=<results.jsonl>
//	    replays every witness history and every outgoing transition through the real list with the node
//	    heights chosen by TLC (hook NewWithSource) and compares with the expected values printed by TLC.
//	VERIF_MODE=random  VERIF_SEED=n VERIF_N=traces VERIF_OPS=ops VERIF_KEYS=k VERIF_OUT=<traces.jsonl>
//	    random histories on the unhooked constructor (real random heights); records every result and the
//	    parsed printed form after every operation, to be judged by TLC (SkipListTrace).
import (
	"bytes"
	"encoding/json"
	"fmt"
	"math"
	"math/rand"
	"os"
	"sort"
	"strings"
	"sync/atomic"
	"testing"
	"time"

	"github.com/fogfish/golem/maplike"
	"github.com/fogfish/golem/maplike/skiplist"
	"github.com/fogfish/golem/pure/ord"

	"verifharness/vio"
)

type op struct {
	Op  string `json:"op"`
	K   int    `json:"k"`
	V   int    `json:"v"`
	H   int    `json:"h"`
	Ret int    `json:"ret"`
}

type succPut struct {
	K, V, H, Ret int
	Form         [][2]json.RawMessage
	Live         [][2]int
}
type succRem struct {
	K, Ret int
	Form   [][2]json.RawMessage
	Live   [][2]int
}
type succGet struct{ K, Ret int }

type genCase struct {
	Hist []op                 `json:"hist"`
	Form [][2]json.RawMessage `json:"form"`
	Live [][2]int             `json:"live"`
	Succ struct {
		Put    []succPut `json:"put"`
		Remove []succRem `json:"remove"`
		Get    []succGet `json:"get"`
	} `json:"succ"`
}

type formNode struct {
	K int   `json:"k"`
	F []int `json:"f"`
}

func decodeForm(raw [][2]json.RawMessage) []formNode {
	out := make([]formNode, len(raw))
	for i, r := range raw {
		json.Unmarshal(r[0], &out[i].K)
		json.Unmarshal(r[1], &out[i].F)
	}
	return out
}

// ---------------------------------------------------------------------------- key spaces

// A keyspace maps the model's key index (1..n, ordered by the model's Lt) to a Go key and back.
type keyspace[K any] struct {
	name  string
	key   func(i int) K
	index map[string]int // printed key -> index
	cmp   ord.Ord[K]
}

func reverse[K any](o ord.Ord[K]) ord.Ord[K] {
	return ord.From[K](func(a, b K) ord.Ordering { return o.Compare(b, a) })
}

func intSpace(n int, desc bool) keyspace[int] {
	ks := keyspace[int]{name: "int", index: map[string]int{}}
	ks.key = func(i int) int { return 3*i - 7 }
	for i := 1; i <= n; i++ {
		ks.index[fmt.Sprint(ks.key(i))] = i
	}
	ks.cmp = ord.Int
	if desc {
		ks.cmp = reverse[int](ord.Int)
	}
	return ks
}

// integer keys around zero: key index 2 is the zero value of the key type (the value the head sentinel's key field holds)
func intZeroSpace(n int, desc bool) keyspace[int] {
	ks := keyspace[int]{name: "int-around-zero", index: map[string]int{}}
	ks.key = func(i int) int { return i - 2 }
	for i := 1; i <= n; i++ {
		ks.index[fmt.Sprint(ks.key(i))] = i
	}
	ks.cmp = ord.Int
	if desc {
		ks.cmp = reverse[int](ord.Int)
	}
	return ks
}

var words = []string{"A", "Zz", "a", "aa", "ab", "b", "ba", "bb", "c", "d", "da", "e", "f", "g", "h", "i", "j", "k", "l", "m", "n", "o", "p", "q", "z", "é", "éa", "世"}

func strSpace(n int, desc bool) keyspace[string] {
	tbl := append([]string{}, words...)
	sort.Strings(tbl)
	ks := keyspace[string]{name: "string", index: map[string]int{}}
	ks.key = func(i int) string { return tbl[i-1] }
	for i := 1; i <= n; i++ {
		ks.index[tbl[i-1]] = i
	}
	ks.cmp = ord.String
	if desc {
		ks.cmp = reverse[string](ord.String)
	}
	return ks
}

// by length, then lexicographic: a custom total order through ord.From
func lenSpace(n int, desc bool) keyspace[string] {
	tbl := append([]string{}, words...)
	less := func(a, b string) bool {
		if len(a) != len(b) {
			return len(a) < len(b)
		}
		return a < b
	}
	sort.Slice(tbl, func(i, j int) bool { return less(tbl[i], tbl[j]) })
	ks := keyspace[string]{name: "string-by-length", index: map[string]int{}}
	ks.key = func(i int) string { return tbl[i-1] }
	for i := 1; i <= n; i++ {
		ks.index[tbl[i-1]] = i
	}
	c := ord.From[string](func(a, b string) ord.Ordering {
		switch {
		case less(a, b):
			return ord.LT
		case less(b, a):
			return ord.GT
		}
		return ord.EQ
	})
	ks.cmp = c
	if desc {
		ks.cmp = reverse[string](c)
	}
	return ks
}

// keys of a type that cannot be compared with == (a struct holding a slice): only the comparison trait handed to New tells
// keys apart; a shortcut through == or through a map key panics at run time for such keys
type bkey struct{ b []byte }

func (k bkey) String() string { return string(k.b) }

func bytesSpace(n int, desc bool) keyspace[bkey] {
	tbl := append([]string{}, words...)
	sort.Strings(tbl)
	ks := keyspace[bkey]{name: "struct-with-slice", index: map[string]int{}}
	ks.key = func(i int) bkey { return bkey{b: []byte(tbl[i-1])} }
	for i := 1; i <= n; i++ {
		ks.index[tbl[i-1]] = i
	}
	c := ord.From[bkey](func(a, b bkey) ord.Ordering { return ord.Ordering(bytes.Compare(a.b, b.b)) })
	ks.cmp = c
	if desc {
		ks.cmp = reverse[bkey](c)
	}
	return ks
}

// ---------------------------------------------------------------------------- injected heights

// heightSource makes mkNode draw the height the model chose.  It mirrors the documented probability table
// (p^0, p^1, ... with p = 1/e): a height h node needs a variate in [p^h, p^(h-1)).
type heightSource struct{ h int }

func (s *heightSource) Int63() int64 {
	p := 1 / math.E
	hi := math.Pow(p, float64(s.h-1))
	lo := math.Pow(p, float64(s.h))
	return int64((hi + lo) / 2 * (1 << 63))
}
func (s *heightSource) Seed(int64) {}

var _ rand.Source = (*heightSource)(nil)

// ---------------------------------------------------------------------------- printed form

// parseForm turns String() into the model's form: head first (key index 0), fingers as key indices, -1 = nil.
// ok=false when the text cannot be understood (reported as a harness problem, never as a violation).
func parseForm[K any](ks keyspace[K], s string, levels int) ([]formNode, bool) {
	lines := strings.Split(strings.TrimRight(s, "\n"), "\n")
	if len(lines) < 2 || !strings.HasPrefix(lines[0], "--- SkipList") {
		return nil, false
	}
	var out []formNode
	for i, ln := range lines[1:] {
		if !strings.HasPrefix(ln, "{") || !strings.HasSuffix(ln, "}") {
			return nil, false
		}
		body := ln[1 : len(ln)-1]
		parts := strings.SplitN(body, "\t| ", 2)
		if len(parts) != 2 {
			return nil, false
		}
		n := formNode{F: []int{}}
		if i > 0 {
			idx, ok := ks.index[parts[0]]
			if !ok {
				return nil, false
			}
			n.K = idx
		}
		for _, f := range strings.Fields(parts[1]) {
			if f == "nil" {
				n.F = append(n.F, -1)
				continue
			}
			idx, ok := ks.index[f]
			if !ok {
				return nil, false
			}
			n.F = append(n.F, idx)
		}
		if i == 0 && levels > 0 {
			// the real head has more levels than the model explores: the extra ones are nil as long as the heights are the
			// ones the replay asked for; if they are not (the height generator changed) the head is left as it is: the
			// finger structure then differs from the model's (drift), the property predicates do not depend on heights
			extra := false
			for _, f := range n.F[min(levels, len(n.F)):] {
				if f != -1 {
					extra = true
				}
			}
			if !extra {
				n.F = n.F[:min(levels, len(n.F))]
			}
		}
		out = append(out, n)
	}
	return out, true
}

func formEq(a, b []formNode) bool {
	if len(a) != len(b) {
		return false
	}
	for i := range a {
		if a[i].K != b[i].K || len(a[i].F) != len(b[i].F) {
			return false
		}
		for j := range a[i].F {
			if a[i].F[j] != b[i].F[j] {
				return false
			}
		}
	}
	return true
}

// ---------------------------------------------------------------------------- replay (spec -> impl)

type finding struct {
	T     string `json:"t"` // "pviol" | "drift" | "harness"
	Space string `json:"space"`
	Case  int    `json:"case"`
	Hist  []op   `json:"hist"`
	Last  *op    `json:"last,omitempty"`
	Pred  string `json:"pred"`
	Want  any    `json:"want"`
	Got   any    `json:"got"`
}

var nkeys int

type stats struct {
	Cases, Transitions, Ops int
}

// judge compares one observation with the model's expectation: P-level mismatches are violations,
// the exact finger structure is I-level (drift).
func judge[K any](ks keyspace[K], desc bool, list maplike.MapLike[K, int], levels int, wantForm []formNode, wantLive [][2]int,
	emit func(level, pred string, want, got any)) {
	got, ok := parseForm(ks, fmt.Sprint(list), levels)
	if !ok {
		if txt := strings.TrimSpace(fmt.Sprint(list)); !strings.Contains(txt, "\n") && len(wantLive) > 0 {
			// nothing but the header line although keys are live: whatever the format, the live keys are not listed
			emit("pviol", "FormAscending", wantLive, txt)
			return
		}
		emit("harness", "printed form not parsable", nil, fmt.Sprint(list))
		return
	}
	// P: printed keys are exactly the live keys in strictly ascending order
	keys := []int{}
	for _, n := range got[1:] {
		keys = append(keys, n.K)
	}
	want := []int{}
	for _, kv := range wantLive {
		want = append(want, kv[0])
	}
	if fmt.Sprint(keys) != fmt.Sprint(want) {
		emit("pviol", "FormAscending", want, keys)
	}
	// P: forward pointers only to larger keys (key indices are numbered in the order of the trait, reversed for desc)
	larger := func(a, b int) bool {
		if desc {
			return a < b
		}
		return a > b
	}
	for _, n := range got[1:] {
		for _, f := range n.F {
			if f != -1 && !larger(f, n.K) {
				emit("pviol", "FormForwardOnly", "pointer to a larger key", fmt.Sprintf("%d -> %d", n.K, f))
			}
		}
	}
	// P: the map content
	for _, kv := range wantLive {
		if v := list.Get(ks.key(kv[0])); v != kv[1] {
			emit("pviol", "MapContent", kv, v)
		}
	}
	if !formEq(got, wantForm) {
		emit("drift", "Form", wantForm, got)
	}
}

// A map operation on a handful of keys takes microseconds.  The watchdog reports the history and the operation that has not
// returned within VERIF_OP_TIMEOUT_S (default 30) seconds as a finding of its own (Terminates) and ends the process with
// status 3: "answers like an ordinary map" includes answering at all.
type inFlight struct {
	space string
	ci    int
	hist  []op
	last  *op
}

var (
	current atomic.Pointer[inFlight]
	beat    atomic.Int64
)

func mark(space string, ci int, hist []op, last *op) {
	current.Store(&inFlight{space, ci, hist, last})
	beat.Add(1)
}

func watchdog(out *vio.Out) {
	limit := time.Duration(vio.EnvInt("VERIF_OP_TIMEOUT_S", 30)) * time.Second
	go func() {
		seen, since := beat.Load(), time.Now()
		for {
			time.Sleep(500 * time.Millisecond)
			if b := beat.Load(); b != seen {
				seen, since = b, time.Now()
				continue
			}
			if c := current.Load(); c != nil && time.Since(since) > limit {
				out.Put(finding{T: "pviol", Space: c.space, Case: c.ci, Hist: c.hist, Last: c.last, Pred: "Terminates", Want: "the operation returns", Got: fmt.Sprintf("no return within %v", limit)})
				out.Flush()
				os.Exit(3)
			}
		}
	}()
}

func replaySpace[K any](ks keyspace[K], desc bool, cases []genCase, levels int, out *vio.Out, st *stats) {
	for ci, c := range cases {
		mark(ks.name, ci, c.Hist, nil)
		build := func() (maplike.MapLike[K, int], *heightSource) {
			src := &heightSource{h: 1}
			l := skiplist.NewWithSource[K, int](ks.cmp, src)
			for _, o := range c.Hist {
				st.Ops++
				switch o.Op {
				case "put":
					src.h = o.H
					l.Put(ks.key(o.K), o.V)
				case "remove":
					if r := l.Remove(ks.key(o.K)); r != o.Ret {
						out.Put(finding{T: "pviol", Space: ks.name, Case: ci, Hist: c.Hist, Last: &o, Pred: "RemoveResult", Want: o.Ret, Got: r})
					}
				}
			}
			return l, src
		}
		var last *op
		emit := func(level, pred string, want, got any) {
			out.Put(finding{T: level, Space: ks.name, Case: ci, Hist: c.Hist, Last: last, Pred: pred, Want: want, Got: got})
		}
		l, _ := build()
		judge(ks, desc, l, levels, decodeForm(c.Form), c.Live, emit)
		st.Cases++
		for _, s := range c.Succ.Put {
			l, src := build()
			last = &op{Op: "put", K: s.K, V: s.V, H: s.H}
			mark(ks.name, ci, c.Hist, last)
			src.h = s.H
			if r := l.Put(ks.key(s.K), s.V); r != l {
				emit("drift", "PutReturnsReceiver", "same list", "another value")
			}
			judge(ks, desc, l, levels, decodeForm(s.Form), s.Live, emit)
			st.Transitions++
		}
		for _, s := range c.Succ.Remove {
			l, _ := build()
			last = &op{Op: "remove", K: s.K}
			mark(ks.name, ci, c.Hist, last)
			if r := l.Remove(ks.key(s.K)); r != s.Ret {
				emit("pviol", "RemoveResult", s.Ret, r)
			}
			judge(ks, desc, l, levels, decodeForm(s.Form), s.Live, emit)
			st.Transitions++
		}
		if len(c.Succ.Put) == 0 {
			// history enumeration: the final state was judged above; all keys must answer like the map
			inLive := map[int]int{}
			for _, kv := range c.Live {
				inLive[kv[0]] = kv[1]
			}
			for k := 1; k <= nkeys; k++ {
				if r := l.Get(ks.key(k)); r != inLive[k] {
					emit("pviol", "GetResult", inLive[k], r)
				}
			}
			continue
		}
		l, _ = build()
		for _, s := range c.Succ.Get {
			last = &op{Op: "get", K: s.K}
			mark(ks.name, ci, c.Hist, last)
			if r := l.Get(ks.key(s.K)); r != s.Ret {
				emit("pviol", "GetResult", s.Ret, r)
			}
			st.Transitions++
		}
		last = nil
		// Get must not change anything
		judge(ks, desc, l, levels, decodeForm(c.Form), c.Live, emit)
	}
}

func TestReplay(t *testing.T) {
	if vio.Env("VERIF_MODE", "") != "replay" {
		t.Skip()
	}
	var cases []genCase
	maxKey := 0
	err := vio.ReadLines(vio.Env("VERIF_IN", ""), func(b []byte) error {
		var c genCase
		if err := json.Unmarshal(b, &c); err != nil {
			return err
		}
		for _, s := range c.Succ.Put {
			maxKey = max(maxKey, s.K)
		}
		for _, o := range c.Hist {
			maxKey = max(maxKey, o.K)
		}
		cases = append(cases, c)
		return nil
	})
	if err != nil {
		t.Fatal(err)
	}
	out, err := vio.Create(vio.Env("VERIF_OUT", ""))
	if err != nil {
		t.Fatal(err)
	}
	defer out.Close()
	levels := vio.EnvInt("VERIF_LEVELS", 3)
	desc := vio.Env("VERIF_ORDER", "asc") == "desc"
	st := &stats{}
	nkeys = maxKey
	watchdog(out)
	replaySpace(intSpace(maxKey, desc), desc, cases, levels, out, st)
	replaySpace(intZeroSpace(maxKey, desc), desc, cases, levels, out, st)
	replaySpace(strSpace(maxKey, desc), desc, cases, levels, out, st)
	replaySpace(lenSpace(maxKey, desc), desc, cases, levels, out, st)
	replaySpace(bytesSpace(maxKey, desc), desc, cases, levels, out, st)
	tallNodes(intSpace(max(maxKey, 3), desc), desc, max(maxKey, 3), out, st)
	tallNodes(strSpace(max(maxKey, 3), desc), desc, max(maxKey, 3), out, st)
	out.Put(map[string]any{"t": "stats", "cases": st.Cases, "transitions": st.Transitions, "ops": st.Ops})
}

// ---------------------------------------------------------------------------- extreme heights

// rawSource hands mkNode a chosen variate: 0 gives the tallest node the list can make, 1<<62 a node of height 1.
type rawSource struct{ v int64 }

func (s *rawSource) Int63() int64 { return s.v }
func (s *rawSource) Seed(int64)   {}

// tallNodes drives histories in which some nodes get the maximal height (the variate 0): results and the printed keys must
// still be those of an ordered map (P level; the exact number of levels is the implementation's business).
func tallNodes[K any](ks keyspace[K], desc bool, n int, out *vio.Out, st *stats) {
	for pat := 0; pat < 1<<uint(min(n, 4)); pat++ {
		var hist []op
		func() {
			defer func() {
				if r := recover(); r != nil {
					out.Put(finding{T: "pviol", Space: ks.name, Hist: hist, Pred: "Panic", Want: "no panic", Got: fmt.Sprint(r)})
				}
			}()
			src := &rawSource{}
			l := skiplist.NewWithSource[K, int](ks.cmp, src)
			ref := map[int]int{}
			do := func(o op) {
				hist = append(hist, o)
				st.Ops++
				switch o.Op {
				case "put":
					l.Put(ks.key(o.K), o.V)
					ref[o.K] = o.V
				case "remove":
					if r := l.Remove(ks.key(o.K)); r != ref[o.K] {
						out.Put(finding{T: "pviol", Space: ks.name, Hist: hist, Pred: "RemoveResult", Want: ref[o.K], Got: r})
					}
					delete(ref, o.K)
				}
				for k := 1; k <= n; k++ {
					if r := l.Get(ks.key(k)); r != ref[k] {
						out.Put(finding{T: "pviol", Space: ks.name, Hist: hist, Pred: "GetResult", Want: ref[k], Got: r})
					}
				}
			}
			for k := 1; k <= n; k++ {
				src.v = 1 << 62
				if pat&(1<<uint((k-1)%4)) != 0 {
					src.v = 0 // the tallest possible node
				}
				do(op{Op: "put", K: (k*2)%n + 1, V: k})
			}
			do(op{Op: "remove", K: 1})
			src.v = 0
			do(op{Op: "put", K: 1, V: 9})
			do(op{Op: "remove", K: 2})
			do(op{Op: "remove", K: 1})
			st.Cases++
		}()
	}
}

// ---------------------------------------------------------------------------- random (impl -> spec)

type step struct {
	Op   string  `json:"op"`
	K    int     `json:"k"`
	V    int     `json:"v"`
	Ret  int     `json:"ret"`
	Form [][]any `json:"form"`
}

func formJ(f []formNode) [][]any {
	out := make([][]any, len(f))
	for i, n := range f {
		out[i] = []any{n.K, n.F}
	}
	return out
}

func randomSpace[K any](ks keyspace[K], order string, rng *rand.Rand, nkeys, nops int, out *vio.Out) {
	l := skiplist.New[K, int](ks.cmp)
	steps := []step{}
	maxh := 1
	bad := ""
	for i := 0; i < nops; i++ {
		k := 1 + rng.Intn(nkeys)
		s := step{K: k}
		mark(ks.name+"/"+order+"/random", i, nil, &op{Op: "operation", K: k})
		switch r := rng.Intn(10); {
		case r < 5:
			s.Op, s.V = "put", 1+rng.Intn(3)
			l.Put(ks.key(k), s.V)
		case r < 8:
			s.Op = "remove"
			s.Ret = l.Remove(ks.key(k))
		default:
			s.Op = "get"
			s.Ret = l.Get(ks.key(k))
		}
		f, ok := parseForm(ks, fmt.Sprint(l), 0)
		if !ok {
			bad = fmt.Sprint(l)
			break
		}
		// trim the head to the highest level in use (+1 so that "nothing above" is visible)
		top := 0
		for _, n := range f[1:] {
			top = max(top, len(n.F))
		}
		for j, x := range f[0].F {
			if x != -1 {
				top = max(top, j+1)
			}
		}
		maxh = max(maxh, top)
		s.Form = formJ(f)
		steps = append(steps, s)
	}
	// normalise every head to maxh fingers
	for i := range steps {
		hf := steps[i].Form[0][1].([]int)
		steps[i].Form[0][1] = hf[:min(maxh, len(hf))]
	}
	out.Put(map[string]any{"space": ks.name, "order": order, "keys": nkeys, "levels": maxh, "steps": steps, "unparsable": bad})
}

func TestRandom(t *testing.T) {
	if vio.Env("VERIF_MODE", "") != "random" {
		t.Skip()
	}
	out, err := vio.Create(vio.Env("VERIF_OUT", ""))
	if err != nil {
		t.Fatal(err)
	}
	defer out.Close()
	watchdog(out)
	rng := rand.New(rand.NewSource(int64(vio.EnvInt("VERIF_SEED", 1))))
	n := vio.EnvInt("VERIF_N", 20)
	for i := 0; i < n; i++ {
		nkeys := 3 + rng.Intn(vio.EnvInt("VERIF_KEYS", 12))
		nops := 20 + rng.Intn(vio.EnvInt("VERIF_OPS", 200))
		desc := rng.Intn(2) == 1
		order := "asc"
		if desc {
			order = "desc"
		}
		switch i % 5 {
		case 4:
			randomSpace(bytesSpace(nkeys, desc), order, rng, nkeys, nops, out)
		case 3:
			randomSpace(intZeroSpace(nkeys, desc), order, rng, nkeys, nops, out)
		case 0:
			randomSpace(intSpace(nkeys, desc), order, rng, nkeys, nops, out)
		case 1:
			randomSpace(strSpace(nkeys, desc), order, rng, nkeys, nops, out)
		default:
			randomSpace(lenSpace(nkeys, desc), order, rng, nkeys, nops, out)
		}
	}
}
