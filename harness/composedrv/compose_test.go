package composedrv

// Conformance harness for internal/pipe (staged as github.com/fogfish/golem/purepipe), property C20.
//
//	VERIF_MODE=replay  VERIF_IN=<cases.jsonl printed by ComposeMC>  VERIF_OUT=<traces.jsonl>
//	    for every case (family, N, argument, expected value) builds N logging functions f_1..f_N of the
//	    model's family, hands them to the real Pipe / PipeN, invokes the returned function (twice: the
//	    composition must be reusable) and records every call (i, arg, res) made between the call of PipeN
//	    itself and the return of the composed function, plus the returned value.
//	VERIF_MODE=random  VERIF_SEED=s VERIF_N=k VERIF_OUT=<traces.jsonl>
//	    the same with seeded random arguments (no expected value: TLC judges the trace).
//
// Families (Compose.tla): "arith" on int, "seq" on []int, and the boxed families on `any` ("anyhist", "anyspecial") and
// on `error` ("errhist", "errspecial"): error values, nil, typed nil pointers, NaN, zero values travel through the stages
// as ordinary data.
//
// The functions are supplied as func(T) T for one T, and the type arguments of PipeN are inferred, so the
// harness still builds when somebody merges type parameters of a PipeN.
import (
	"encoding/json"
	"fmt"
	"math"
	"math/rand"
	"sync"
	"testing"

	pipe "github.com/fogfish/golem/purepipe"

	"verifharness/vio"
)

const mod = 1000003 // Compose.tla: Mod

type call struct {
	I   int `json:"i"`
	Arg any `json:"arg"`
	Res any `json:"res"`
}

type trace struct {
	Fam    string          `json:"fam"`
	N      int             `json:"n"`
	A      any             `json:"a"`
	Calls  []call          `json:"calls"`
	Ret    any             `json:"ret"`
	Want   json.RawMessage `json:"want,omitempty"`
	Second bool            `json:"second"`
	Conc   int             `json:"conc,omitempty"` // > 0: one of that many invocations of the same composed function running at once
	Panic  string          `json:"panic,omitempty"`
}

func compose[T any](n int, f []func(T) T) func(T) T {
	switch n {
	case 2:
		return pipe.Pipe(f[0], f[1])
	case 3:
		return pipe.Pipe3(f[0], f[1], f[2])
	case 4:
		return pipe.Pipe4(f[0], f[1], f[2], f[3])
	case 5:
		return pipe.Pipe5(f[0], f[1], f[2], f[3], f[4])
	case 6:
		return pipe.Pipe6(f[0], f[1], f[2], f[3], f[4], f[5])
	case 7:
		return pipe.Pipe7(f[0], f[1], f[2], f[3], f[4], f[5], f[6])
	case 8:
		return pipe.Pipe8(f[0], f[1], f[2], f[3], f[4], f[5], f[6], f[7])
	case 9:
		return pipe.Pipe9(f[0], f[1], f[2], f[3], f[4], f[5], f[6], f[7], f[8])
	case 10:
		return pipe.Pipe10(f[0], f[1], f[2], f[3], f[4], f[5], f[6], f[7], f[8], f[9])
	case 11:
		return pipe.Pipe11(f[0], f[1], f[2], f[3], f[4], f[5], f[6], f[7], f[8], f[9], f[10])
	case 12:
		return pipe.Pipe12(f[0], f[1], f[2], f[3], f[4], f[5], f[6], f[7], f[8], f[9], f[10], f[11])
	case 13:
		return pipe.Pipe13(f[0], f[1], f[2], f[3], f[4], f[5], f[6], f[7], f[8], f[9], f[10], f[11], f[12])
	case 14:
		return pipe.Pipe14(f[0], f[1], f[2], f[3], f[4], f[5], f[6], f[7], f[8], f[9], f[10], f[11], f[12], f[13])
	case 15:
		return pipe.Pipe15(f[0], f[1], f[2], f[3], f[4], f[5], f[6], f[7], f[8], f[9], f[10], f[11], f[12], f[13], f[14])
	case 16:
		return pipe.Pipe16(f[0], f[1], f[2], f[3], f[4], f[5], f[6], f[7], f[8], f[9], f[10], f[11], f[12], f[13], f[14], f[15])
	case 17:
		return pipe.Pipe17(f[0], f[1], f[2], f[3], f[4], f[5], f[6], f[7], f[8], f[9], f[10], f[11], f[12], f[13], f[14], f[15], f[16])
	case 18:
		return pipe.Pipe18(f[0], f[1], f[2], f[3], f[4], f[5], f[6], f[7], f[8], f[9], f[10], f[11], f[12], f[13], f[14], f[15], f[16], f[17])
	case 19:
		return pipe.Pipe19(f[0], f[1], f[2], f[3], f[4], f[5], f[6], f[7], f[8], f[9], f[10], f[11], f[12], f[13], f[14], f[15], f[16], f[17], f[18])
	case 20:
		return pipe.Pipe20(f[0], f[1], f[2], f[3], f[4], f[5], f[6], f[7], f[8], f[9], f[10], f[11], f[12], f[13], f[14], f[15], f[16], f[17], f[18], f[19])
	}
	panic(fmt.Sprintf("harness: no Pipe of arity %d", n))
}

// arith: F[i](x) = (x*(i*i+1) + 2*i+1) % Mod
func arithFns(n int, log *[]call) []func(int) int {
	fs := make([]func(int) int, n)
	for i := 1; i <= n; i++ {
		fs[i-1] = func(x int) int {
			r := (x*(i*i+1) + 2*i + 1) % mod
			*log = append(*log, call{I: i, Arg: x, Res: r})
			return r
		}
	}
	return fs
}

// seq: F[i](x) = Append(x, i); every result is a fresh slice (no aliasing inside the harness)
func seqFns(n int, log *[]call) []func([]int) []int {
	fs := make([]func([]int) []int, n)
	for i := 1; i <= n; i++ {
		fs[i-1] = func(x []int) []int {
			r := make([]int, 0, len(x)+1)
			r = append(append(r, x...), i)
			*log = append(*log, call{I: i, Arg: append([]int{}, x...), Res: append([]int{}, r...)})
			return r
		}
	}
	return fs
}

func runOne[T any](fam string, n int, a T, cp func(T) any, fns func(int, *[]call) []func(T) T, want json.RawMessage, out *vio.Out) int {
	log := []call{}
	var g func(T) T
	emitted := 0
	invoke := func(second bool) {
		t := trace{Fam: fam, N: n, A: cp(a), Want: want, Second: second}
		func() {
			defer func() {
				if r := recover(); r != nil {
					t.Panic = fmt.Sprint(r)
				}
			}()
			if g == nil {
				g = compose(n, fns(n, &log)) // calls made while composing stay in the log of the first invocation
			}
			t.Ret = cp(g(a))
		}()
		t.Calls = append([]call{}, log...)
		log = log[:0]
		out.Put(t)
		emitted++
	}
	invoke(false)
	if g != nil {
		invoke(true)
	}
	return emitted
}

// ---------------------------------------------------------------------------- boxed values (Compose.tla: <<kind, payload...>>)

// histErr is an error that records the history of the stages it went through; every stage returns a NEW one.
type histErr struct{ tags []int }

func (e *histErr) Error() string {
	if e == nil {
		return "<nil *histErr>"
	}
	return fmt.Sprint("hist", e.tags)
}

// noteErr is an error by value
type noteErr struct{ v int }

func (n noteErr) Error() string { return fmt.Sprint("note", n.v) }

func encodeBox(x any) []int {
	switch v := x.(type) {
	case nil:
		return []int{0}
	case *histErr:
		if v == nil {
			return []int{6}
		}
		return append([]int{1}, v.tags...)
	case int:
		return []int{2, v}
	case string:
		if v == "" {
			return []int{3}
		}
	case float64:
		if math.IsNaN(v) {
			return []int{4}
		}
	case *int:
		if v == nil {
			return []int{5}
		}
	case noteErr:
		return []int{7, v.v}
	case struct{}:
		return []int{8}
	}
	return []int{-1} // not a value of the model: whatever made it shows up in the judgement
}

func decodeBox(enc []int) any {
	switch enc[0] {
	case 0:
		return nil
	case 1:
		return &histErr{tags: append([]int{}, enc[1:]...)}
	case 2:
		return enc[1]
	case 3:
		return ""
	case 4:
		return math.NaN()
	case 5:
		return (*int)(nil)
	case 6:
		return (*histErr)(nil)
	case 7:
		return noteErr{enc[1]}
	case 8:
		return struct{}{}
	}
	panic(fmt.Sprint("harness: not a boxed value ", enc))
}

func asAny(v any) any { return v }
func asError(v any) error {
	if v == nil {
		return nil
	}
	return v.(error)
}

var anyKinds = []int{0, 5, 4, 3, 6, 7, 2, 8, 1} // Compose.tla: AnyKinds
var errKinds = []int{0, 6, 7, 1}                // Compose.tla: ErrKinds

// hist families: F[i](x) = a new non-nil *histErr with the history of x followed by i
func histFns[T any](conv func(any) T) func(int, *[]call) []func(T) T {
	return func(n int, log *[]call) []func(T) T {
		fs := make([]func(T) T, n)
		for i := 1; i <= n; i++ {
			fs[i-1] = func(x T) T {
				enc := encodeBox(any(x))
				h := enc[1:]
				if enc[0] != 1 {
					h = append([]int{100 + enc[0]}, enc[1:]...)
				}
				r := &histErr{tags: append(append([]int{}, h...), i)}
				*log = append(*log, call{I: i, Arg: enc, Res: encodeBox(r)})
				return conv(r)
			}
		}
		return fs
	}
}

// special families: F[i](x) = the special value number (i + kind of x) of the cycle
func specialFns[T any](kinds []int, conv func(any) T) func(int, *[]call) []func(T) T {
	return func(n int, log *[]call) []func(T) T {
		fs := make([]func(T) T, n)
		for i := 1; i <= n; i++ {
			fs[i-1] = func(x T) T {
				enc := encodeBox(any(x))
				kd := kinds[(i+enc[0])%len(kinds)]
				res := []int{kd}
				switch kd {
				case 7:
					res = []int{7, i}
				case 2:
					res = []int{2, 0}
				case 1:
					res = []int{1, i}
				}
				r := decodeBox(res)
				*log = append(*log, call{I: i, Arg: enc, Res: encodeBox(r)})
				return conv(r)
			}
		}
		return fs
	}
}

func cpAny(x any) any     { return encodeBox(x) }
func cpError(x error) any { return encodeBox(any(x)) }

// runBoxed runs one case of a boxed family; ok=false: not a boxed family
func runBoxed(fam string, n int, enc []int, want json.RawMessage, out *vio.Out) (int, bool) {
	switch fam {
	case "anyhist":
		return runOne(fam, n, decodeBox(enc), cpAny, histFns(asAny), want, out), true
	case "errhist":
		return runOne(fam, n, asError(decodeBox(enc)), cpError, histFns(asError), want, out), true
	case "anyspecial":
		return runOne(fam, n, decodeBox(enc), cpAny, specialFns(anyKinds, asAny), want, out), true
	case "errspecial":
		return runOne(fam, n, asError(decodeBox(enc)), cpError, specialFns(errKinds, asError), want, out), true
	}
	return 0, false
}

func cpInt(x int) any { return x }
func cpSeq(x []int) any {
	return append([]int{}, x...)
}

// concurrent runs one composed function of arity n from k goroutines at once: the functions handed to PipeN are pure, so
// the composed function is, and every invocation must be exactly what it is alone.  Family "seq" (F[i](x) = Append(x, i)):
// goroutine g passes the argument [100+g], so every value of its invocation starts with 100+g and the shared call log
// (written under a lock) can be split into one trace per invocation.
func concurrent(n, k, rounds int, out *vio.Out) int {
	var mu sync.Mutex
	log := []call{}
	fs := make([]func([]int) []int, n)
	for i := 1; i <= n; i++ {
		fs[i-1] = func(x []int) []int {
			r := make([]int, 0, len(x)+1)
			r = append(append(r, x...), i)
			mu.Lock()
			log = append(log, call{I: i, Arg: append([]int{}, x...), Res: append([]int{}, r...)})
			mu.Unlock()
			return r
		}
	}
	var g func([]int) []int
	panicked := ""
	func() {
		defer func() {
			if r := recover(); r != nil {
				panicked = fmt.Sprint(r)
			}
		}()
		g = compose(n, fs)
	}()
	if g == nil {
		out.Put(trace{Fam: "seq", N: n, A: []int{100}, Calls: []call{}, Panic: panicked, Conc: k})
		return 1
	}
	emitted := 0
	for round := 0; round < rounds; round++ {
		log = log[:0]
		rets := make([]any, k)
		pans := make([]string, k)
		var start, done sync.WaitGroup
		start.Add(1)
		for gi := 0; gi < k; gi++ {
			done.Add(1)
			go func() {
				defer done.Done()
				defer func() {
					if r := recover(); r != nil {
						pans[gi] = fmt.Sprint(r)
					}
				}()
				start.Wait()
				rets[gi] = cpSeq(g([]int{100 + gi}))
			}()
		}
		start.Done()
		done.Wait()
		for gi := 0; gi < k; gi++ {
			t := trace{Fam: "seq", N: n, A: []int{100 + gi}, Calls: []call{}, Ret: rets[gi], Panic: pans[gi], Conc: k}
			for _, c := range log {
				if a := c.Arg.([]int); len(a) > 0 && a[0] == 100+gi {
					t.Calls = append(t.Calls, c)
				}
			}
			out.Put(t)
			emitted++
		}
	}
	return emitted
}

type genCase struct {
	Fam  string          `json:"fam"`
	N    int             `json:"n"`
	A    json.RawMessage `json:"a"`
	Want json.RawMessage `json:"want"`
}

func TestReplay(t *testing.T) {
	if vio.Env("VERIF_MODE", "") != "replay" {
		t.Skip()
	}
	out, err := vio.Create(vio.Env("VERIF_OUT", ""))
	if err != nil {
		t.Fatal(err)
	}
	defer out.Close()
	ncases, ntraces := 0, 0
	err = vio.ReadLines(vio.Env("VERIF_IN", ""), func(b []byte) error {
		var c genCase
		if err := json.Unmarshal(b, &c); err != nil {
			return err
		}
		ncases++
		switch c.Fam {
		case "arith":
			var a int
			if err := json.Unmarshal(c.A, &a); err != nil {
				return err
			}
			ntraces += runOne("arith", c.N, a, cpInt, arithFns, c.Want, out)
		case "seq":
			a := []int{}
			if err := json.Unmarshal(c.A, &a); err != nil {
				return err
			}
			ntraces += runOne("seq", c.N, a, cpSeq, seqFns, c.Want, out)
		default:
			enc := []int{}
			if err := json.Unmarshal(c.A, &enc); err != nil || len(enc) == 0 {
				return fmt.Errorf("bad boxed argument %s", c.A)
			}
			k, ok := runBoxed(c.Fam, c.N, enc, c.Want, out)
			if !ok {
				return fmt.Errorf("unknown family %q", c.Fam)
			}
			ntraces += k
		}
		return nil
	})
	if err != nil {
		t.Fatal(err)
	}
	// every arity once more, four invocations at a time
	nconc := 0
	for n := 2; n <= 20; n++ {
		nconc += concurrent(n, 4, vio.EnvInt("VERIF_CONC_ROUNDS", 6), out)
	}
	out.Put(map[string]any{"t": "stats", "cases": ncases, "traces": ntraces + nconc, "concurrent": nconc})
}

func TestRandom(t *testing.T) {
	if vio.Env("VERIF_MODE", "") != "random" {
		t.Skip()
	}
	out, err := vio.Create(vio.Env("VERIF_OUT", ""))
	if err != nil {
		t.Fatal(err)
	}
	defer out.Close()
	rng := rand.New(rand.NewSource(int64(vio.EnvInt("VERIF_SEED", 1))))
	k := vio.EnvInt("VERIF_N", 3)
	ntraces := 0
	for n := 2; n <= 20; n++ {
		for r := 0; r < k; r++ {
			ntraces += runOne("arith", n, rng.Intn(mod), cpInt, arithFns, nil, out)
			a := make([]int, rng.Intn(6))
			for i := range a {
				a[i] = rng.Intn(100)
			}
			ntraces += runOne("seq", n, a, cpSeq, seqFns, nil, out)
			// boxed families: a random value of a random kind (the err* families: kinds that implement error, or nil)
			box := func(kinds []int) []int {
				switch kd := kinds[rng.Intn(len(kinds))]; kd {
				case 1:
					h := []int{1}
					for j := rng.Intn(4); j > 0; j-- {
						h = append(h, 30+rng.Intn(60))
					}
					return h
				case 2, 7:
					return []int{kd, rng.Intn(1000)}
				default:
					return []int{kd}
				}
			}
			for _, fam := range []string{"anyhist", "anyspecial"} {
				c, _ := runBoxed(fam, n, box(anyKinds), nil, out)
				ntraces += c
			}
			for _, fam := range []string{"errhist", "errspecial"} {
				c, _ := runBoxed(fam, n, box(errKinds), nil, out)
				ntraces += c
			}
		}
	}
	out.Put(map[string]any{"t": "stats", "cases": 6 * 19 * k, "traces": ntraces})
}
