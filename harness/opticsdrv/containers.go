package opticsdrv

import (
	"fmt"
	"sort"

	"github.com/fogfish/golem/optics"
)

type contS struct {
	A int
	B string
}

// containers: C02 also speaks about container type parameters that are not structs.  These derivations do not depend
// on a generated shape: every one of them must panic.
func (r *reporter) containers() {
	ds := map[string]func(){
		"int by name":            func() { optics.ForProduct1[int, int]("A") },
		"int by type":            func() { optics.ForProduct1[int, int]() },
		"string by name":         func() { optics.ForSpectrum1[string, int]("A") },
		"[]struct by name":       func() { optics.ForProduct1[[]contS, int]("A") },
		"[2]struct by name":      func() { optics.ForProduct1[[2]contS, int]("A") },
		"map by name":            func() { optics.ForProduct1[map[string]int, int]("A") },
		"interface by name":      func() { optics.ForProduct1[any, int]("A") },
		"func by type":           func() { optics.ForSpectrum1[func(), int]() },
		"chan by name":           func() { optics.ForProduct1[chan contS, int]("A") },
		"*struct by name":        func() { optics.ForProduct1[*contS, int]("A") },
		"*struct by type":        func() { optics.ForSpectrum1[*contS, string]() },
		"*struct arity 2":        func() { optics.ForProduct2[*contS, int, string]("A", "B") },
		"*struct shape":          func() { optics.ForShape2[*contS, int, string]("A", "B") },
		"*struct bimap":          func() { optics.BiMapS[*contS, string, string]("B") },
		"**struct by name":       func() { optics.ForProduct1[**contS, int]("A") },
		"*[]struct by name":      func() { optics.ForProduct1[*[]contS, int]("A") },
		"*struct unknown name":   func() { optics.ForProduct1[*contS, int]("zz") },
		"struct (control group)": func() { optics.ForProduct2[contS, int, string]("A", "B") },
	}
	names := make([]string, 0, len(ds))
	for n := range ds {
		names = append(names, n)
	}
	sort.Strings(names)
	for _, n := range names {
		p, msg := try(ds[n])
		r.stats["container-derivations"]++
		switch {
		case n == "struct (control group)":
			if p {
				r.infra(0, "the control derivation on a plain struct panicked: "+msg)
			}
		case !p:
			kind := "non-struct-container"
			if len(n) > 7 && n[:7] == "*struct" {
				kind = "pointer-container"
			}
			r.pviol(kind, 0, rec{"container": n, "detail": fmt.Sprintf("container type parameter %s: derivation must panic but returned an optic", n)})
		}
	}
}
