package opticsdrv

import (
	"bytes"
	"fmt"
	"math/rand"
	"sort"
	"testing"
	"unsafe"

	"verifharness/vio"
)

// CSide is one of the two structures of a pair, placed between sentinels by the generated code.
type CSide struct {
	G      unsafe.Pointer
	GSize  uintptr
	VOff   uintptr
	VSize  uintptr
	VAlign uintptr
	Cells  [][2]uintptr    // compiler extent of every cell
	Set    func(c, k int)  // cell c := value k (ordinary selectors)
	Snap   func(c int) int // value number of cell c (ordinary selectors)
}

// COptic is one compiled optic on S.
type COptic struct {
	Put func(ks []int) bool // Put(s, value numbers, one per component); true when the same pointer came back
	Get func() [][]int      // Get(s), decoded per component
	RT  func() bool         // Put(s, Get(s))
}

// CPair is handed over by the generated code for one pair of structures (property C04).
type CPair struct {
	ID       int
	Build    func()     // derives the isos (may panic)
	Building func() int // the (1-based) entry of TLC's iso table Build was working on
	S, T     CSide
	MapSet   func(key string, k int) // k < 0: delete the key
	MapSnap  func(key string) int    // -1: absent
	Optics   map[int]func() *COptic  // constructors (may panic), by 1-based index into TLC's optic table
	// Morph builds optics.Morphism over TLC's iso table (0 = nil entry); direct = use the bare Iso (one-element lists)
	Morph  func(ix []int, direct bool) (fwd, inv func())
	MorphM func(ix []int, direct bool) (fwd, inv func())
}

type cLens struct {
	Key  string `json:"key"`
	Ty   string `json:"ty"`
	Cell int    `json:"cell"`
	NV   int    `json:"nv"`
}

type cOptic struct {
	Kind  string   `json:"kind"`
	Nest  string   `json:"nest"`
	Conv  string   `json:"conv"`
	Names []string `json:"names"`
	Types []string `json:"types"`
	Foci  [][2]int `json:"foci"`
	NV    int      `json:"nv"`
	Links []struct {
		Cont string `json:"cont"`
		Key  string `json:"key"`
		Ty   string `json:"ty"`
	} `json:"links"`
}

type cStruct struct {
	Size  int     `json:"size"`
	Align int     `json:"align"`
	Cells []oCell `json:"cells"`
	Holes []int   `json:"holes"`
}

type cStep struct {
	Op  string         `json:"op"`
	Ref any            `json:"ref"`
	Ks  []int          `json:"ks"`
	S   []int          `json:"S"`
	T   []int          `json:"T"`
	M   map[string]int `json:"M"`
	Get [][]int        `json:"get"`
}

type cCase struct {
	SID   int      `json:"sid"`
	S     cStruct  `json:"S"`
	T     cStruct  `json:"T"`
	LensS []cLens  `json:"lensS"`
	LensT []cLens  `json:"lensT"`
	Optic []cOptic `json:"optics"`
	Isos  []struct {
		Kind   string  `json:"kind"` // "iso" (over plain or wrapped lenses) | "morph" (a Morphism used as an entry)
		SI     int     `json:"si"`
		TI     int     `json:"ti"`
		Leaves []cLeaf `json:"leaves"` // the isos the entry applies, in order, nested Morphisms flattened
	} `json:"isos"`
	IsosM []struct {
		SI  int    `json:"si"`
		Key string `json:"key"`
	} `json:"isosM"`
	Lists  [][]int `json:"lists"`
	ListsM [][]int `json:"listsM"`
	Init   struct {
		S []int          `json:"S"`
		T []int          `json:"T"`
		M map[string]int `json:"M"`
	} `json:"init"`
	Scripts [][]cStep `json:"scripts"`
}

// cWrap says through which optic one side of an iso goes: the plain field lens, or BiMap / Getter / Setter with a conversion.
type cWrap struct {
	Kind string `json:"kind"`
	Conv string `json:"conv"`
	NV   int    `json:"nv"`
}

type cLeaf struct {
	S   int    `json:"s"` // source cell (1-based)
	T   int    `json:"t"` // target cell (1-based)
	SW  cWrap  `json:"sw"`
	TW  cWrap  `json:"tw"`
	key string // target map key (struct <-> map isos)
}

// shows: what Get through the optic returns for a cell holding value x; stores: what a Put of the shown value y leaves
// in the cell (ok = false: the optic never writes) - the wrappers of TLC's table (OpticsCompose!UGet / UPut).
func (w cWrap) shows(x int) int {
	switch w.Kind {
	case "bimap", "getter":
		return fwdConv(w.Conv, x, w.NV)
	case "setter":
		return 0
	}
	return x
}
func (w cWrap) stores(y int) (int, bool) {
	switch w.Kind {
	case "bimap", "setter":
		return invConv(w.Conv, y, w.NV), true
	case "getter":
		return 0, false
	}
	return y, true
}

var mapKeys = []string{"k1", "k2", "k3"}

type crun struct {
	r            *reporter
	p            *CPair
	c            *cCase
	rnd          *rand.Rand
	cleanS       []byte
	cleanT       []byte
	thorough     bool
	holeS, holeT map[int]bool
}

// RunCompose executes the composed optics of every generated pair against TLC's tables and scripts.
func RunCompose(t *testing.T, pairs []func() *CPair) {
	r := newReporter(t)
	defer r.close()
	cases := readCases(t, func(c *cCase) int { return c.SID })
	seed := int64(vio.EnvInt("VERIF_SEED", 1))
	for _, mk := range pairs {
		p := mk()
		c := cases[p.ID]
		if c == nil {
			r.infra(p.ID, "no expectation for generated pair")
			continue
		}
		o := &crun{r: r, p: p, c: c, rnd: rand.New(rand.NewSource(seed*104729 + int64(p.ID))), thorough: vio.Env("VERIF_TIER", "quick") == "thorough"}
		if o.layout(&p.S, &c.S, "S") && o.layout(&p.T, &c.T, "T") {
			o.run()
			r.stats["pairs"]++
		}
	}
}

func sideImage(s *CSide) []byte {
	return append([]byte(nil), unsafe.Slice((*byte)(s.G), s.GSize)...)
}
func sideRestore(s *CSide, img []byte) { copy(unsafe.Slice((*byte)(s.G), s.GSize), img) }

func (o *crun) layout(s *CSide, c *cStruct, name string) bool {
	bad := func(f string, a ...any) bool {
		o.r.infra(o.p.ID, name+": "+fmt.Sprintf(f, a...))
		return false
	}
	if int(s.VSize) != c.Size || int(s.VAlign) != c.Align || len(s.Cells) != len(c.Cells) {
		return bad("model size/align %d/%d, compiler %d/%d", c.Size, c.Align, s.VSize, s.VAlign)
	}
	covered := make([]bool, c.Size)
	for i, x := range c.Cells {
		if int(s.Cells[i][0]) != x.Off || int(s.Cells[i][1]) != x.Size {
			return bad("cell %v: model extent %d+%d, compiler %d+%d", x.Path, x.Off, x.Size, s.Cells[i][0], s.Cells[i][1])
		}
		for b := x.Off; b < x.Off+x.Size; b++ {
			covered[b] = true
		}
	}
	holes := map[int]bool{}
	for b, cv := range covered {
		if !cv {
			holes[b] = true
		}
	}
	if len(holes) != len(c.Holes) {
		return bad("padding bytes: model %v, compiler has %d", c.Holes, len(holes))
	}
	for _, b := range c.Holes {
		if !holes[b] {
			return bad("padding byte %d of the model is a field byte for the compiler", b)
		}
	}
	if name == "S" {
		o.holeS = holes
	} else {
		o.holeT = holes
	}
	// sentinels
	g := unsafe.Slice((*byte)(s.G), s.GSize)
	for i := range g {
		if uintptr(i) < s.VOff {
			g[i] = 0xA5
		} else if uintptr(i) >= s.VOff+s.VSize {
			g[i] = 0x5A
		}
	}
	return true
}

func setAll(s *CSide, vals []int) {
	for c, k := range vals {
		s.Set(c, k)
	}
}
func snapAll(s *CSide) []int {
	out := make([]int, len(s.Cells))
	for c := range out {
		out[c] = s.Snap(c)
	}
	return out
}

// strayByte: first byte that differs between a and b and lies neither in one of the cells `foci` (0-based cell
// indices) nor in a padding hole of the struct.  Sentinel bytes are never allowed to differ.
func strayByte(s *CSide, holes map[int]bool, a, b []byte, cells map[int]bool) (int, bool) {
	for i := range a {
		if a[i] == b[i] {
			continue
		}
		if uintptr(i) < s.VOff || uintptr(i) >= s.VOff+s.VSize {
			return i - int(s.VOff), true
		}
		off := i - int(s.VOff)
		if holes[off] {
			continue
		}
		ok := false
		for c := range cells {
			if uintptr(off) >= s.Cells[c][0] && uintptr(off) < s.Cells[c][0]+s.Cells[c][1] {
				ok = true
			}
		}
		if !ok {
			return off, true
		}
	}
	return 0, false
}

func pattern(cells []oCell, r int) []int {
	out := make([]int, len(cells))
	for c := range cells {
		out[c] = (c + 1 + r) % cells[c].NV
	}
	return out
}

func (o *crun) statesOf(cells []oCell, extra int) [][]int {
	out := [][]int{pattern(cells, 0), pattern(cells, 1), pattern(cells, 2)}
	for j := 0; j < extra; j++ {
		st := make([]int, len(cells))
		for c := range st {
			st[c] = o.rnd.Intn(cells[c].NV)
		}
		out = append(out, st)
	}
	return out
}

func fwdConv(conv string, x, nv int) int {
	if conv == "rot" {
		return (x + 1) % nv
	}
	return x
}
func invConv(conv string, y, nv int) int {
	if conv == "rot" {
		return (y + nv - 1) % nv
	}
	return y
}

// expectPut: the state of S after Put(ks) through optic d, the cells it may touch, and what Get must return then -
// read off TLC's optic table (which cells, which conversion).
func (o *crun) expectPut(d *cOptic, st, ks []int) (want []int, touched map[int]bool, get [][]int) {
	cells := o.c.S.Cells
	want = append([]int{}, st...)
	touched = map[int]bool{}
	for i, f := range d.Foci {
		var g []int
		for c := f[0]; c <= f[1]; c++ {
			nv := cells[c-1].NV
			switch d.Kind {
			case "lens", "join", "shape":
				want[c-1] = ks[i] % nv
				touched[c-1] = true
				g = append(g, want[c-1])
			case "bimap":
				want[c-1] = invConv(d.Conv, ks[i]%nv, nv)
				touched[c-1] = true
				g = append(g, fwdConv(d.Conv, want[c-1], nv))
			case "getter":
				g = append(g, fwdConv(d.Conv, want[c-1], nv))
			case "setter":
				want[c-1] = invConv(d.Conv, ks[i]%nv, nv)
				touched[c-1] = true
				g = append(g, 0)
			}
		}
		if g == nil {
			g = []int{}
		}
		get = append(get, g)
	}
	return
}

func same(a, b any) bool { return fmt.Sprint(a) == fmt.Sprint(b) }

func (o *crun) run() {
	p, c := o.p, o.c
	o.cleanS, o.cleanT = sideImage(&p.S), sideImage(&p.T)
	built := map[int]*COptic{}
	idx := make([]int, 0, len(p.Optics))
	for i := range p.Optics {
		idx = append(idx, i)
	}
	sort.Ints(idx)
	for _, oi := range idx {
		d := &c.Optic[oi-1]
		var q *COptic
		if pn, msg := try(func() { q = p.Optics[oi]() }); pn {
			o.r.pviol("compose-derivation-panics", p.ID, rec{"optic": d, "oi": oi, "detail": msg})
			continue
		}
		built[oi] = q
		o.r.stats["optics"]++
		o.r.stats["optics-"+d.Kind]++
		o.optic(oi, d, q)
	}
	if pn, msg := try(p.Build); pn {
		kind, at := "compose-derivation-panics", p.Building()
		if at >= 1 && at <= len(c.Isos) && c.Isos[at-1].Kind == "morph" {
			kind = "morphism-panics" // optics.Morphism over isos and nils, to be used as an entry of another Morphism
		}
		o.r.pviol(kind, p.ID, rec{"entry": at, "detail": fmt.Sprintf("building entry %d of the iso table panicked: %s", at, msg)})
		return
	}
	o.morphisms(false)
	o.morphisms(true)
	o.scripts(built)
}

func (o *crun) optic(oi int, d *cOptic, q *COptic) {
	p, c := o.p, o.c
	info := func(st, ks []int, detail string) rec {
		return rec{"optic": d, "oi": oi, "state": st, "ks": ks, "detail": detail}
	}
	tst := pattern(c.T.Cells, 1)
	var tuples [][]int
	for k := 0; k < 3; k++ {
		ks := make([]int, len(d.Foci))
		for i := range ks {
			ks[i] = (k + i) % 3
		}
		tuples = append(tuples, ks)
	}
	extra := 4
	if o.thorough {
		extra = 16
	}
	for _, st := range o.statesOf(c.S.Cells, extra) {
		for ti, ks := range tuples {
			sideRestore(&p.S, o.cleanS)
			sideRestore(&p.T, o.cleanT)
			setAll(&p.S, st)
			setAll(&p.T, tst)
			s0, t0 := sideImage(&p.S), sideImage(&p.T)
			var ok bool
			if pn, msg := try(func() { ok = q.Put(ks) }); pn {
				o.r.pviol(d.Kind+"-panics", p.ID, info(st, ks, "Put panicked: "+msg))
				return
			}
			s1 := sideImage(&p.S)
			o.r.stats["transitions"]++
			want, touched, wantGet := o.expectPut(d, st, ks)
			if got := snapAll(&p.S); !same(got, want) {
				o.r.pviol(d.Kind+"-put", p.ID, info(st, ks, fmt.Sprintf("fields of S after Put %v, want %v", got, want)))
				return
			}
			if at, bad := strayByte(&p.S, o.holeS, s0, s1, touched); bad {
				o.r.pviol(d.Kind+"-frame", p.ID, info(st, ks, fmt.Sprintf("Put changed the byte at offset %d of S, outside its foci", at)))
				return
			}
			if !bytes.Equal(t0, sideImage(&p.T)) {
				o.r.pviol(d.Kind+"-frame", p.ID, info(st, ks, "Put on S changed T"))
				return
			}
			if !ok {
				o.r.pviol(d.Kind+"-pointer", p.ID, info(st, ks, "Put did not return the pointer it was given"))
				return
			}
			var got [][]int
			if pn, msg := try(func() { got = q.Get() }); pn {
				o.r.pviol(d.Kind+"-panics", p.ID, info(st, ks, "Get panicked: "+msg))
				return
			}
			if !same(got, wantGet) {
				o.r.pviol(d.Kind+"-get", p.ID, info(st, ks, fmt.Sprintf("Get after Put returned %v, want %v", got, wantGet)))
				return
			}
			if d.Kind != "setter" && d.Kind != "getter" {
				// GetPut: putting back what was read changes no field
				okRT := q.RT()
				if got := snapAll(&p.S); !okRT || !same(got, want) {
					o.r.pviol(d.Kind+"-getput", p.ID, info(st, ks, fmt.Sprintf("Put(s, Get(s)) changed the fields to %v", got)))
					return
				}
				if at, bad := strayByte(&p.S, o.holeS, s1, sideImage(&p.S), touched); bad {
					o.r.pviol(d.Kind+"-getput", p.ID, info(st, ks, fmt.Sprintf("Put(s, Get(s)) changed the byte at offset %d of S", at)))
					return
				}
			}
			// PutPut: the second Put wins
			ks2 := tuples[(ti+1)%len(tuples)]
			q.Put(ks2)
			want2, _, _ := o.expectPut(d, want, ks2)
			if got := snapAll(&p.S); !same(got, want2) {
				o.r.pviol(d.Kind+"-putput", p.ID, info(st, ks, fmt.Sprintf("fields of S after a second Put %v: %v, want %v", ks2, got, want2)))
				return
			}
			o.r.stats["transitions"]++
		}
	}
	sideRestore(&p.S, o.cleanS)
	sideRestore(&p.T, o.cleanT)
}

func (o *crun) mapState(full bool) map[string]int {
	m := map[string]int{}
	for _, k := range mapKeys {
		m[k] = -1
		if full {
			m[k] = 1
			if k == "k3" && len(o.c.LensS) > 0 {
				m[k] = 2 % o.c.LensS[0].NV // values of the map's element type = those of S's first leaf lens
			}
		}
	}
	return m
}
func (o *crun) setMap(m map[string]int) {
	for _, k := range mapKeys {
		o.p.MapSet(k, m[k])
	}
}
func (o *crun) snapMap() map[string]int {
	m := map[string]int{}
	for _, k := range mapKeys {
		m[k] = o.p.MapSnap(k)
	}
	return m
}

// morphisms: every list TLC printed (or a seeded sample of them), from several states of both sides.
func (o *crun) morphisms(isMap bool) {
	p, c := o.p, o.c
	lists, build := c.Lists, p.Morph
	if isMap {
		lists, build = c.ListsM, p.MorphM
	}
	if build == nil || len(lists) == 0 {
		return
	}
	limit := 40
	if o.thorough {
		limit = 200
	}
	// which lists: half of the budget for lists with an iso over wrapped lenses or a nested Morphism, the rest at random
	special := func(q []int) (wrapped, nested bool) {
		if isMap {
			return
		}
		for _, j := range q {
			if j == 0 {
				continue
			}
			e := c.Isos[j-1]
			nested = nested || e.Kind == "morph"
			for _, l := range e.Leaves {
				wrapped = wrapped || l.SW.Kind != "lens" || l.TW.Kind != "lens"
			}
		}
		return
	}
	var order []int
	picked := map[int]bool{}
	for _, li := range o.rnd.Perm(len(lists)) {
		if w, n := special(lists[li]); (w || n) && len(order) < limit/2 {
			order = append(order, li)
			picked[li] = true
		}
	}
	for _, li := range o.rnd.Perm(len(lists)) {
		if !picked[li] && len(order) < limit {
			order = append(order, li)
		}
	}
	sort.Ints(order)
	for _, li := range order {
		q := lists[li]
		var live []cLeaf // 0-based cells from here on
		for _, j := range q {
			if j == 0 {
				continue
			}
			if isMap {
				live = append(live, cLeaf{S: c.LensS[c.IsosM[j-1].SI-1].Cell - 1, key: c.IsosM[j-1].Key, SW: cWrap{Kind: "lens"}, TW: cWrap{Kind: "lens"}})
			} else {
				for _, l := range c.Isos[j-1].Leaves {
					l.S, l.T = l.S-1, l.T-1
					live = append(live, l)
				}
			}
		}
		direct := len(q) == 1 && q[0] != 0 && (p.ID+li)%2 == 0
		var fwd, inv func()
		if pn, msg := try(func() { fwd, inv = build(q, direct) }); pn {
			o.r.pviol("morphism-panics", p.ID, rec{"list": q, "map": isMap, "detail": "optics.Morphism(...) panicked: " + msg})
			return
		}
		info := func(sst, tst any, detail string) rec {
			return rec{"list": q, "map": isMap, "direct": direct, "S": sst, "T": tst, "detail": detail}
		}
		for r1 := 0; r1 < 3; r1++ {
			for r2 := 0; r2 < 2; r2++ {
				sst := pattern(c.S.Cells, r1)
				sideRestore(&p.S, o.cleanS)
				sideRestore(&p.T, o.cleanT)
				setAll(&p.S, sst)
				var tst any
				if isMap {
					m := o.mapState(r2 == 1)
					o.setMap(m)
					tst = m
				} else {
					ts := pattern(c.T.Cells, r2+1)
					setAll(&p.T, ts)
					tst = ts
				}
				s0, t0 := sideImage(&p.S), sideImage(&p.T)
				// ---- Forward: S untouched, the target foci take the source values, nothing else in T changes
				if pn, msg := try(fwd); pn {
					o.r.pviol("morphism-panics", p.ID, info(sst, tst, "Forward panicked: "+msg))
					return
				}
				o.r.stats["transitions"]++
				if !bytes.Equal(s0, sideImage(&p.S)) {
					o.r.pviol("morphism-frame", p.ID, info(sst, tst, "Forward changed the source structure"))
					return
				}
				if isMap {
					want := map[string]int{}
					for k, v := range tst.(map[string]int) {
						want[k] = v
					}
					for _, l := range live {
						want[l.key] = sst[l.S]
					}
					if got := o.snapMap(); !same(got, want) {
						o.r.pviol("morphism-forward", p.ID, info(sst, tst, fmt.Sprintf("map after Forward %v, want %v (only the keys of the isos may change)", got, want)))
						return
					}
				} else {
					want := append([]int{}, tst.([]int)...)
					touched := map[int]bool{}
					for _, l := range live { // in list order: what the source optic shows goes through the target optic
						if v, writes := l.TW.stores(l.SW.shows(sst[l.S])); writes {
							want[l.T] = v
						}
						touched[l.T] = true
					}
					if got := snapAll(&p.T); !same(got, want) {
						o.r.pviol("morphism-forward", p.ID, info(sst, tst, fmt.Sprintf("fields of T after Forward %v, want %v", got, want)))
						return
					}
					if at, bad := strayByte(&p.T, o.holeT, t0, sideImage(&p.T), touched); bad {
						o.r.pviol("morphism-frame", p.ID, info(sst, tst, fmt.Sprintf("Forward changed the byte at offset %d of T, outside the target foci", at)))
						return
					}
				}
				// ---- Inverse right after Forward restores the source foci (here: the whole source), T untouched
				t1, m1 := sideImage(&p.T), o.snapMap()
				if pn, msg := try(inv); pn {
					o.r.pviol("morphism-panics", p.ID, info(sst, tst, "Inverse panicked: "+msg))
					return
				}
				o.r.stats["transitions"]++
				if got := snapAll(&p.S); !same(got, sst) {
					o.r.pviol("morphism-roundtrip", p.ID, info(sst, tst, fmt.Sprintf("fields of S after Forward; Inverse %v, want %v", got, sst)))
					return
				}
				if !bytes.Equal(s0, sideImage(&p.S)) || !bytes.Equal(t1, sideImage(&p.T)) || (isMap && !same(m1, o.snapMap())) {
					o.r.pviol("morphism-frame", p.ID, info(sst, tst, "Forward; Inverse left other bytes of S changed, or Inverse changed the target"))
					return
				}
				// ---- Inverse from an unrelated target state: only the source foci change
				sst2 := pattern(c.S.Cells, r1+1)
				setAll(&p.S, sst2)
				if isMap {
					o.setMap(tst.(map[string]int))
				} else {
					setAll(&p.T, tst.([]int))
				}
				s2 := sideImage(&p.S)
				if pn, msg := try(inv); pn {
					o.r.pviol("morphism-panics", p.ID, info(sst2, tst, "Inverse panicked: "+msg))
					return
				}
				o.r.stats["transitions"]++
				got := snapAll(&p.S)
				touched := map[int]bool{}
				source := map[int]map[string]bool{} // source cell -> the different targets mapped onto it
				for _, l := range live {
					touched[l.S] = true
					if source[l.S] == nil {
						source[l.S] = map[string]bool{}
					}
					source[l.S][fmt.Sprint(l.T, l.key, l.SW, l.TW)] = true
				}
				// a source focus with one iso takes what the target optic shows (the zero value for an absent map key)
				for _, l := range live {
					if len(source[l.S]) != 1 {
						continue
					}
					shown := 0
					if isMap {
						if v := tst.(map[string]int)[l.key]; v >= 0 {
							shown = v
						}
					} else {
						shown = l.TW.shows(tst.([]int)[l.T])
					}
					want, writes := l.SW.stores(shown)
					if !writes {
						want = sst2[l.S]
					}
					if got[l.S] != want {
						o.r.pviol("morphism-inverse", p.ID, info(sst2, tst, fmt.Sprintf("after Inverse field %v of S holds value %d, want %d", c.S.Cells[l.S].Path, got[l.S], want)))
						return
					}
				}
				for cell := range got {
					if !touched[cell] && got[cell] != sst2[cell] {
						o.r.pviol("morphism-frame", p.ID, info(sst2, tst, fmt.Sprintf("Inverse changed field %v of S, which no iso of the list focuses", c.S.Cells[cell].Path)))
						return
					}
				}
				if at, bad := strayByte(&p.S, o.holeS, s2, sideImage(&p.S), touched); bad {
					o.r.pviol("morphism-frame", p.ID, info(sst2, tst, fmt.Sprintf("Inverse changed the byte at offset %d of S, outside the source foci", at)))
					return
				}
			}
		}
		o.r.stats["morphism-lists"]++
		if w, n := special(q); w || n {
			if w {
				o.r.stats["morphism-lists-wrapped"]++
			}
			if n {
				o.r.stats["morphism-lists-nested"]++
			}
		}
	}
	sideRestore(&p.S, o.cleanS)
	sideRestore(&p.T, o.cleanT)
}

func toList(ref any) []int {
	var out []int
	if l, ok := ref.([]any); ok {
		for _, x := range l {
			out = append(out, int(x.(float64)))
		}
	}
	return out
}

// scripts replays TLC's programs: the state of S, T and the map after every step, and the Get results.
func (o *crun) scripts(built map[int]*COptic) {
	p, c := o.p, o.c
scripts:
	for si, sc := range c.Scripts {
		for _, st := range sc { // skip programs that use an optic the generator did not compile
			if st.Op == "put" {
				if built[int(st.Ref.(float64))] == nil {
					continue scripts
				}
			}
			if (st.Op == "mfwd" || st.Op == "minv") && (p.MorphM == nil || len(c.IsosM) == 0) {
				continue scripts
			}
		}
		sideRestore(&p.S, o.cleanS)
		sideRestore(&p.T, o.cleanT)
		setAll(&p.S, c.Init.S)
		setAll(&p.T, c.Init.T)
		o.setMap(c.Init.M)
		for n, st := range sc {
			var get [][]int
			pn, msg := try(func() {
				switch st.Op {
				case "put":
					q := built[int(st.Ref.(float64))]
					q.Put(st.Ks)
					get = q.Get()
				case "fwd", "inv":
					f, i := p.Morph(toList(st.Ref), false)
					if st.Op == "fwd" {
						f()
					} else {
						i()
					}
				case "mfwd", "minv":
					f, i := p.MorphM(toList(st.Ref), false)
					if st.Op == "mfwd" {
						f()
					} else {
						i()
					}
				}
			})
			o.r.stats["script-steps"]++
			gs, gt, gm := snapAll(&p.S), snapAll(&p.T), o.snapMap()
			if pn || !same(gs, st.S) || !same(gt, st.T) || !same(gm, st.M) || (st.Op == "put" && !same(get, st.Get)) {
				o.r.pviol("script-state", p.ID, rec{"script": sc, "no": si, "step": n,
					"detail": fmt.Sprintf("after step %d (%s %v %v): S=%v T=%v M=%v get=%v panic=%v %s; TLC expects S=%v T=%v M=%v get=%v",
						n+1, st.Op, st.Ref, st.Ks, gs, gt, gm, get, pn, msg, st.S, st.T, st.M, st.Get)})
				continue scripts
			}
		}
		o.r.stats["scripts"]++
	}
	sideRestore(&p.S, o.cleanS)
	sideRestore(&p.T, o.cleanT)
}
