// Package opticsdrv is the static part of the conformance harness for github.com/fogfish/golem/hseq and
// .../optics (properties C01-C04).  The struct types themselves, and every generic instantiation of the library
// on them, are *generated* Go source (lib/fam_optics.py, from shapes printed by TLC); the generated packages
// hand closures over those types to the drivers in this package, which execute them against the
// expectations printed by TLC (VERIF_IN) and report what they saw (VERIF_OUT).
package opticsdrv

import (
	"fmt"
	"math"
	"reflect"
	"unsafe"
)

// The leaf palette: for every leaf type of Layout.tla a constructor of "value number k" (0 = the zero value) and
// its inverse (-1 = not one of the known values).  Values are chosen so that every byte of the representation
// differs between value 1 and value 2 wherever the type allows it.

var (
	I1, I2 = 1, 2
	B1     = []byte{1}
	B2     = []byte{2, 3}
)

func MkBool(k int) bool { return k%2 == 1 }
func IdxBool(v bool) int {
	if v {
		return 1
	}
	return 0
}

func MkInt8(k int) int8 { return [3]int8{0, 0x11, -2}[k%3] }
func IdxInt8(v int8) int {
	return idx3(v == 0, v == 0x11, v == -2)
}

func MkInt16(k int) int16 { return [3]int16{0, 0x1122, -3}[k%3] }
func IdxInt16(v int16) int {
	return idx3(v == 0, v == 0x1122, v == -3)
}

func MkUint16(k int) uint16 { return [3]uint16{0, 0x3344, 0xFFFB}[k%3] }
func IdxUint16(v uint16) int {
	return idx3(v == 0, v == 0x3344, v == 0xFFFB)
}

func MkInt32(k int) int32 { return [3]int32{0, 0x11223344, -5}[k%3] }
func IdxInt32(v int32) int {
	return idx3(v == 0, v == 0x11223344, v == -5)
}

func MkInt64(k int) int64 { return [3]int64{0, 0x1122334455667788, -7}[k%3] }
func IdxInt64(v int64) int {
	return idx3(v == 0, v == 0x1122334455667788, v == -7)
}

// Floating point and complex leaves: +0, -0 and a NaN.  +0 == -0 although they are different values (1/x, Signbit,
// the bits), NaN != NaN although it is one value: these are told apart by their bits, never with ==.
var negZero = math.Copysign(0, -1)

func MkFloat64(k int) float64 { return [3]float64{0, negZero, math.NaN()}[k%3] }
func IdxFloat64(v float64) int {
	return idx3(math.Float64bits(v) == 0, math.Float64bits(v) == 1<<63, v != v)
}

func MkFloat32(k int) float32 { return [3]float32{0, float32(negZero), float32(math.NaN())}[k%3] }
func IdxFloat32(v float32) int {
	return idx3(math.Float32bits(v) == 0, math.Float32bits(v) == 1<<31, v != v)
}

func MkComplex128(k int) complex128 {
	return [3]complex128{0, complex(negZero, 0), complex(math.NaN(), negZero)}[k%3]
}
func IdxComplex128(v complex128) int {
	re, im := math.Float64bits(real(v)), math.Float64bits(imag(v))
	return idx3(re == 0 && im == 0, re == 1<<63 && im == 0, real(v) != real(v) && im == 1<<63)
}

func MkUintptr(k int) uintptr { return [3]uintptr{0, 0x1122334455667788, ^uintptr(6)}[k%3] }
func IdxUintptr(v uintptr) int {
	return idx3(v == 0, v == 0x1122334455667788, v == ^uintptr(6))
}

// Big is the leaf that makes a container larger than 64 KiB: value k = every byte k.
type Big = [65536]byte

func MkBig(k int) (b Big) {
	if k%3 != 0 {
		for i := range b {
			b[i] = byte(k % 3)
		}
	}
	return
}
func IdxBig(v Big) int {
	for _, x := range v {
		if x != v[0] {
			return -1
		}
	}
	if v[0] > 2 {
		return -1
	}
	return int(v[0])
}

func MkString(k int) string { return [3]string{"", "a", "bc"}[k%3] }
func IdxString(v string) int {
	return idx3(v == "", v == "a", v == "bc")
}

func MkBytes(k int) []byte { return [3][]byte{nil, B1, B2}[k%3] }
func IdxBytes(v []byte) int {
	return idx3(v == nil, len(v) == 1 && &v[0] == &B1[0], len(v) == 2 && &v[0] == &B2[0])
}

func MkPInt(k int) *int { return [3]*int{nil, &I1, &I2}[k%3] }
func IdxPInt(v *int) int {
	return idx3(v == nil, v == &I1, v == &I2)
}

// `any`: the nil interface; two boxed floats that are equal but not identical; and four NON-nil interfaces that hold
// a nil: pointer, map, slice, func.  They are told apart by dynamic type and data word, never with ==.
func MkAny(k int) any {
	return [7]any{nil, float64(0), negZero, (*int)(nil), map[string]int(nil), []byte(nil), (func())(nil)}[k%7]
}
func IdxAny(v any) int {
	switch x := v.(type) {
	case nil:
		return 0
	case float64:
		return idx3(false, math.Float64bits(x) == 0, math.Float64bits(x) == 1<<63)
	case *int:
		if x == nil {
			return 3
		}
	case map[string]int:
		if x == nil {
			return 4
		}
	case []byte:
		if x == nil {
			return 5
		}
	case func():
		if x == nil {
			return 6
		}
	}
	return -1
}

// Str implements fmt.Stringer on the pointer: a typed nil *Str inside a fmt.Stringer is a non-nil interface.
type Str struct{ s string }

func (p *Str) String() string {
	if p == nil {
		return "<nil>"
	}
	return p.s
}

var S1 = &Str{"s1"}

func MkStringer(k int) fmt.Stringer { return [3]fmt.Stringer{nil, (*Str)(nil), S1}[k%3] }
func IdxStringer(v fmt.Stringer) int {
	p, ok := v.(*Str)
	return idx3(reflect.TypeOf(v) == nil, ok && p == nil, ok && p == S1)
}

func MkArr3(k int) [3]int8 { return [3][3]int8{{}, {1, 2, 3}, {-1, -2, -3}}[k%3] }
func IdxArr3(v [3]int8) int {
	return idx3(v == [3]int8{}, v == [3]int8{1, 2, 3}, v == [3]int8{-1, -2, -3})
}

func MkUnit(k int) struct{}   { return struct{}{} }
func IdxUnit(v struct{}) int  { return 0 }
func MkZero64(k int) [0]int64 { return [0]int64{} }
func IdxZero64(v [0]int64) int {
	return 0
}

// MkPtr / IdxPtr serve the embedded pointers: value 0 = nil, 1 and 2 = two pointees allocated by the generated code.
func MkPtr[E any](k int, p1, p2 *E) *E { return [3]*E{nil, p1, p2}[k%3] }
func IdxPtr[E any](v, p1, p2 *E) int   { return idx3(v == nil, v == p1, v == p2) }

func idx3(a, b, c bool) int {
	switch {
	case a:
		return 0
	case b:
		return 1
	case c:
		return 2
	}
	return -1
}

// Pointees returns two distinct pointers to E for an embedded *E.  new(E) twice is not enough for a zero-size E:
// the runtime hands out the same address for every zero-size allocation.
func Pointees[E any]() (*E, *E) {
	var e E
	if unsafe.Sizeof(e) == 0 {
		b := new([2]byte)
		return (*E)(unsafe.Pointer(&b[0])), (*E)(unsafe.Pointer(&b[1]))
	}
	return new(E), new(E)
}

// BytesOf copies n bytes starting at p.
func BytesOf(p unsafe.Pointer, n uintptr) []byte {
	return append([]byte(nil), unsafe.Slice((*byte)(p), n)...)
}

// Maps that differ in the key type only, channels that differ in the direction only: value 0 = nil, 1 and 2 = two
// distinct maps / channels, told apart by identity.
var (
	MSI1, MSI2   = map[string]int{"a": 1}, map[string]int{"b": 2}
	MII1, MII2   = map[int]int{1: 1}, map[int]int{2: 2}
	MI8I1, MI8I2 = map[int8]int{1: 1}, map[int8]int{2: 2}
	C1, C2       = make(chan int, 1), make(chan int, 1)
)

func mapID(m any) uintptr { return reflect.ValueOf(m).Pointer() }

func MkMapSI(k int) map[string]int { return [3]map[string]int{nil, MSI1, MSI2}[k%3] }
func IdxMapSI(v map[string]int) int {
	return idx3(v == nil, mapID(v) == mapID(MSI1), mapID(v) == mapID(MSI2))
}
func MkMapII(k int) map[int]int { return [3]map[int]int{nil, MII1, MII2}[k%3] }
func IdxMapII(v map[int]int) int {
	return idx3(v == nil, mapID(v) == mapID(MII1), mapID(v) == mapID(MII2))
}
func MkMapI8I(k int) map[int8]int { return [3]map[int8]int{nil, MI8I1, MI8I2}[k%3] }
func IdxMapI8I(v map[int8]int) int {
	return idx3(v == nil, mapID(v) == mapID(MI8I1), mapID(v) == mapID(MI8I2))
}
func MkChanB(k int) chan int    { return [3]chan int{nil, C1, C2}[k%3] }
func IdxChanB(v chan int) int   { return idx3(v == nil, v == C1, v == C2) }
func MkChanR(k int) <-chan int  { return [3]<-chan int{nil, C1, C2}[k%3] }
func IdxChanR(v <-chan int) int { return idx3(v == nil, v == (<-chan int)(C1), v == (<-chan int)(C2)) }
func MkChanS(k int) chan<- int  { return [3]chan<- int{nil, C1, C2}[k%3] }
func IdxChanS(v chan<- int) int { return idx3(v == nil, v == (chan<- int)(C1), v == (chan<- int)(C2)) }
func MkUint8(k int) uint8       { return [3]uint8{0, 0x11, 0xFE}[k%3] }
func IdxUint8(v uint8) int      { return idx3(v == 0, v == 0x11, v == 0xFE) }

// Defined types over predeclared ones: identical memory layout, different types.
type (
	Label string
	Tag   string
	Byte8 uint8
	Count int64
)

func MkLabel(k int) Label  { return Label(MkString(k)) }
func IdxLabel(v Label) int { return IdxString(string(v)) }
func MkTag(k int) Tag      { return Tag(MkString(k)) }
func IdxTag(v Tag) int     { return IdxString(string(v)) }
func MkByte8(k int) Byte8  { return Byte8(MkUint8(k)) }
func IdxByte8(v Byte8) int { return IdxUint8(uint8(v)) }
func MkCount(k int) Count  { return Count(MkInt64(k)) }
func IdxCount(v Count) int { return IdxInt64(int64(v)) }
