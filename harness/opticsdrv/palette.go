// Package opticsdrv is the static part of the conformance harness for github.com/fogfish/golem/hseq and
// .../optics (properties C01-C04).  The struct types themselves, and every generic instantiation of the library
// on them, are *generated* Go source (lib/fam_optics.py, from shapes printed by TLC); the generated packages
// hand closures over those types to the drivers in this package, which execute them against the
// expectations printed by TLC (VERIF_IN) and report what they saw (VERIF_OUT).
package opticsdrv

import "unsafe"

// The leaf palette: for every leaf type of Layout.tla a constructor of "value number k" (0 = the zero value) and
// its inverse (-1 = not one of the known values).  Values are chosen so that every byte of the representation
// differs between value 1 and value 2 wherever the type allows it.

var (
	I1, I2 = 1, 2
	B1     = []byte{1}
	B2     = []byte{2, 3}
)

func MkBool(k int) bool { return k%2 == 1 }
func IdxBool(v bool) int {
	if v {
		return 1
	}
	return 0
}

func MkInt8(k int) int8 { return [3]int8{0, 0x11, -2}[k%3] }
func IdxInt8(v int8) int {
	return idx3(v == 0, v == 0x11, v == -2)
}

func MkInt16(k int) int16 { return [3]int16{0, 0x1122, -3}[k%3] }
func IdxInt16(v int16) int {
	return idx3(v == 0, v == 0x1122, v == -3)
}

func MkUint16(k int) uint16 { return [3]uint16{0, 0x3344, 0xFFFB}[k%3] }
func IdxUint16(v uint16) int {
	return idx3(v == 0, v == 0x3344, v == 0xFFFB)
}

func MkInt32(k int) int32 { return [3]int32{0, 0x11223344, -5}[k%3] }
func IdxInt32(v int32) int {
	return idx3(v == 0, v == 0x11223344, v == -5)
}

func MkInt64(k int) int64 { return [3]int64{0, 0x1122334455667788, -7}[k%3] }
func IdxInt64(v int64) int {
	return idx3(v == 0, v == 0x1122334455667788, v == -7)
}

func MkFloat64(k int) float64 { return [3]float64{0, 1.5, -2.25}[k%3] }
func IdxFloat64(v float64) int {
	return idx3(v == 0, v == 1.5, v == -2.25)
}

func MkString(k int) string { return [3]string{"", "a", "bc"}[k%3] }
func IdxString(v string) int {
	return idx3(v == "", v == "a", v == "bc")
}

func MkBytes(k int) []byte { return [3][]byte{nil, B1, B2}[k%3] }
func IdxBytes(v []byte) int {
	return idx3(v == nil, len(v) == 1 && &v[0] == &B1[0], len(v) == 2 && &v[0] == &B2[0])
}

func MkPInt(k int) *int { return [3]*int{nil, &I1, &I2}[k%3] }
func IdxPInt(v *int) int {
	return idx3(v == nil, v == &I1, v == &I2)
}

func MkAny(k int) any { return [3]any{nil, 7, "x"}[k%3] }
func IdxAny(v any) int {
	return idx3(v == nil, v == any(7), v == any("x"))
}

func MkArr3(k int) [3]int8 { return [3][3]int8{{}, {1, 2, 3}, {-1, -2, -3}}[k%3] }
func IdxArr3(v [3]int8) int {
	return idx3(v == [3]int8{}, v == [3]int8{1, 2, 3}, v == [3]int8{-1, -2, -3})
}

func MkUnit(k int) struct{}   { return struct{}{} }
func IdxUnit(v struct{}) int  { return 0 }
func MkZero64(k int) [0]int64 { return [0]int64{} }
func IdxZero64(v [0]int64) int {
	return 0
}

// MkPtr / IdxPtr serve the embedded pointers: value 0 = nil, 1 and 2 = two pointees allocated by the generated code.
func MkPtr[E any](k int, p1, p2 *E) *E { return [3]*E{nil, p1, p2}[k%3] }
func IdxPtr[E any](v, p1, p2 *E) int   { return idx3(v == nil, v == p1, v == p2) }

func idx3(a, b, c bool) int {
	switch {
	case a:
		return 0
	case b:
		return 1
	case c:
		return 2
	}
	return -1
}

// Pointees returns two distinct pointers to E for an embedded *E.  new(E) twice is not enough for a zero-size E:
// the runtime hands out the same address for every zero-size allocation.
func Pointees[E any]() (*E, *E) {
	var e E
	if unsafe.Sizeof(e) == 0 {
		b := new([2]byte)
		return (*E)(unsafe.Pointer(&b[0])), (*E)(unsafe.Pointer(&b[1]))
	}
	return new(E), new(E)
}

// BytesOf copies n bytes starting at p.
func BytesOf(p unsafe.Pointer, n uintptr) []byte {
	return append([]byte(nil), unsafe.Slice((*byte)(p), n)...)
}
