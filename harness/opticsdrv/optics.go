package opticsdrv

import (
	"bytes"
	"fmt"
	"math/rand"
	"sort"
	"testing"
	"unsafe"

	"verifharness/vio"
)

// Sentinel is the size of the guard arrays the generated code puts before and after the struct under test.
const Sentinel = 256

// OShape is handed over by the generated code for one struct type T (properties C01, C02).
type OShape struct {
	ID      int
	G       unsafe.Pointer // struct{ pre [Sentinel]byte; v T; post [Sentinel]byte }
	GSize   uintptr
	VOff    uintptr // offset of v in G
	VSize   uintptr
	VAlign  uintptr
	Z       unsafe.Pointer            // &g.v
	Cells   [][2]uintptr              // compiler extent {offset in v, size} of every cell stored in the struct itself; {^0, 0} otherwise
	Ents    [][2]uintptr              // compiler extent of every listing entry stored by value; {^0, 0} otherwise
	Set     func(c, k int)            // cell c := value k, written with ordinary selectors
	Snap    func(c int) int           // value index of cell c, read with ordinary selectors (-1 = none of the known values)
	Foreign func() map[string]Foreign // class of Optics!ForeignClasses -> such a dynamic argument for Putt / Gett
	Reqs    map[int]*OReq             // compiled requests, by (1-based) index into TLC's request list
	Reqs2   map[int]*OReq             // some of them once more, through the other API (ForProductN <-> ForSpectrumN)
}

// Foreign is a container argument of some dynamic type for a Reflector, with a way to look at the bytes behind it.
type Foreign struct {
	Arg   any
	Image func() []byte // nil: nothing to look at (nil, values, integers)
}

// OReq is one compiled derivation: ForProductN / ForSpectrumN instantiated on the generated types.
type OReq struct {
	API    string               // "product" | "spectrum"
	Derive func()               // may panic; keeps the optics in variables of the generated closure
	Put    []func(k int) bool   // component i: Put / Putt value k into the struct; true when the same pointer came back
	Get    []func() []int       // component i: Get / Gett, decoded to value indices (cells of the focus stored by value, in order)
	RT     []func() bool        // component i: Put(s, Get(s))
	PutAny []func(a any, k int) // spectrum only: Putt(a, value k)
	GetAny []func(a any)        // spectrum only: Gett(a)
}

type oCell struct {
	Path []string `json:"path"`
	Ty   string   `json:"ty"`
	Kind string   `json:"kind"`
	Own  bool     `json:"own"`
	Off  int      `json:"off"`
	Size int      `json:"size"`
	NV   int      `json:"nv"`
}

type oAlt struct {
	Ent   int    `json:"ent"`
	Focus [2]int `json:"focus"`
	Ext   [2]int `json:"ext"`
}

type oWant struct {
	Out  string   `json:"out"`
	Why  string   `json:"why"`
	Ents []int    `json:"ents"`
	Foci [][2]int `json:"foci"`
	Ext  [][2]int `json:"ext"`
	Alt  [][]oAlt `json:"alt"`
}

type oReq struct {
	By    string   `json:"by"`
	Cont  string   `json:"cont"`
	Names []string `json:"names"`
	Types []string `json:"types"`
	Ent   int      `json:"ent"`   // by = "entry": NewLens / NewReflector on this (1-based) entry of the listing
	Close bool     `json:"close"` // the requested type is structurally close to the field's
	Want  oWant    `json:"want"`
	Model []string `json:"model"` // outcome of the derivation-as-coded: without / with the repaired checks
	Core  bool     `json:"core"`
}

type oStep struct {
	Rq   int   `json:"rq"`
	K    int   `json:"k"`
	Vals []int `json:"vals"`
	Get  []int `json:"get"`
}

type oListing struct {
	Key   string   `json:"key"`
	Ty    string   `json:"ty"`
	ByVal bool     `json:"byval"`
	Abs   int      `json:"abs"`
	Size  int      `json:"size"`
	Path  []string `json:"path"`
}

type oCase struct {
	SID     int        `json:"sid"`
	Size    int        `json:"size"`
	Align   int        `json:"align"`
	Cells   []oCell    `json:"cells"`
	Holes   []int      `json:"holes"`
	Listing []oListing `json:"listing"`
	Reqs    []oReq     `json:"reqs"`
	Script  []oStep    `json:"script"`
	Foreign []struct {
		Class string `json:"class"`
		Want  string `json:"want"` // "panic": must panic and modify nothing | "put": the reflector's own *T | "any": nothing demanded
	} `json:"foreign"`
}

type orun struct {
	r     *reporter
	s     *OShape
	c     *oCase
	prop  string
	rnd   *rand.Rand
	own   []int // indices of the cells stored in the struct itself
	clean []byte

	foreignHit bool // a Putt with a foreign container type went through
}

// RunOptics executes the compiled requests of every generated shape.  VERIF_PROP selects the judge:
//
//	C01  valid requests: every (cell state x lens x value) transition, byte images, laws, TLC's scripts
//	C02  every request: panic / no panic as the statement demands, behaviour of whatever was accepted,
//	     reflectors fed with foreign dynamic types
func RunOptics(t *testing.T, shapes []func() *OShape) {
	r := newReporter(t)
	defer r.close()
	cases := readCases(t, func(c *oCase) int { return c.SID })
	prop := vio.Env("VERIF_PROP", "C01")
	seed := int64(vio.EnvInt("VERIF_SEED", 1))
	if prop == "C02" {
		r.containers()
	}
	for _, mk := range shapes {
		s := mk()
		c := cases[s.ID]
		if c == nil {
			r.infra(s.ID, "no expectation for generated shape")
			continue
		}
		o := &orun{r: r, s: s, c: c, prop: prop, rnd: rand.New(rand.NewSource(seed*7919 + int64(s.ID)))}
		if o.layoutAgrees() {
			o.run()
			r.stats["shapes"]++
		}
	}
}

func (o *orun) image() []byte {
	return append([]byte(nil), unsafe.Slice((*byte)(o.s.G), o.s.GSize)...)
}

func (o *orun) restore(img []byte) {
	copy(unsafe.Slice((*byte)(o.s.G), o.s.GSize), img)
}

// layoutAgrees compares the model's layout (size, alignment, cell and entry extents, padding bytes) with the
// compiler's.  A disagreement is a model error.
func (o *orun) layoutAgrees() bool {
	s, c := o.s, o.c
	bad := func(f string, a ...any) bool { o.r.infra(s.ID, fmt.Sprintf(f, a...)); return false }
	if int(s.VSize) != c.Size || int(s.VAlign) != c.Align {
		return bad("model size/align %d/%d, compiler %d/%d", c.Size, c.Align, s.VSize, s.VAlign)
	}
	if len(s.Cells) != len(c.Cells) || len(s.Ents) != len(c.Listing) {
		return bad("generated tables and TLC's differ in length")
	}
	covered := make([]bool, c.Size)
	for i, x := range c.Cells {
		if !x.Own {
			continue
		}
		o.own = append(o.own, i)
		if int(s.Cells[i][0]) != x.Off || int(s.Cells[i][1]) != x.Size {
			return bad("cell %v: model extent %d+%d, compiler %d+%d", x.Path, x.Off, x.Size, s.Cells[i][0], s.Cells[i][1])
		}
		for b := x.Off; b < x.Off+x.Size; b++ {
			covered[b] = true
		}
	}
	for j, x := range c.Listing {
		if x.ByVal && (int(s.Ents[j][0]) != x.Abs || int(s.Ents[j][1]) != x.Size) {
			return bad("entry %v: model extent %d+%d, compiler %d+%d", x.Path, x.Abs, x.Size, s.Ents[j][0], s.Ents[j][1])
		}
	}
	holes := []int{}
	for b, cv := range covered {
		if !cv {
			holes = append(holes, b)
		}
	}
	want := append([]int{}, c.Holes...)
	sort.Ints(want)
	if fmt.Sprint(holes) != fmt.Sprint(want) {
		return bad("padding bytes: model %v, compiler %v", want, holes)
	}
	return true
}

func (o *orun) run() {
	s, c := o.s, o.c
	// sentinels
	g := unsafe.Slice((*byte)(s.G), s.GSize)
	for i := range g {
		if uintptr(i) < s.VOff {
			g[i] = 0xA5
		} else if uintptr(i) >= s.VOff+s.VSize {
			g[i] = 0x5A
		}
	}
	o.clean = o.image()
	type compiled struct {
		ri int
		q  *OReq
	}
	var todo []compiled
	for _, m := range []map[int]*OReq{s.Reqs, s.Reqs2} {
		idx := make([]int, 0, len(m))
		for i := range m {
			idx = append(idx, i)
		}
		sort.Ints(idx)
		for _, i := range idx {
			todo = append(todo, compiled{i, m[i]})
		}
	}
	derived := map[int]bool{}
	for n, cq := range todo {
		ri, q, e := cq.ri, cq.q, &c.Reqs[cq.ri-1]
		second := n >= len(s.Reqs)
		p, msg := try(q.Derive)
		o.r.stats["derivations"]++
		o.r.stats["derive-"+e.Want.Out]++
		// I level: what the derivation-as-coded of the model does (SPEC-DRIFT only)
		for v, name := range []string{"unrepaired", "repaired"} {
			if (e.Model[v] == "panic") != p {
				o.r.stats["differs-from-"+name+"-model"]++
			}
		}
		switch e.Want.Out {
		case "panic":
			if !p && o.prop == "C02" {
				kind := "accepted-" + e.Want.Why
				if e.Want.Why == "pointer-container" {
					kind = "pointer-container"
				}
				o.r.pviol(kind, s.ID, rec{"rq": ri, "req": e, "api": q.API,
					"detail": fmt.Sprintf("derivation must panic (%s) but returned an optic", e.Want.Why)})
			}
		case "lens":
			if p {
				if o.prop == "C01" {
					o.r.pviol("valid-request-panics", s.ID, rec{"rq": ri, "req": e, "api": q.API, "detail": msg})
				}
				continue
			}
			if !second {
				derived[ri] = true
			}
			seen := map[int]bool{}
			for i := range e.Want.Foci {
				o.lens(ri, q, e, i, o.prop == "C01" && !seen[e.Want.Ents[i]])
				seen[e.Want.Ents[i]] = true
			}
			if o.prop == "C02" && q.API == "spectrum" {
				o.foreign(ri, q, e)
			}
		case "ptr":
			if p {
				o.r.stats["ptr-class-panicked"]++
				continue
			}
			o.r.stats["ptr-class-accepted"]++
			if o.prop == "C02" {
				for i := range e.Want.Foci {
					if c.Listing[e.Want.Ents[i]-1].ByVal {
						o.lens(ri, q, e, i, false)
					} else {
						o.throughPointer(ri, q, e, i)
					}
				}
			}
		}
	}
	if o.prop == "C01" {
		o.script(derived)
	}
}

// states of the own cells: all of them when there are at most 243, else a seeded sample plus the uniform ones.
func (o *orun) states(full bool) [][]int {
	nv := make([]int, len(o.own))
	total := 1
	for i, c := range o.own {
		nv[i] = o.c.Cells[c].NV
		if total <= 1000 {
			total *= nv[i]
		}
	}
	var out [][]int
	if full && total <= 243 {
		cur := make([]int, len(nv))
		for {
			out = append(out, append([]int{}, cur...))
			i := 0
			for ; i < len(cur); i++ {
				cur[i]++
				if cur[i] < nv[i] {
					break
				}
				cur[i] = 0
			}
			if i == len(cur) {
				return out
			}
		}
	}
	for k := 0; k < 3; k++ {
		st := make([]int, len(nv))
		for i := range st {
			st[i] = k % nv[i]
		}
		out = append(out, st)
	}
	n := 120
	if !full {
		n = 6
	}
	for j := 0; j < n; j++ {
		st := make([]int, len(nv))
		for i := range st {
			st[i] = o.rnd.Intn(nv[i])
		}
		out = append(out, st)
	}
	return out
}

func (o *orun) setState(st []int) {
	for i, c := range o.own {
		o.s.Set(c, st[i])
	}
}

func (o *orun) snapOwn() []int {
	out := make([]int, len(o.own))
	for i, c := range o.own {
		out[i] = o.s.Snap(c)
	}
	return out
}

// diffOutside returns the first byte of G that differs between a and b and lies outside [lo, hi) of the struct.
func (o *orun) diffOutside(a, b []byte, lo, hi uintptr) (int, bool) {
	if bytes.Equal(a, b) {
		return 0, false
	}
	for i := range a {
		if a[i] != b[i] {
			off := uintptr(i) - o.s.VOff // wraps for bytes of the leading sentinel: then >= hi
			if uintptr(i) < o.s.VOff || off < lo || off >= hi {
				return i - int(o.s.VOff), true
			}
		}
	}
	return 0, false
}

// lens runs the transitions of component i of a derived request whose focus is a field stored by value.
func (o *orun) lens(ri int, q *OReq, e *oReq, i int, full bool) {
	s, c := o.s, o.c
	f := e.Want.Foci[i]
	ext := s.Ents[e.Want.Ents[i]-1]
	lo, hi := ext[0], ext[0]+ext[1]
	info := func(st []int, k int, d string) rec {
		return rec{"rq": ri, "req": e, "comp": i, "api": q.API, "state": st, "k": k, "detail": d}
	}
	ownPos := map[int]int{}
	for p, cell := range o.own {
		ownPos[cell] = p
	}
	// a container with a huge array costs ~100 us per byte image: the full product of cell states is kept for ordinary structs
	kmax := 3 // value numbers 0 .. (largest number of values of a focused cell) - 1
	for cell := f[0]; cell <= f[1]; cell++ {
		if c.Cells[cell-1].Own && c.Cells[cell-1].NV > kmax {
			kmax = c.Cells[cell-1].NV
		}
	}
	for _, st := range o.states(full && s.VSize <= 4096) {
		for k := 0; k < kmax; k++ {
			o.restore(o.clean)
			o.setState(st)
			before := o.image()
			same := q.Put[i](k)
			after := o.image()
			want := append([]int{}, st...)
			var wantGet []int
			for cell := f[0]; cell <= f[1]; cell++ {
				if p, ok := ownPos[cell-1]; ok {
					want[p] = k % c.Cells[cell-1].NV
					wantGet = append(wantGet, want[p])
				}
			}
			if at, bad := o.diffOutside(before, after, lo, hi); bad {
				o.r.pviol("put-outside-field", s.ID, info(st, k, fmt.Sprintf("Put changed the byte at struct offset %d; the compiler puts the field at [%d, %d)", at, lo, hi)))
				return
			}
			if got := o.snapOwn(); fmt.Sprint(got) != fmt.Sprint(want) {
				o.r.pviol("put-wrong-cells", s.ID, info(st, k, fmt.Sprintf("fields after Put %v, want %v", got, want)))
				return
			}
			if !same {
				o.r.pviol("put-returns-other-pointer", s.ID, info(st, k, "Put did not return the pointer it was given"))
				return
			}
			if got := q.Get[i](); fmt.Sprint(got) != fmt.Sprint(wantGet) && !(len(got) == 0 && len(wantGet) == 0) {
				o.r.pviol("get-wrong-value", s.ID, info(st, k, fmt.Sprintf("Get after Put returned %v, want %v", got, wantGet)))
				return
			}
			// GetPut: every field keeps its value and nothing outside the field changes (padding inside a
			// struct-typed focus is nobody's value: a struct copy need not preserve it)
			sameRT := q.RT[i]()
			_, badRT := o.diffOutside(after, o.image(), lo, hi)
			if !sameRT || badRT || fmt.Sprint(o.snapOwn()) != fmt.Sprint(want) {
				o.r.pviol("getput-changes", s.ID, info(st, k, "Put(s, Get(s)) changed a field, memory outside the field, or returned another pointer"))
				return
			}
			o.r.stats["transitions"]++
		}
	}
	o.restore(o.clean)
	o.r.stats["lenses"]++
}

// script replays TLC's multi-step Put script (expected cell values after every step, expected Get).
func (o *orun) script(derived map[int]bool) {
	s, c := o.s, o.c
	for _, st := range c.Script {
		if !derived[st.Rq] {
			return // the generator compiles every core request; a missing one was reported above
		}
	}
	o.restore(o.clean)
	for n, st := range c.Script {
		q := s.Reqs[st.Rq]
		q.Put[0](st.K)
		var want, got []int
		for _, cell := range o.own {
			want = append(want, st.Vals[cell])
			got = append(got, s.Snap(cell))
		}
		var wantGet []int
		f := c.Reqs[st.Rq-1].Want.Foci[0]
		for cell := f[0]; cell <= f[1]; cell++ {
			if c.Cells[cell-1].Own {
				wantGet = append(wantGet, st.Get[cell-f[0]])
			}
		}
		o.r.stats["script-steps"]++
		if fmt.Sprint(got) != fmt.Sprint(want) {
			o.r.pviol("script-state", s.ID, rec{"step": n, "script": c.Script, "detail": fmt.Sprintf("fields after step %d: %v, TLC expects %v", n+1, got, want)})
			break
		}
		if g := q.Get[0](); fmt.Sprint(g) != fmt.Sprint(wantGet) && !(len(g) == 0 && len(wantGet) == 0) {
			o.r.pviol("script-get", s.ID, rec{"step": n, "script": c.Script, "detail": fmt.Sprintf("Get after step %d: %v, TLC expects %v", n+1, g, wantGet)})
			break
		}
	}
	if len(c.Script) > 0 {
		o.r.stats["scripts"]++
	}
	o.restore(o.clean)
}

// throughPointer: the first match of component i lies behind an embedded pointer, yet the derivation returned an
// optic.  The statement is met only if that optic acts on a field of the requested type: the hidden field itself
// (through the pointer), or a field of that type (and key) stored by value (TLC's `alt`).
func (o *orun) throughPointer(ri int, q *OReq, e *oReq, i int) {
	s, c := o.s, o.c
	o.r.stats["through-pointer-lenses"]++
	info := func(k int, d string) rec {
		return rec{"rq": ri, "req": e, "comp": i, "api": q.API, "k": k, "detail": d}
	}
	f := e.Want.Foci[i]
	reset := func() {
		o.restore(o.clean)
		for ci, cell := range c.Cells { // allocate: every embedded pointer points at its first pointee, outer first
			if cell.Kind == "ptr" {
				s.Set(ci, 1)
			}
		}
		for ci, cell := range c.Cells {
			if cell.Kind != "ptr" {
				s.Set(ci, 0)
			}
		}
	}
	snapAll := func() []int {
		out := make([]int, len(c.Cells))
		for ci := range c.Cells {
			out[ci] = s.Snap(ci)
		}
		return out
	}
	for k := 1; k <= 2; k++ {
		reset()
		before, all0 := o.image(), snapAll()
		p, msg := try(func() { q.Put[i](k) })
		after := o.image()
		o.r.stats["transitions"]++
		if p {
			o.restore(before)
			o.r.pviol("lens-through-embedded-pointer", s.ID, info(k, "Put through the accepted optic panicked: "+msg))
			break
		}
		if !bytes.Equal(before, after) {
			// the write landed in the struct itself: fine only if it is exactly a by-value field of the requested type
			ok := false
			for _, a := range e.Want.Alt[i] {
				ext := s.Ents[a.Ent-1]
				if _, bad := o.diffOutside(before, after, ext[0], ext[0]+ext[1]); bad {
					continue
				}
				ok = true
				for cell := a.Focus[0]; cell <= a.Focus[1]; cell++ {
					if c.Cells[cell-1].Own && s.Snap(cell-1) != k%c.Cells[cell-1].NV {
						ok = false
					}
				}
			}
			if ok {
				o.r.stats["through-pointer-coincident"]++
				continue
			}
			at, _ := o.diffOutside(before, after, 0, 0)
			o.restore(before)
			o.r.pviol("lens-through-embedded-pointer", s.ID, info(k, fmt.Sprintf(
				"the first match %v lies behind an embedded pointer; the accepted optic wrote into the outer struct's own memory at offset %d, which is no field of the requested type", c.Listing[e.Want.Ents[i]-1].Path, at)))
			break
		}
		want := append([]int{}, all0...)
		for cell := f[0]; cell <= f[1]; cell++ {
			// the value carries the field's own leaves and pointers; what hangs off a pointer inside it is not part of it
			hidden := false
			for other := f[0]; other <= f[1]; other++ {
				po, pc := c.Cells[other-1].Path, c.Cells[cell-1].Path
				if c.Cells[other-1].Kind == "ptr" && len(po) < len(pc) && fmt.Sprint(pc[:len(po)]) == fmt.Sprint(po) {
					hidden = true
				}
			}
			if !hidden {
				want[cell-1] = k % c.Cells[cell-1].NV
			}
		}
		if got := snapAll(); fmt.Sprint(got) != fmt.Sprint(want) {
			o.r.pviol("lens-through-embedded-pointer", s.ID, info(k, fmt.Sprintf("after Put the fields (through the pointers) are %v, want %v", got, want)))
			break
		}
	}
	reset()
	o.restore(o.clean)
}

// foreign: a Reflector given anything but *T panics and modifies nothing.  Which classes of dynamic types must be
// refused comes from TLC's table; the generated code supplies one argument per class.
func (o *orun) foreign(ri int, q *OReq, e *oReq) {
	s := o.s
	if o.foreignHit {
		return // a reflector of this shape already wrote through a foreign pointer: do not let it scribble any further
	}
	args := s.Foreign()
	// arguments that own guarded memory first: if the reflector accepts one of them, the write lands where it can be seen
	rank := map[string]int{"twin": 1, "twin-tags": 2, "defined": 3, "other": 4, "first-field": 5, "value": 6, "nil": 7, "uintptr": 8, "unsafe": 9, "ptr-ptr": 10}
	classes := append(o.c.Foreign[:0:0], o.c.Foreign...)
	sort.SliceStable(classes, func(a, b int) bool { return rank[classes[a].Class] < rank[classes[b].Class] })
	for i := range q.PutAny {
		for _, fc := range classes {
			if o.foreignHit {
				break
			}
			if fc.Want != "panic" {
				continue // "put" is the reflector's own *T (exercised as a lens above); "any": a nil *T is not dereferenced here
			}
			a, ok := args[fc.Class]
			if !ok {
				o.r.infra(s.ID, "no generated argument for the foreign class "+fc.Class)
				return
			}
			info := func(d string) rec {
				return rec{"rq": ri, "req": e, "api": q.API, "comp": i, "class": fc.Class, "arg": fmt.Sprintf("%T", a.Arg), "detail": d}
			}
			image := func() []byte {
				if a.Image == nil {
					return nil
				}
				return a.Image()
			}
			o.restore(o.clean)
			before, abefore := o.image(), image()
			for k := 1; k <= 2; k++ {
				p, _ := try(func() { q.PutAny[i](a.Arg, k) })
				o.r.stats["foreign-calls"]++
				if !p {
					o.r.pviol("reflector-accepts-foreign-type", s.ID, info(fmt.Sprintf("Putt(%T (%s), value) did not panic", a.Arg, fc.Class)))
					o.foreignHit = true
					break
				}
			}
			if !bytes.Equal(before, o.image()) || !bytes.Equal(abefore, image()) {
				o.r.pviol("reflector-modifies-on-reject", s.ID, info(fmt.Sprintf("Putt(%T (%s), value) wrote through the argument", a.Arg, fc.Class)))
				o.restore(o.clean)
			}
			p, _ := try(func() { q.GetAny[i](a.Arg) })
			o.r.stats["foreign-calls"]++
			if !p {
				o.r.pviol("reflector-accepts-foreign-type", s.ID, info(fmt.Sprintf("Gett(%T (%s)) did not panic", a.Arg, fc.Class)))
			}
			o.r.stats["foreign-classes-tried"]++
		}
	}
	o.restore(o.clean)
}
