package opticsdrv

import (
	"fmt"
	"strings"
	"testing"
)

// C03Shape is handed over by the generated code for one struct type T.
type C03Shape struct {
	ID       int
	Size     uintptr // unsafe.Sizeof(T{})
	Align    uintptr
	Wit      []Wit                                // compiler's view of the listing entries, in TLC's listing order
	List     func() []Entry                       // hseq.New[T]()
	Name     func(string) Entry                   // hseq.ForName(hseq.New[T](), k)
	Maybe    func(string) (Entry, bool)           // hseq.ForNameMaybe
	Type     map[string]func() Entry              // model type -> hseq.ForType[A, T]
	Sel      func(...string) []Entry              // hseq.New[T](names...)
	SelT     map[string]func() []Entry            // "A|B|C" -> hseq.New3[T, A, B, C]()
	Scribble func()                               // reverses and partly clears, in place, the listing a call of hseq.New[T]() returned
	Subs     map[string]func() []Entry            // struct type of the shape -> hseq.New[E]() (the type unfolded on its own)
	Outer2   func() []Entry                       // hseq.New[T1]() for T1 struct{ Pad0 int64; <first embedded struct of T> }
	FMap     func() []Probe                       // hseq.FMap(hseq.New[T](), probe)
	FMapN    map[int]func(names []string) []Probe // N -> hseq.FMapN(hseq.New[T](names...), probe 0, ..., probe N-1)
}

type c03Listing struct {
	Key   string   `json:"key"`
	Name  string   `json:"name"`
	ID    int      `json:"id"`
	Ty    string   `json:"ty"`
	ByVal bool     `json:"byval"`
	Abs   int      `json:"abs"`
	Path  []string `json:"path"`
}

type c03Lookup struct {
	Q     string `json:"q"`
	First int    `json:"first"`
}

type c03Sel struct {
	Names []string `json:"names"`
	Types []string `json:"types"`
	Ix    []int    `json:"ix"`
}

type c03Sub struct {
	Ty      string       `json:"ty"`
	Listing []c03Listing `json:"listing"`
}

type c03Case struct {
	Subs   []c03Sub `json:"subs"`
	Outer2 struct {
		Listing []c03Listing `json:"listing"`
	} `json:"outer2"`
	SID     int          `json:"sid"`
	Size    int          `json:"size"`
	Align   int          `json:"align"`
	Listing []c03Listing `json:"listing"`
	Names   []c03Lookup  `json:"names"`
	Types   []c03Lookup  `json:"types"`
	Sel     []c03Sel     `json:"sel"`
	SelT    []c03Sel     `json:"selt"`
}

// RunC03 compares hseq's answers on every generated type with what TLC printed for its shape.
func RunC03(t *testing.T, shapes []func() *C03Shape) {
	r := newReporter(t)
	defer r.close()
	cases := readCases(t, func(c *c03Case) int { return c.SID })
	for _, mk := range shapes {
		s := mk()
		c := cases[s.ID]
		if c == nil {
			r.infra(s.ID, "no expectation for generated shape")
			continue
		}
		runC03(r, s, c)
		r.stats["shapes"]++
	}
}

// same reports how entry e differs from listing position j (1-based) of the expectation; "" = it is that entry.
func (c *c03Case) same(s *C03Shape, e Entry, j int) (kind, detail string) {
	x, w := c.Listing[j-1], s.Wit[j-1]
	switch {
	case e.Key != x.Key:
		return "key", fmt.Sprintf("FieldKey %q, want %q", e.Key, x.Key)
	case e.Name != x.Name:
		return "key", fmt.Sprintf("field name %q, want %q", e.Name, x.Name)
	case e.ID != x.ID:
		return "id", fmt.Sprintf("ID %d, want %d", e.ID, x.ID)
	case e.Type != w.Type:
		return "type", fmt.Sprintf("type %v, want %v", e.Type, w.Type)
	case x.ByVal && e.Abs != w.Off:
		return "offset", fmt.Sprintf("RootOffs+Offset = %d, the compiler puts %s at %d", e.Abs, strings.Join(x.Path, "."), w.Off)
	}
	return "", ""
}

func runC03(r *reporter, s *C03Shape, c *c03Case) {
	// ---- the model's layout against the compiler's (a disagreement is a model error, never a verdict)
	if int(s.Size) != c.Size || int(s.Align) != c.Align {
		r.infra(s.ID, fmt.Sprintf("model size/align %d/%d, compiler %d/%d", c.Size, c.Align, s.Size, s.Align))
		return
	}
	if len(s.Wit) != len(c.Listing) {
		r.infra(s.ID, "generated witness table and listing differ in length")
		return
	}
	for j, x := range c.Listing {
		if x.ByVal != s.Wit[j].ByVal || (x.ByVal && uintptr(x.Abs) != s.Wit[j].Off) {
			r.infra(s.ID, fmt.Sprintf("model offset of %s = %d, compiler %d", strings.Join(x.Path, "."), x.Abs, s.Wit[j].Off))
			return
		}
	}
	// ---- the listing
	var list []Entry
	if p, msg := try(func() { list = s.List() }); p {
		r.pviol("listing-panic", s.ID, rec{"api": "New", "detail": msg})
		return
	}
	r.stats["calls"]++
	if len(list) != len(c.Listing) {
		r.pviol("listing-length", s.ID, rec{"api": "New", "detail": fmt.Sprintf("%d entries, want %d", len(list), len(c.Listing))})
		return
	}
	for j := range list {
		if k, d := c.same(s, list[j], j+1); k != "" {
			r.pviol("listing-"+k, s.ID, rec{"api": "New", "pos": j, "detail": d})
		}
		r.stats["entries"]++
	}
	// ---- lookups by name
	for _, q := range c.Names {
		var e Entry
		p, msg := try(func() { e = s.Name(q.Q) })
		r.stats["calls"]++
		switch {
		case q.First == 0 && !p:
			r.pviol("lookup-silent", s.ID, rec{"api": "ForName", "q": q.Q, "detail": fmt.Sprintf("no field has the key, yet entry %q (ID %d) was returned", e.Key, e.ID)})
		case q.First != 0 && p:
			r.pviol("lookup-panic", s.ID, rec{"api": "ForName", "q": q.Q, "detail": msg})
		case q.First != 0:
			if k, d := c.same(s, e, q.First); k != "" {
				r.pviol("lookup-first", s.ID, rec{"api": "ForName", "q": q.Q, "detail": d})
			}
		}
		var ok bool
		p, msg = try(func() { e, ok = s.Maybe(q.Q) })
		r.stats["calls"]++
		switch {
		case p:
			r.pviol("lookup-panic", s.ID, rec{"api": "ForNameMaybe", "q": q.Q, "detail": msg})
		case ok != (q.First != 0):
			r.pviol("lookup-maybe", s.ID, rec{"api": "ForNameMaybe", "q": q.Q, "detail": fmt.Sprintf("ok = %v", ok)})
		case ok:
			if k, d := c.same(s, e, q.First); k != "" {
				r.pviol("lookup-first", s.ID, rec{"api": "ForNameMaybe", "q": q.Q, "detail": d})
			}
		}
	}
	// ---- lookups by type
	for _, q := range c.Types {
		f := s.Type[q.Q]
		if f == nil {
			r.infra(s.ID, "no generated ForType for "+q.Q)
			continue
		}
		var e Entry
		p, msg := try(func() { e = f() })
		r.stats["calls"]++
		switch {
		case q.First == 0 && !p:
			r.pviol("lookup-silent", s.ID, rec{"api": "ForType", "q": q.Q, "detail": fmt.Sprintf("no field has the type, yet entry %q (ID %d) was returned", e.Key, e.ID)})
		case q.First != 0 && p:
			r.pviol("lookup-panic", s.ID, rec{"api": "ForType", "q": q.Q, "detail": msg})
		case q.First != 0:
			if k, d := c.same(s, e, q.First); k != "" {
				r.pviol("lookup-first", s.ID, rec{"api": "ForType", "q": q.Q, "detail": d})
			}
		}
	}
	// ---- selections keep the requested order
	sel := func(api string, q []string, ix []int, f func() []Entry) {
		var es []Entry
		p, msg := try(func() { es = f() })
		r.stats["calls"]++
		must := false
		for _, i := range ix {
			must = must || i == 0
		}
		switch {
		case must && !p:
			r.pviol("select-silent", s.ID, rec{"api": api, "q": q, "detail": "a requested name/type does not exist, yet a selection was returned"})
		case !must && p:
			r.pviol("select-panic", s.ID, rec{"api": api, "q": q, "detail": msg})
		case !must:
			if len(es) != len(ix) {
				r.pviol("select-order", s.ID, rec{"api": api, "q": q, "detail": fmt.Sprintf("%d entries, want %d", len(es), len(ix))})
				return
			}
			for i := range es {
				if k, d := c.same(s, es[i], ix[i]); k != "" {
					r.pviol("select-order", s.ID, rec{"api": api, "q": q, "pos": i, "detail": d})
				}
			}
		}
	}
	for _, q := range c.Sel {
		q := q
		sel("New(names)", q.Names, q.Ix, func() []Entry { return s.Sel(q.Names...) })
	}
	for _, q := range c.SelT {
		if f := s.SelT[strings.Join(q.Types, "|")]; f != nil {
			sel(fmt.Sprintf("New%d", len(q.Types)), q.Types, q.Ix, f)
			r.stats["newN"]++
		}
	}
	// ---- FMap hands entry i to function i
	var ps []Probe
	if p, msg := try(func() { ps = s.FMap() }); p || len(ps) != len(c.Listing) {
		r.pviol("fmap-position", s.ID, rec{"api": "FMap", "detail": fmt.Sprintf("panic=%v %s, %d results", p, msg, len(ps))})
	} else {
		for j := range ps {
			if k, d := c.same(s, ps[j].E, j+1); k != "" {
				r.pviol("fmap-position", s.ID, rec{"api": "FMap", "pos": j, "detail": d})
			}
		}
	}
	r.stats["calls"]++
	for n, f := range s.FMapN {
		for _, q := range c.Sel {
			ok := len(q.Names) == n
			for _, i := range q.Ix {
				ok = ok && i != 0
			}
			if !ok {
				continue
			}
			var ps []Probe
			p, msg := try(func() { ps = f(q.Names) })
			r.stats["calls"]++
			r.stats["fmapN"]++
			if p || len(ps) != n {
				r.pviol("fmap-position", s.ID, rec{"api": fmt.Sprintf("FMap%d", n), "q": q.Names, "detail": fmt.Sprintf("panic=%v %s, %d results", p, msg, len(ps))})
				continue
			}
			for i := range ps {
				k, d := c.same(s, ps[i].E, q.Ix[i])
				if ps[i].Fn != i || k != "" {
					r.pviol("fmap-position", s.ID, rec{"api": fmt.Sprintf("FMap%d", n), "q": q.Names, "pos": i,
						"detail": fmt.Sprintf("result %d was produced by function %d from an entry that is not the %d-th (%s)", i, ps[i].Fn, i+1, d)})
				}
			}
		}
	}
	// ---- what the process unfolded before must not matter: every struct type of the shape on its own, a second outer struct
	// that embeds the first embedded struct at another offset, and then the shape itself once more.  (Keys, names, IDs and the
	// offsets of the by-value entries are compared with the model's listing of that struct; the model's layout was checked
	// against the compiler above.)
	plain := func(api string, got []Entry, want []c03Listing) {
		r.stats["calls"]++
		if len(got) != len(want) {
			r.pviol("listing-length", s.ID, rec{"api": api, "detail": fmt.Sprintf("%d entries, want %d", len(got), len(want))})
			return
		}
		for j, x := range want {
			e := got[j]
			switch {
			case e.Key != x.Key || e.Name != x.Name:
				r.pviol("listing-key", s.ID, rec{"api": api, "pos": j, "detail": fmt.Sprintf("FieldKey %q / name %q, want %q / %q", e.Key, e.Name, x.Key, x.Name)})
			case e.ID != x.ID:
				r.pviol("listing-id", s.ID, rec{"api": api, "pos": j, "detail": fmt.Sprintf("ID %d, want %d", e.ID, x.ID)})
			case x.ByVal && int(e.Abs) != x.Abs:
				r.pviol("listing-offset", s.ID, rec{"api": api, "pos": j, "detail": fmt.Sprintf("RootOffs+Offset = %d, the field %s is at %d", e.Abs, strings.Join(x.Path, "."), x.Abs)})
			}
			r.stats["entries"]++
		}
	}
	for _, sub := range c.Subs {
		f := s.Subs[sub.Ty]
		if f == nil {
			r.infra(s.ID, "no generated hseq.New for "+sub.Ty)
			continue
		}
		var es []Entry
		if p, msg := try(func() { es = f() }); p {
			r.pviol("listing-panic", s.ID, rec{"api": "New[" + sub.Ty + "] (a struct type of the shape on its own)", "detail": msg})
			continue
		}
		plain("New["+sub.Ty+"] (a struct type of the shape on its own, after the shape)", es, sub.Listing)
	}
	if s.Outer2 != nil && len(c.Outer2.Listing) > 0 {
		var es []Entry
		if p, msg := try(func() { es = s.Outer2() }); p {
			r.pviol("listing-panic", s.ID, rec{"api": "New[struct{ Pad0 int64; <the first embedded struct> }]", "detail": msg})
		} else {
			plain("New[struct{ Pad0 int64; <the first embedded struct of the shape> }] (a second struct embedding it, at another offset)", es, c.Outer2.Listing)
		}
	}
	if s.Scribble != nil {
		try(s.Scribble) // the caller does what it likes with the slice it was given: the next listing is a new one
	}
	if p, msg := try(func() { list = s.List() }); p {
		r.pviol("listing-panic", s.ID, rec{"api": "New (once more)", "detail": msg})
	} else if len(list) != len(c.Listing) {
		r.pviol("listing-length", s.ID, rec{"api": "New (once more)", "detail": fmt.Sprintf("%d entries, want %d", len(list), len(c.Listing))})
	} else {
		for j := range list {
			if k, d := c.same(s, list[j], j+1); k != "" {
				r.pviol("listing-"+k, s.ID, rec{"api": "New (once more, after its struct types were unfolded on their own and a caller reversed and cleared, in place, the listing it had been given)", "pos": j, "detail": d})
			}
		}
	}
	r.stats["calls"]++
}
