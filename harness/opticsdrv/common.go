package opticsdrv

import (
	"encoding/json"
	"fmt"
	"os"
	"reflect"
	"runtime/debug"
	"testing"

	"github.com/fogfish/golem/hseq"

	"verifharness/vio"
)

// Entry is what the statement of C03 promises about one hseq.Type[T]: its key, its field name, its ID, its declared
// type and the *sum* RootOffs+Offset (never the two summands on their own).
type Entry struct {
	Key  string
	Name string
	ID   int
	Type reflect.Type
	Abs  uintptr
}

func Ent[T any](t hseq.Type[T]) Entry {
	return Entry{Key: t.FieldKey(), Name: t.Name, ID: t.ID, Type: t.Type, Abs: t.RootOffs + t.Offset}
}

func Ents[T any](s hseq.Seq[T]) []Entry {
	out := make([]Entry, len(s))
	for i, t := range s {
		out[i] = Ent(t)
	}
	return out
}

// Probe records which of the N functions handed to FMapN received which entry.
type Probe struct {
	Fn int
	E  Entry
}

func P[T any](i int) func(hseq.Type[T]) Probe {
	return func(t hseq.Type[T]) Probe { return Probe{Fn: i, E: Ent(t)} }
}

// Wit is the compiler's view of one listing entry, obtained through ordinary selectors in the generated code.
type Wit struct {
	Type  reflect.Type
	ByVal bool
	Off   uintptr // unsafe.Offsetof chain; valid when ByVal
	Size  uintptr
}

// try runs f and reports whether it panicked (with the panic value rendered).
func try(f func()) (panicked bool, msg string) {
	defer func() {
		if r := recover(); r != nil {
			panicked = true
			msg = fmt.Sprint(r)
			if len(msg) > 300 {
				msg = msg[:300]
			}
		}
	}()
	f()
	return
}

type rec map[string]any

type reporter struct {
	out   *vio.Out
	stats map[string]int
}

func newReporter(t *testing.T) *reporter {
	// the lenses under test do raw pointer arithmetic; a defective one writes non-pointers over pointer slots.
	// Nothing here allocates much: keep the collector out of the way so that such a write cannot crash the run.
	debug.SetGCPercent(-1)
	o, err := vio.Create(vio.Env("VERIF_OUT", os.DevNull))
	if err != nil {
		t.Fatal(err)
	}
	return &reporter{out: o, stats: map[string]int{}}
}

func (r *reporter) pviol(kind string, sid int, f rec) {
	f["t"], f["kind"], f["sid"] = "pviol", kind, sid
	r.out.Put(f)
	r.stats["pviol"]++
}

func (r *reporter) infra(sid int, what string) {
	r.out.Put(rec{"t": "infra", "sid": sid, "what": what})
	r.stats["infra"]++
}

func (r *reporter) drift(sid int, what string) {
	r.out.Put(rec{"t": "drift", "sid": sid, "what": what})
	r.stats["drift"]++
}

func (r *reporter) close() {
	s := rec{"t": "stats"}
	for k, v := range r.stats {
		s[k] = v
	}
	r.out.Put(s)
	r.out.Close()
}

// readCases loads the expectations TLC printed (one JSON object per line, "sid" = shape id given by the generator).
func readCases[C any](t *testing.T, sidOf func(*C) int) map[int]*C {
	cases := map[int]*C{}
	err := vio.ReadLines(vio.Env("VERIF_IN", ""), func(line []byte) error {
		c := new(C)
		if err := json.Unmarshal(line, c); err != nil {
			return err
		}
		cases[sidOf(c)] = c
		return nil
	})
	if err != nil {
		t.Fatalf("reading VERIF_IN: %v", err)
	}
	return cases
}
